#!/bin/bash
# usage: runsuite.sh <dir>  -> runs baseline cmd in dir, compares with stable_pass
cd "$1" || exit 2
/venv/bin/python -c "import photon_weave,sys; print('using', photon_weave.__file__)"
/venv/bin/python -m pytest -ra -q -p no:cacheprovider --timeout=900 --continue-on-collection-errors --junitxml=${TMPDIR:-/tmp}/pw_triage_run.junit.xml > ${TMPDIR:-/tmp}/pw_triage_run.log 2>&1
tail -1 ${TMPDIR:-/tmp}/pw_triage_run.log
JUNIT=${TMPDIR:-/tmp}/pw_triage_run.junit.xml /venv/bin/python - <<'PY'
import json, os, xml.etree.ElementTree as ET
b=json.load(open('/root/.vp/BASELINE.json'))
stable=set(b['stable_pass'])
t=ET.parse(os.environ['JUNIT'])
res={}
for tc in t.iter('testcase'):
    name=f"{tc.get('classname')}::{tc.get('name')}"
    ok = not any(ch.tag in ('failure','error','skipped') for ch in tc)
    res[name]=ok
missing=[s for s in stable if s not in res]
broken=[s for s in stable if s in res and not res[s]]
print('stable',len(stable),'seen',len(res),'missing',len(missing),'BROKEN',len(broken))
for x in broken: print('  BROKEN',x)
newpass=[n for n,ok in res.items() if ok and n not in stable]
print('newly passing (not in stable):',newpass)
PY
