import ast, pathlib
root = pathlib.Path('/repo/photon_weave/state')
for f in ['base_state.py','fock.py','polarization.py','custom_state.py']:
    t=ast.parse((root/f).read_text())
    for c in [n for n in t.body if isinstance(n,ast.ClassDef)]:
        for m in [n for n in c.body if isinstance(n,ast.FunctionDef)]:
            for n in ast.walk(m):
                if isinstance(n,ast.If):
                    ts=ast.unparse(n.test)
                    if 'self.index' in ts:
                        calls=[ast.unparse(x) for b in n.body for x in ast.walk(b) if isinstance(x,ast.Call) and ('envelope' in ast.unparse(x.func))]
                        last=n.body[-1]
                        term = isinstance(last,(ast.Return,ast.Raise))
                        print(f"{f}:{n.lineno} {c.name}.{m.name}({', '.join(a.arg for a in m.args.args[1:])}) | {ts} | calls={calls} | terminates={term}")
