"""Throw-away feasibility prototype: abstract summaries of einsum_constructor generators.
Not part of the machinery. Interprets the generator ASTs over abstract lists (no unrolling
of parameter lists, no execution of the target module)."""
import ast, sys, itertools, pathlib

SRC = pathlib.Path(sys.argv[1] if len(sys.argv) > 1 else '/repo/photon_weave/extra/einsum_constructor.py')
tree = ast.parse(SRC.read_text())


class Fam:  # a family of fresh indices, one per element of `over` (or a single one if over is None)
    def __init__(self, site, passes, over):
        self.site, self.passes, self.over = site, passes, over
    def __repr__(self):
        p = ''.join(f"p{k}" for k in self.passes)
        return f"F{self.site}{p}" + (f"[{self.over}]" if self.over else '')
    def key(self):
        return (self.site, self.passes, self.over)


class Cond:
    def __init__(self, test, a, b): self.test, self.a, self.b = test, a, b
    def __repr__(self): return f"({self.a} if {self.test} else {self.b})"


class Seg:
    def __init__(self, kind, item, over=None, flt=None): self.kind, self.item, self.over, self.flt = kind, item, over, flt
    def __repr__(self):
        if self.kind == 'one': return f"[{self.item}]"
        f = f" if {self.flt}" if self.flt else ''
        return f"[{self.item} | x∈{self.over}{f}]"


class Incomplete(Exception):
    pass


class Interp:
    def __init__(self, fn):
        self.fn = fn
        self.params = [a.arg for a in fn.args.args]
        self.lists = {}        # name -> list of SeqTerm (list of Seg)
        self.dicts = {}        # name -> ('list', events) | ('scalar', events)
        self.env = {}          # scalar locals -> item
        self.counter = None
        self.result = None

    # ---- context: loop stack entries ('elem', var, listname) | ('pass', var, k); facts: set of ('in'|'notin', listname)
    def run(self):
        self.block(self.fn.body, [], frozenset())
        return self.result

    def block(self, stmts, loops, facts):
        for s in stmts:
            self.stmt(s, loops, facts)

    def elem_loop(self, loops):
        for l in reversed(loops):
            if l[0] == 'elem': return l
        return None

    def passes(self, loops):
        return tuple(l[2] for l in loops if l[0] == 'pass')

    def fresh(self, node, loops):
        el = self.elem_loop(loops)
        return Fam(node.lineno, self.passes(loops), el[2] if el else None)

    def emit(self, target_list, item, loops, facts):
        el = self.elem_loop(loops)
        if el is None:
            target_list.append(Seg('one', item))
        else:
            flt = ' & '.join(f"x {k} {l}" for k, l in sorted(facts)) or None
            target_list.append(Seg('map', item, el[2], flt))

    def lookup_dict(self, name, j, loops, facts):
        kind, events = self.dicts[name]
        el = self.elem_loop(loops)
        if el is None: raise Incomplete('dict lookup outside element loop')
        over = el[2]
        known_in = {over} | {l for k, l in facts if k == 'in'}
        # precondition of every generator: operand/kept lists are sub-lists of state_objs
        if over != self.params[0] or any(k == 'in' for k, _ in facts): known_in.add(self.params[0])
        app = [e for e in events if e.over in known_in]
        if kind == 'scalar':
            return app[-1]
        if j >= len(app): raise Incomplete(f'dict index {j} beyond {len(app)} events')
        return app[j]

    def item(self, node, loops, facts):
        if isinstance(node, ast.Name):
            if node.id in self.env: return self.env[node.id]
            raise Incomplete(f'unknown name {node.id}')
        if isinstance(node, ast.Subscript):
            # einsum_dict[s][j]  or einsum_dict[s]
            if isinstance(node.value, ast.Subscript) and isinstance(node.value.value, ast.Name) and node.value.value.id in self.dicts:
                j = node.slice
                if isinstance(j, ast.Constant): jv = j.value
                elif isinstance(j, ast.Name) and isinstance(self.env.get(j.id), int): jv = self.env[j.id]
                else: raise Incomplete('non-constant dict index')
                return self.lookup_dict(node.value.value.id, jv, loops, facts)
            if isinstance(node.value, ast.Name) and node.value.id in self.dicts:
                return self.lookup_dict(node.value.id, 0, loops, facts)
        raise Incomplete('item ' + ast.unparse(node))

    def list_ref(self, node):
        # einsum_list_list[k]
        if isinstance(node, ast.Subscript) and isinstance(node.value, ast.Name) and node.value.id in self.lists and isinstance(node.slice, ast.Constant):
            return self.lists[node.value.id][node.slice.value]
        return None

    def stmt(self, s, loops, facts):
        if isinstance(s, ast.Expr) and isinstance(s.value, ast.Constant):
            return  # docstring
        if isinstance(s, (ast.Assign, ast.AnnAssign)):
            tgt = s.targets[0] if isinstance(s, ast.Assign) else s.target
            val = s.value
            # list of lists
            if isinstance(val, ast.List) and all(isinstance(e, ast.List) and not e.elts for e in val.elts) and isinstance(tgt, ast.Name):
                self.lists[tgt.id] = [[] for _ in val.elts]; return
            if isinstance(val, ast.Call) and ast.unparse(val.func) == 'itertools.count':
                self.counter = tgt.id; return
            if isinstance(val, ast.DictComp) and isinstance(tgt, ast.Name):
                kind = 'list' if isinstance(val.value, ast.List) else 'scalar'
                self.dicts[tgt.id] = (kind, []); return
            if isinstance(val, ast.Call) and ast.unparse(val.func) == 'next':
                self.env[tgt.id] = self.fresh(val, loops); return
            # einsum_dict[s] = c
            if isinstance(tgt, ast.Subscript) and isinstance(tgt.value, ast.Name) and tgt.value.id in self.dicts:
                it = self.item(val, loops, facts)
                self.dicts[tgt.value.id][1].append(it); return
            # einsum_list_list[1] = [einsum_dict[s] for s in states]
            lr = self.list_ref(tgt)
            if lr is not None and isinstance(val, ast.ListComp):
                g = val.generators[0]
                lp = loops + [('elem', g.target.id, g.iter.id)]
                del lr[:]
                self.emit(lr, self.item(val.elt, lp, facts), lp, facts); return
            # c = einsum_dict[s][i]
            if isinstance(tgt, ast.Name) and isinstance(val, ast.Subscript):
                self.env[tgt.id] = self.item(val, loops, facts); return
            if isinstance(tgt, ast.Name) and isinstance(val, ast.Name) and val.id in self.env:
                self.env[tgt.id] = self.env[val.id]; return
            # formatting tail
            if isinstance(tgt, ast.Name) and isinstance(val, ast.ListComp):
                self.env[tgt.id] = ('fmt', val); return
            if isinstance(tgt, ast.Name) and isinstance(val, ast.JoinedStr):
                self.env[tgt.id] = ('fstr', val); return
            raise Incomplete('assign ' + ast.unparse(s))
        if isinstance(s, ast.Expr) and isinstance(s.value, ast.Call) and isinstance(s.value.func, ast.Attribute) and s.value.func.attr == 'append':
            recv = s.value.func.value
            arg = s.value.args[0]
            lr = self.list_ref(recv)
            if lr is not None:
                self.emit(lr, self.item(arg, loops, facts), loops, facts); return
            if isinstance(recv, ast.Subscript) and isinstance(recv.value, ast.Name) and recv.value.id in self.dicts:
                it = self.item(arg, loops, facts)
                self.dicts[recv.value.id][1].append(it); return
            raise Incomplete('append ' + ast.unparse(s))
        if isinstance(s, ast.For):
            it = s.iter
            if isinstance(it, ast.Call) and ast.unparse(it.func) == 'range' and isinstance(it.args[0], ast.Constant):
                for k in range(it.args[0].value):
                    if isinstance(s.target, ast.Name) and s.target.id != '_': self.env[s.target.id] = k
                    self.block(s.body, loops + [('pass', s.target.id, k)], facts)
                return
            if isinstance(it, ast.Name) and it.id in self.params:
                self.block(s.body, loops + [('elem', s.target.id, it.id)], frozenset()); return
            raise Incomplete('for ' + ast.unparse(it))
        if isinstance(s, ast.If):
            t = s.test
            if isinstance(t, ast.Compare) and isinstance(t.ops[0], (ast.In, ast.NotIn)) and isinstance(t.comparators[0], ast.Name):
                pos, neg = ('in', 'notin') if isinstance(t.ops[0], ast.In) else ('notin', 'in')
                l = t.comparators[0].id
                self.block(s.body, loops, facts | {(pos, l)})
                self.block(s.orelse, loops, facts | {(neg, l)})
                return
            raise Incomplete('if ' + ast.unparse(t))
        if isinstance(s, ast.Return):
            v = s.value
            if isinstance(v, ast.Name) and isinstance(self.env.get(v.id), tuple) and self.env[v.id][0] == 'fstr': v = self.env[v.id][1]
            self.result = v; return
        raise Incomplete('stmt ' + ast.unparse(s)[:60])


def merge(seq):
    """merge adjacent complementary filtered maps over the same list into one conditional map (same loop)"""
    return seq


for fn in [n for n in tree.body if isinstance(n, ast.FunctionDef)]:
    I = Interp(fn)
    try:
        ret = I.run()
        print(f"== {fn.name}({', '.join(I.params)})")
        for name, ls in I.lists.items():
            for k, l in enumerate(ls):
                print(f"   {name}[{k}] = " + ' ++ '.join(map(repr, l)))
        print("   returns:", ast.unparse(ret))
    except Incomplete as e:
        print(f"== {fn.name}: INCOMPLETE {e}")
