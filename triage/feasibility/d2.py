# names bound only under `if TYPE_CHECKING:` at module level and loaded at runtime (non-annotation) inside functions lacking a local binding
import ast, pathlib
root = pathlib.Path('/repo/photon_weave')
for p in sorted(root.rglob('*.py')):
    src=p.read_text(); t=ast.parse(src)
    future = any(isinstance(n,ast.ImportFrom) and n.module=='__future__' and any(a.name=='annotations' for a in n.names) for n in t.body)
    tc=set(); rt=set()
    for n in t.body:
        if isinstance(n,ast.If) and 'TYPE_CHECKING' in ast.unparse(n.test):
            for m in ast.walk(n):
                if isinstance(m,(ast.Import,ast.ImportFrom)):
                    for a in m.names: tc.add((a.asname or a.name).split('.')[0])
        else:
            for m in ast.walk(n) if not isinstance(n,(ast.FunctionDef,ast.ClassDef)) else []:
                if isinstance(m,(ast.Import,ast.ImportFrom)):
                    for a in m.names: rt.add((a.asname or a.name).split('.')[0])
            if isinstance(n,(ast.ClassDef,ast.FunctionDef)): rt.add(n.name)
    only = tc-rt
    if not only: continue
    # walk functions
    def ann_nodes(fn):
        s=set()
        for a in fn.args.args+fn.args.kwonlyargs+fn.args.posonlyargs+([fn.args.vararg] if fn.args.vararg else [])+([fn.args.kwarg] if fn.args.kwarg else []):
            if a.annotation: s.update(id(x) for x in ast.walk(a.annotation))
        if fn.returns: s.update(id(x) for x in ast.walk(fn.returns))
        for n in ast.walk(fn):
            if isinstance(n,ast.AnnAssign): s.update(id(x) for x in ast.walk(n.annotation))
        return s
    def visit(node, stack):
        for ch in ast.iter_child_nodes(node):
            if isinstance(ch,ast.ClassDef): visit(ch, stack+[ch.name])
            elif isinstance(ch,(ast.FunctionDef,ast.AsyncFunctionDef)):
                local=set()
                for m in ast.walk(ch):
                    if isinstance(m,(ast.Import,ast.ImportFrom)):
                        for a in m.names: local.add((a.asname or a.name).split('.')[0])
                anns=ann_nodes(ch)
                for m in ast.walk(ch):
                    if isinstance(m,ast.Name) and isinstance(m.ctx,ast.Load) and m.id in only and m.id not in local and id(m) not in anns:
                        print(f"{p.relative_to(root)}:{m.lineno} {'.'.join(stack+[ch.name])} uses {m.id} (TYPE_CHECKING-only) future_annotations={future}")
                visit(ch, stack+[ch.name])
    visit(t, [])
