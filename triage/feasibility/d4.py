import ast, pathlib
root = pathlib.Path('/repo/photon_weave')
n_in=0
for p in sorted(root.rglob('*.py')):
    t=ast.parse(p.read_text())
    stack=[]
    def walk(node, st):
        global n_in
        for ch in ast.iter_child_nodes(node):
            s2 = st+[ch.name] if isinstance(ch,(ast.ClassDef,ast.FunctionDef)) else st
            if isinstance(ch,ast.Compare) and any(isinstance(o,(ast.In,ast.NotIn)) for o in ch.ops):
                print(f"{p.relative_to(root)}:{ch.lineno} {'.'.join(s2)} :: {ast.unparse(ch)}"); n_in+=1
            if isinstance(ch,ast.Compare) and any(isinstance(o,(ast.Eq,ast.NotEq)) for o in ch.ops):
                u=ast.unparse(ch)
                if any(k in u for k in ['envelope','state_obj','fock','polarization']) and 'expansion_level' not in u and '.index' not in u and 'shape' not in u:
                    print(f"{p.relative_to(root)}:{ch.lineno} {'.'.join(s2)} :: EQ {u}")
            if isinstance(ch,ast.Call) and isinstance(ch.func,ast.Attribute) and ch.func.attr in ('index','remove','count'):
                print(f"{p.relative_to(root)}:{ch.lineno} {'.'.join(s2)} :: CALL {ast.unparse(ch)}")
            walk(ch, s2)
    walk(t, [])
print(n_in)
