import ast, pathlib
root = pathlib.Path('/repo/photon_weave')
for p in sorted(root.rglob('*.py')):
    t=ast.parse(p.read_text())
    def walk(node, st):
        for ch in ast.iter_child_nodes(node):
            s2 = st+[ch.name] if isinstance(ch,(ast.ClassDef,ast.FunctionDef)) else st
            if isinstance(ch,ast.Call):
                f=ast.unparse(ch.func)
                if f.endswith('einsum') and 'compute' not in f:
                    a0=ch.args[0]
                    kind = 'LIT '+a0.value if isinstance(a0,ast.Constant) else 'VAR '+ast.unparse(a0)
                    print(f"{p.relative_to(root)}:{ch.lineno} {'.'.join(s2)} :: {kind} | {[ast.unparse(a) for a in ch.args[1:]]}")
                if f.startswith('ESC.'):
                    print(f"{p.relative_to(root)}:{ch.lineno} {'.'.join(s2)} :: {ast.unparse(ch)}")
            walk(ch,s2)
    walk(t,[])
