import ast, pathlib, collections
root = pathlib.Path('/repo/photon_weave')
nm=nf=nc=ncall=nraise=nassert=nmatch=nwhile=ntry=0
for p in sorted(root.rglob('*.py')):
    t=ast.parse(p.read_text()); nm+=1
    for n in ast.walk(t):
        if isinstance(n,(ast.FunctionDef,ast.AsyncFunctionDef)): nf+=1
        elif isinstance(n,ast.ClassDef): nc+=1
        elif isinstance(n,ast.Call): ncall+=1
        elif isinstance(n,ast.Raise): nraise+=1
        elif isinstance(n,ast.Assert): nassert+=1
        elif isinstance(n,ast.Match): nmatch+=1
        elif isinstance(n,ast.While): nwhile+=1
        elif isinstance(n,ast.Try): ntry+=1
print(dict(modules=nm,functions=nf,classes=nc,calls=ncall,raises=nraise,asserts=nassert,match=nmatch,whiles=nwhile,trys=ntry))
kinds=collections.Counter()
for p in sorted(root.rglob('*.py')):
    for n in ast.walk(ast.parse(p.read_text())):
        if isinstance(n,ast.stmt): kinds[type(n).__name__]+=1
print(kinds)
