import ast, pathlib
root = pathlib.Path('/repo/photon_weave')
FLAGS={'destructive','separate_measurement','partial'}
ACTIONS={'measure','measure_POVM','apply_kraus','apply_operation','trace_out','resize','resize_fock'}
sigs={}
mods={}
for p in sorted(root.rglob('*.py')):
    t=ast.parse(p.read_text()); mods[p]=t
    for c in [n for n in ast.walk(t) if isinstance(n,ast.ClassDef)]:
        for m in [n for n in c.body if isinstance(n,ast.FunctionDef)]:
            if m.name in ACTIONS:
                ps=[a.arg for a in m.args.args+m.args.kwonlyargs]
                sigs.setdefault(m.name,{})[c.name]=ps
for name,d in sigs.items():
    for c,ps in d.items(): print('SIG',name,c,[x for x in ps if x in FLAGS])
for p,t in mods.items():
    for c in [n for n in ast.walk(t) if isinstance(n,ast.ClassDef)]:
        for m in [n for n in c.body if isinstance(n,ast.FunctionDef)]:
            if m.name not in ACTIONS: continue
            gflags=[a.arg for a in m.args.args+m.args.kwonlyargs if a.arg in FLAGS]
            for n in ast.walk(m):
                if isinstance(n,ast.Call) and isinstance(n.func,ast.Attribute) and n.func.attr in ACTIONS:
                    kws={k.arg for k in n.keywords}
                    print(f"{p.relative_to(root)}:{n.lineno} {c.name}.{m.name}{gflags} -> {ast.unparse(n.func)}(kw={sorted(kws)}, npos={len(n.args)})")
