import ast, pathlib
root = pathlib.Path('/repo/photon_weave')
loc=0; members=0
for p in sorted(root.rglob('*.py')):
    t=ast.parse(p.read_text())
    for f in [n for n in ast.walk(t) if isinstance(n,ast.FunctionDef)]:
        for n in ast.walk(f):
            if isinstance(n,(ast.Import,ast.ImportFrom)): loc+=1
    for c in [n for n in ast.walk(t) if isinstance(n,ast.ClassDef)]:
        if any(ast.unparse(b)=='Enum' for b in c.bases) and 'OperationType' in c.name:
            m=[s for s in c.body if isinstance(s,(ast.Assign,ast.AnnAssign))]
            print(c.name,len(m)); members+=len(m)
print('function-local import statements',loc,'op members',members)
