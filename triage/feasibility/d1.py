import ast, sys, pathlib
root = pathlib.Path('/repo/photon_weave')
def qual(stack): return '.'.join(stack)
class V(ast.NodeVisitor):
    def __init__(s, mod): s.mod=mod; s.stack=[]; s.out=[]
    def visit_ClassDef(s,n): s.stack.append(n.name); s.generic_visit(n); s.stack.pop()
    def visit_FunctionDef(s,n): s.stack.append(n.name); s.generic_visit(n); s.stack.pop()
    def visit_Call(s,n):
        src = ast.unparse(n.func)
        if src.endswith('random.choice'):
            kw = {k.arg: ast.unparse(k.value) for k in n.keywords}
            args=[ast.unparse(a) for a in n.args]
            s.out.append((s.mod, qual(s.stack), n.lineno, args, kw))
        s.generic_visit(n)
tot=0
for p in sorted(root.rglob('*.py')):
    t=ast.parse(p.read_text()); v=V(str(p.relative_to(root))); v.visit(t)
    for o in v.out: print(o); tot+=1
print('total choice sites', tot)
