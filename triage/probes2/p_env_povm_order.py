"""Envelope.measure_POVM with both members given as (polarization, fock) on an envelope that is not yet combined."""
import jax, jax.numpy as jnp, numpy as np
from photon_weave.photon_weave import Config
from photon_weave.state.envelope import Envelope
from photon_weave.state.polarization import PolarizationLabel
C = Config(); C.set_contraction(False); C.set_seed(1)
seen = []
orig = jax.random.choice
def spy(key, a, p=None, **kw):
    seen.append(np.round(np.asarray(p), 4).tolist()); return orig(key, a, p=p, **kw)
jax.random.choice = spy
def run(combine_first):
    e = Envelope(); e.fock.dimensions = 3; e.fock.state = 2          # |2>|H>
    if combine_first:
        e.combine()
    # operators on pol (x) fock (dims 2 x 3): M0 projects on |H>|2>, M1 = rest
    P = np.zeros((6, 6)); P[0 * 3 + 2, 0 * 3 + 2] = 1
    ops = [jnp.array(P), jnp.array(np.eye(6) - P)]
    seen.clear()
    e.measure_POVM(ops, e.polarization, e.fock, destructive=False)
    return seen[-1]
print("combined first   p =", run(True), "(expected [1, 0])")
print("not combined yet p =", run(False), "(expected [1, 0])")
