from photon_weave.state.envelope import Envelope
from photon_weave.state.composite_envelope import CompositeEnvelope
e1,e2,e3=Envelope(),Envelope(),Envelope()
a1=CompositeEnvelope(e1); a2=CompositeEnvelope(e2)
a1.combine(e1.fock, e1.polarization)
a3=CompositeEnvelope(a1,a2)       # a1,a2,a3 share one container with one product space
b=CompositeEnvelope(e3); b.combine(e3.fock,e3.polarization)
m=CompositeEnvelope(b, a1, a2)    # two handles of one container behind another composite
print("product spaces", len(m.product_states), "distinct", len({id(p) for p in m.product_states}), "envelopes", len(m.envelopes), "distinct", len({id(e) for e in m.envelopes}))
assert len(m.product_states)==len({id(p) for p in m.product_states})==2
assert len(m.envelopes)==3
