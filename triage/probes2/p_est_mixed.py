import jax.numpy as jnp, numpy as np
from photon_weave.state.fock import Fock
from photon_weave.operation import Operation, FockOperationType
from photon_weave.photon_weave import Config
import scipy.linalg as sl
Config().set_contraction(False)
def refD(alpha, N=150):
    a=np.diag(np.sqrt(np.arange(1,N)),1)
    return sl.expm(alpha*a.conj().T-np.conj(alpha)*a)
for probs in [[1.0],[0.5,0.5],[0.25]*4,[1/8]*8]:
    d0=len(probs)
    f=Fock(); f.dimensions=d0
    f.state=jnp.diag(jnp.array(probs,dtype=complex)); 
    from photon_weave.state.expansion_levels import ExpansionLevel
    f.expansion_level=ExpansionLevel.Matrix
    op=Operation(FockOperationType.Displace, alpha=2.0)
    f.apply_operation(op)
    d=f.dimensions
    N=150; D=refD(2.0,N); rho=np.zeros((N,N),complex); 
    for i,p in enumerate(probs): rho[i,i]=p
    r=D@rho@D.conj().T
    lost=1-np.trace(r[:d,:d]).real
    print(probs[:2],"dims",d,"ideal mass beyond cutoff %.2e"%lost,"trace",np.trace(np.array(f.state)).real)
