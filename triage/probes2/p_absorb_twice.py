import numpy as np, jax.numpy as jnp
from photon_weave.state.envelope import Envelope
from photon_weave.state.composite_envelope import CompositeEnvelope
from photon_weave.state.polarization import PolarizationLabel
from photon_weave.state.expansion_levels import ExpansionLevel
ok=True
for level in ("vector","matrix"):
  for order in ("fp","pf"):
    e=Envelope(); e.fock.state=1; e.fock.dimensions=3; e.polarization.state=PolarizationLabel.R
    e.combine()
    if level=="matrix": e.expand()
    before=np.array(e.state)
    e2=Envelope(); ce=CompositeEnvelope(e,e2)
    args=(e.fock,e.polarization) if order=="fp" else (e.polarization,e.fock)
    try:
        ce.combine(*args)
    except AssertionError:
        print(level,order,"valid request rejected; envelope state afterwards:", None if e.state is None else "kept", "| product spaces", len(ce.product_states)); ok=False; continue
    ps=ce.product_states[0]
    # the joint state must be the envelope's state, members listed at their tensor positions
    want=before
    got=np.array(ps.state)
    names=[("fock" if s is e.fock else "pol") for s in ps.state_objs]
    print(level,order,"combined; members", names, "indices", e.fock.index, e.polarization.index, "state preserved", np.allclose(got,want))
    ok = ok and np.allclose(got,want) and e.fock.index==(0,names.index("fock")) and e.polarization.index==(0,names.index("pol"))
assert ok
