"""CompositeEnvelope.apply_kraus / measure_POVM / trace_out with one target inside a product space and one still free."""
import jax.numpy as jnp, numpy as np
from photon_weave.photon_weave import Config
from photon_weave.state.envelope import Envelope
from photon_weave.state.composite_envelope import CompositeEnvelope
from photon_weave.state.custom_state import CustomState
C = Config(); C.set_contraction(False); C.set_seed(2)
def world():
    a, b, c = CustomState(2), CustomState(2), CustomState(2)
    ce = CompositeEnvelope(a, b, c)
    ce.combine(a, b)            # a, b share a product space; c is still on its own
    return ce, a, b, c
I4 = jnp.eye(4)
for name, call in [
    ("apply_kraus", lambda ce, a, b, c: ce.apply_kraus([I4], a, c)),
    ("measure_POVM", lambda ce, a, b, c: ce.measure_POVM([I4], a, c, destructive=False)),
    ("trace_out", lambda ce, a, b, c: ce.trace_out(a, c)),
]:
    ce, a, b, c = world()
    try:
        r = call(ce, a, b, c)
        print(name, "ok ->", None if r is None else (np.asarray(r).shape if hasattr(r, "shape") else r))
    except Exception as ex:
        print(name, "raised", type(ex).__name__, str(ex)[:90])
