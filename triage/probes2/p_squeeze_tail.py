import sys
import jax.numpy as jnp, numpy as np
from scipy.linalg import expm
from photon_weave.photon_weave import Config
from photon_weave.state.fock import Fock
from photon_weave.state.envelope import Envelope
from photon_weave.operation import Operation, FockOperationType

def ref(nq, z, D=300):
    a=np.diag(np.sqrt(np.arange(1,D)),1); ad=a.T
    S=expm(0.5*(np.conj(z)*a@a - z*ad@ad))
    v=np.zeros(D, complex); v[nq]=1
    return S@v
worst=0
for contr in (True, False):
    Config().set_contraction(contr)
    for nq in (0, 1):
        for z in (0.7, 1.0, -0.9, 0.8j):
            f=Fock(); f.state=nq
            f.apply_operation(Operation(FockOperationType.Squeeze, zeta=z))
            st=np.asarray(f.state)
            if st.ndim==2 and st.shape[1]==1: v=st[:,0]
            else:
                w,V=np.linalg.eigh(st); v=V[:,-1]
            r=ref(nq,z)
            d=len(v)
            fid=abs(np.vdot(r[:d], v))**2
            worst=max(worst,1-fid)
            print(contr, nq, z, 'dim',d, '1-F=%.2e'%(1-fid))
print('worst', worst)
sys.exit(0 if worst<1e-3 else 1)
