"""Vector-level shrink guard inside a product space uses the amplitude-summed 'partial trace' of a ket."""
import jax.numpy as jnp, numpy as np
from photon_weave.photon_weave import Config
from photon_weave.state.envelope import Envelope
from photon_weave.state.composite_envelope import CompositeEnvelope
from photon_weave.state.custom_state import CustomState
C = Config(); C.set_contraction(False)
e = Envelope(); e.fock.dimensions = 3; e.fock.state = 1
c = CustomState(2)
ce = CompositeEnvelope(e, c)
e.fock.expand(); c.expand()
c.state = jnp.array([[1.0], [-1.0]]) / jnp.sqrt(2)
ce.combine(e.fock, c)
try:
    ok = e.fock.resize(1)       # level 1 is occupied: must be refused
    print("resize(1) ->", ok, "dimensions", e.fock.dimensions, "norm", float(jnp.linalg.norm(ce.states[0].state)))
except Exception as ex:
    print("resize(1) raised", type(ex).__name__, str(ex)[:80])
