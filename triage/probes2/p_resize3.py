"""ProductState.resize_fock at Matrix level with three members."""
import jax.numpy as jnp, numpy as np
from photon_weave.photon_weave import Config
from photon_weave.state.envelope import Envelope
from photon_weave.state.composite_envelope import CompositeEnvelope
from photon_weave.state.custom_state import CustomState
C = Config(); C.set_contraction(False)
e = Envelope(); e.fock.dimensions = 3
c1, c2 = CustomState(2), CustomState(2)
ce = CompositeEnvelope(e, c1, c2)
e.fock.state = 1
for s in (e.fock, c1, c2):
    s.expand(); s.expand()
H = jnp.array([[1, 1], [1, -1]]) / jnp.sqrt(2)
c1.state = H @ c1.state @ H.T          # |+>
ce.combine(c1, e.fock, c2)             # storage order c1, fock, c2
before = np.asarray(ce.states[0].state)
okk = e.fock.resize(5)
ps = ce.states[0]
after = np.asarray(ps.state)
print("resize ok:", okk, "order", [type(s).__name__ for s in ps.state_objs], "shape", after.shape, "trace", float(np.trace(after).real))
# reference: |1><1| padded to 5 (x) rest, in the new storage order
dims = [s.dimensions for s in ps.state_objs]
ref = {id(e.fock): np.diag([0, 1, 0, 0, 0]).astype(complex), id(c1): np.asarray(H @ jnp.diag(jnp.array([1.0, 0])) @ H.T), id(c2): np.diag([1.0, 0])}
R = np.array([[1.0]])
for s in ps.state_objs:
    R = np.kron(R, ref[id(s)])
print("matches reference:", np.allclose(after, R))
assert np.allclose(after, R)
# shrink back to 3 levels (|1> is the highest occupied level)
okk = e.fock.resize(3)
after = np.asarray(ce.states[0].state)
ref[id(e.fock)] = np.diag([0, 1, 0]).astype(complex)
R = np.array([[1.0]])
for s in ce.states[0].state_objs:
    R = np.kron(R, ref[id(s)])
print("shrink ok:", okk, "matches reference:", np.allclose(after, R))
assert okk and np.allclose(after, R)
