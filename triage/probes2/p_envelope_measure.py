"""Envelope.measure: Born form (Vector), survivors (separate measurement) and non-destructive full measurement."""
import jax, jax.numpy as jnp, numpy as np
from photon_weave.photon_weave import Config
from photon_weave.state.envelope import Envelope
from photon_weave.state.composite_envelope import CompositeEnvelope
from photon_weave.state.custom_state import CustomState
from photon_weave.state.expansion_levels import ExpansionLevel
C = Config(); C.set_contraction(False); C.set_seed(3)
seen = []
orig = jax.random.choice
def spy(key, a, p=None, **kw):
    seen.append(np.round(np.asarray(p), 4).tolist()); return orig(key, a, p=p, **kw)
jax.random.choice = spy

def bell(level):
    e = Envelope(); e.fock.dimensions = 2; e.combine()
    v = jnp.array([[1.0], [0.0], [0.0], [1.0]]) / jnp.sqrt(2)      # (|0,H> + |1,V>)/sqrt2
    e.state = v
    if level == "matrix":
        e.expand()
    return e

# 1. Born form at Vector level: |1>(|H>-|V>)/sqrt2
e = Envelope(); e.fock.dimensions = 2; e.combine()
e.state = jnp.array([[0.0], [0.0], [1.0], [-1.0]]) / jnp.sqrt(2)
seen.clear()
try:
    e.measure()
except Exception as ex:
    print("raised", type(ex).__name__)
print("1. Vector Born p(fock) =", seen[0] if seen else None, " (true [0, 1])")

# 2. separate measurement of the polarization, Vector: Fock survivor must be a unit vector
e = bell("vector"); out = e.measure(e.polarization, separate_measurement=True)
st = e.fock.state
print("2. Vector survivor fock =", None if st is None else np.round(np.asarray(st).ravel(), 3).tolist(), "norm", None if st is None or isinstance(st, int) else float(jnp.linalg.norm(st)), "outcome", out[e.polarization], "level", e.fock.expansion_level)

# 3. same at Matrix level: survivor must be |outcome><outcome|
e = bell("matrix"); out = e.measure(e.polarization, separate_measurement=True)
st = e.fock.state
print("3. Matrix survivor fock =", None if st is None or isinstance(st, int) else np.round(np.asarray(st).real, 3).tolist(), "outcome", out[e.polarization])

# 4. non-destructive full measurement: both members must be left in the basis state of their outcome
for lvl in ("vector", "matrix"):
    e = bell(lvl); out = e.measure(destructive=False)
    print(f"4. {lvl} non-destructive: outcomes", {type(k).__name__: v for k, v in out.items()}, "fock.state", e.fock.state if isinstance(e.fock.state, int) else np.round(np.asarray(e.fock.state).real, 3).tolist(),
          "pol.state", e.polarization.state if not hasattr(e.polarization.state, 'shape') else np.round(np.asarray(e.polarization.state).real, 3).tolist())

# 5. ProductState.trace_out on a ket: (|0>)(|0>-|1>)/sqrt2, reduced state of the first
a, b = CustomState(2), CustomState(2); ce = CompositeEnvelope(a, b); a.expand(); b.expand()
b.state = jnp.array([[1.0], [-1.0]]) / jnp.sqrt(2); ce.combine(a, b)
print("5. trace_out(a) on a ket product state =", np.round(np.asarray(ce.trace_out(a)).ravel(), 3).tolist(), "(a is |0>)")
