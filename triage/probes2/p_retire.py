"""CompositeEnvelope.measure(fock, separate_measurement=True): the envelope of the unmeasured polarization is retired."""
from photon_weave.photon_weave import Config
from photon_weave.state.envelope import Envelope
from photon_weave.state.composite_envelope import CompositeEnvelope
Config().set_seed(1)
e1, e2 = Envelope(), Envelope()
ce = CompositeEnvelope(e1, e2)
ce.combine(e1.fock, e2.fock)
out = ce.measure(e1.fock, separate_measurement=True)
print("outcomes", {type(k).__name__: v for k, v in out.items()}, "| e1.measured =", e1.measured, "| e1.polarization.measured =", e1.polarization.measured)
try:
    e1.measure()
    print("e1.measure() works")
except Exception as ex:
    print("e1.measure() ->", type(ex).__name__, ex)
