"""own-state POVM probabilities: M0 = diag(1, sqrt .2), M1 = diag(0, sqrt .8) on |V> / custom |1>."""
import jax, jax.numpy as jnp, numpy as np
from photon_weave.photon_weave import Config
from photon_weave.state.custom_state import CustomState
from photon_weave.state.polarization import Polarization, PolarizationLabel
C = Config(); C.set_contraction(False)
ops = [jnp.array([[1, 0], [0, np.sqrt(.2)]]), jnp.array([[0, 0], [0, np.sqrt(.8)]])]
seen = {}
orig = jax.random.choice
def spy(key, a, p=None, **kw):
    seen['p'] = np.round(np.asarray(p), 4).tolist(); return orig(key, a, p=p, **kw)
jax.random.choice = spy
c = CustomState(2); c.state = 1
c.measure_POVM(ops); print("CustomState p =", seen['p'], "(Tr(M rho M^dag) = [0.2, 0.8])")
pol = Polarization(PolarizationLabel.V)
pol.measure_POVM(ops, destructive=False); print("Polarization p =", seen['p'], "(Tr(M rho M^dag) = [0.2, 0.8])")
