import numpy as np, traceback
from photon_weave.state.envelope import Envelope
from photon_weave.state.composite_envelope import CompositeEnvelope
from photon_weave.state.polarization import PolarizationLabel
from photon_weave.operation import Operation, FockOperationType, PolarizationOperationType
def run(name, f):
    try:
        f(); print(name, "ok")
        return True
    except Exception as ex:
        print(name, "raised", type(ex).__name__, str(ex)[:60]); return False
res=[]
for lvl in ("vector","matrix"):
    def mk():
        e=Envelope(); e.fock.state=1; e.fock.dimensions=5; e.polarization.state=PolarizationLabel.R
        e.combine()
        if lvl=="matrix": e.expand()
        e2=Envelope(); ce=CompositeEnvelope(e,e2)
        return e,ce
    e,ce=mk(); res.append(run(lvl+" fock.apply_operation(Creation)", lambda: e.fock.apply_operation(Operation(FockOperationType.Creation))))
    e,ce=mk(); res.append(run(lvl+" pol.apply_operation(X)", lambda: e.polarization.apply_operation(Operation(PolarizationOperationType.X))))
    e,ce=mk(); res.append(run(lvl+" env.trace_out(fock)", lambda: e.trace_out(e.fock)))
    e,ce=mk(); res.append(run(lvl+" ce.trace_out(fock)", lambda: ce.trace_out(e.fock)))
    e,ce=mk(); res.append(run(lvl+" fock.resize(3)", lambda: e.fock.resize(3)))
    e,ce=mk(); res.append(run(lvl+" fock.resize(7)", lambda: e.fock.resize(7)))
    e,ce=mk(); res.append(run(lvl+" env.measure()", lambda: e.measure()))
    e,ce=mk(); res.append(run(lvl+" fock.measure()", lambda: e.fock.measure()))
assert all(res)
