import jax.numpy as jnp, numpy as np
from photon_weave.state.fock import Fock
from photon_weave.operation import Operation, FockOperationType
from photon_weave.photon_weave import Config
import scipy.linalg as sl
from math import factorial
Config().set_contraction(False)
def ref(alpha, n0, N=120):
    a=np.diag(np.sqrt(np.arange(1,N)),1)
    D=sl.expm(alpha*a.conj().T-np.conj(alpha)*a)
    v=np.zeros(N,complex); v[n0]=1
    return D@v
for alpha in [2.0,-2.0,2j,-2j,1.5-1.5j, 3.0, -3.0, -2.5]:
    for n0 in [0,1,3]:
        f=Fock(); f.state=n0
        op=Operation(FockOperationType.Displace, alpha=alpha)
        f.apply_operation(op)
        d=f.dimensions
        st=np.array(f.state).ravel()
        r=ref(alpha,n0)
        err=np.linalg.norm(st-r[:d]) 
        lost=1-np.sum(np.abs(r[:d])**2)
        print(alpha,n0,"dims",d,"err %.2e"%err,"ideal mass beyond cutoff %.2e"%lost, "norm",np.linalg.norm(st))
