"""ProductState.measure at Vector level: |0>(|0>-|1>)/sqrt2 on two custom states."""
import jax.numpy as jnp, numpy as np
from photon_weave.photon_weave import Config
from photon_weave.state.composite_envelope import CompositeEnvelope
from photon_weave.state.custom_state import CustomState
C = Config(); C.set_contraction(False); C.set_seed(1)
a, b = CustomState(2), CustomState(2)
ce = CompositeEnvelope(a, b)
a.expand(); b.expand()
b.state = jnp.array([[1.0], [-1.0]]) / jnp.sqrt(2)
ce.combine(a, b)
try:
    out = ce.measure(a)
    print("outcome", out[a])
except Exception as e:
    print("measure raised", type(e).__name__, str(e)[:100])
