"""Merging two composite envelopes that both already hold product spaces."""
import jax.numpy as jnp
from photon_weave.photon_weave import Config
from photon_weave.state.envelope import Envelope
from photon_weave.state.composite_envelope import CompositeEnvelope
Config().set_contraction(False)
e1, e2, e3, e4 = Envelope(), Envelope(), Envelope(), Envelope()
ce1 = CompositeEnvelope(e1, e2); ce1.combine(e1.fock, e2.fock)
ce2 = CompositeEnvelope(e3, e4); ce2.combine(e3.fock, e4.fock)
ce = CompositeEnvelope(ce1, ce2)
ok = True
for pos, ps in enumerate(ce.states):
    for slot, so in enumerate(ps.state_objs):
        good = so.index == (pos, slot)
        cont = ps.container is ce.container
        print("space", pos, "slot", slot, "index", so.index, "index ok:", good, "| space points at merged container:", cont)
        ok = ok and good and cont
assert ok, "stale index / container after merging"
