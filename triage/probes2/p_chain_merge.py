from photon_weave.state.envelope import Envelope
from photon_weave.state.composite_envelope import CompositeEnvelope
e1,e2,e3=Envelope(),Envelope(),Envelope()
ce1=CompositeEnvelope(e1); ce2=CompositeEnvelope(e2)
ce1.combine(e1.fock, e1.polarization)
ce3=CompositeEnvelope(ce1, ce2)
other=CompositeEnvelope(e3)
ce4=CompositeEnvelope(other, ce3)
for nm,h in [("ce1",ce1),("ce2",ce2),("ce3",ce3),("other",other),("ce4",ce4)]:
    print(nm, "envelopes", len(h.envelopes), "state_objs", len(h.state_objs), "product states", len(h.product_states), "same container as ce4:", h.container is ce4.container)
bad=[nm for nm,h in [("ce1",ce1),("ce2",ce2),("ce3",ce3),("other",other)] if h.container is not ce4.container]
print("stale handles:", bad)
# continue through a stale handle
ce1.combine(e1.fock, e2.fock)
print("after ce1.combine(e1.fock,e2.fock): e2.fock.index", e2.fock.index, "ce4 product states", len(ce4.product_states), "ce1 product states", len(ce1.product_states))
assert not bad
