"""trace_out_matrix with two traced-out members; measure_matrix with coherent bystander; vector Born marginal."""
import jax.numpy as jnp, numpy as np
from photon_weave.photon_weave import Config
from photon_weave.state.envelope import Envelope
from photon_weave.state.composite_envelope import CompositeEnvelope
from photon_weave.state.custom_state import CustomState
from photon_weave.state.expansion_levels import ExpansionLevel
from photon_weave.operation import Operation, PolarizationOperationType
import photon_weave.extra.einsum_constructor as ESC

Config().set_contraction(False)
# ---- 1. partial trace with two bystanders
c1, c2, c3 = CustomState(2), CustomState(2), CustomState(3)
ce = CompositeEnvelope(c1, c2, c3)
for c in (c1, c2, c3):
    c.expand(); c.expand()
# put c1 in |+>, c2 in |+>, c3 in |0>
H = jnp.array([[1, 1], [1, -1]]) / jnp.sqrt(2)
c1.state = H @ c1.state @ H.T
c2.state = H @ c2.state @ H.T
ce.combine(c1, c2, c3)
try:
    red = ce.trace_out(c3)
    print("trace_out(c3) =", np.round(np.asarray(red).real, 3).tolist(), "trace", float(jnp.trace(red).real))
except Exception as e:
    print("trace_out(c3) raised", type(e).__name__, str(e)[:80])
print("einsum string for 3 members keep last:", ESC.trace_out_matrix([c1, c2, c3], [c3]))
# ---- 2. measure_matrix with a coherent bystander: (|00>+|01>)/sqrt2 -> first qubit is |0> with certainty
print("measure_matrix string:", ESC.measure_matrix([c1, c2], [c1]))
rho = np.zeros((4, 4)); v = np.array([1, 1, 0, 0]) / np.sqrt(2); rho = np.outer(v, v)
t = jnp.einsum(ESC.measure_matrix([c1, c2], [c1]), jnp.array(rho).reshape(2, 2, 2, 2))
p = jnp.abs(jnp.diag(t)); print("P(first qubit) from measure_matrix:", (p / p.sum()).tolist(), "(true: [1, 0])")
v = np.array([1, -1, 0, 0]) / np.sqrt(2); rho = np.outer(v, v)
t = jnp.einsum(ESC.measure_matrix([c1, c2], [c1]), jnp.array(rho).reshape(2, 2, 2, 2))
p = jnp.abs(jnp.diag(t)); print("P(first qubit), bystander |->:", np.asarray(p).tolist(), "(true: [1, 0]; all-zero -> NaN after normalisation)")
