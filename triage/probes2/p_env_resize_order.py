"""Envelope.resize_fock (shrink) when the envelope is stored in (polarization, fock) order."""
import jax.numpy as jnp, numpy as np
from photon_weave.photon_weave import Config
from photon_weave.state.envelope import Envelope
C = Config(); C.set_contraction(False)
for level in ("vector", "matrix"):
    e = Envelope(); e.fock.dimensions = 4; e.fock.state = 1
    e.combine()
    if level == "matrix":
        e.expand()
    e.reorder(e.polarization, e.fock)            # storage order (polarization, fock)
    ok = e.fock.resize(2)                         # |1> fits into 2 levels
    shape = np.asarray(e.state).shape
    want = (4, 1) if level == "vector" else (4, 4)
    print(level, "resize ->", ok, "fock.dimensions", e.fock.dimensions, "stored shape", shape, "expected", want,
          "indices", e.fock.index, e.polarization.index)
    assert ok and shape == want, "reported dimension and stored array disagree"
