import jax.numpy as jnp, numpy as np, traceback
from photon_weave.photon_weave import Config
from photon_weave.state.envelope import Envelope
from photon_weave.state.composite_envelope import CompositeEnvelope
from photon_weave.state.fock import Fock
from photon_weave.state.polarization import Polarization, PolarizationLabel
from photon_weave.state.custom_state import CustomState
from photon_weave.state.expansion_levels import ExpansionLevel
from photon_weave.operation import Operation, FockOperationType, PolarizationOperationType, CompositeOperationType, CustomStateOperationType
from photon_weave.extra import interpreter
C=Config(); C.set_contraction(False)
def t(label, f):
    try:
        r=f(); print(f"[{label}] ->", r)
    except Exception as e:
        print(f"[{label}] EXC {type(e).__name__}: {str(e)[:100]}")
# 1
def p1():
    f=Fock(); f.state=1; r=f.resize(5); return r, f.dimensions
t('1 label resize returns', p1)
# 2
def p2():
    f=Fock(); f.state=3; f.dimensions=5; f.expand(); f.expand(); r=f.resize(2); return r, f.dimensions, f.state
t('2 matrix shrink below population', p2)
# 3
def p3():
    f=Fock(); f.state=3; f.dimensions=5; f.expand(); r=f.resize(3); return r, f.dimensions, f.state.T
t('3 vector shrink off by one (n=3 -> dims 3)', p3)
# 4
def p4():
    f=Fock(); f.expand()
    try: f.apply_operation(Operation(FockOperationType.Annihilation))
    except ValueError as e: pass
    return f.state.T, f.dimensions
t('4 annihilate vacuum leaves', p4)
# 5
def p5():
    f=Fock(); f.dimensions=4; f.expand(); f.expand(); f.state=jnp.diag(jnp.array([0,0.5,0.5,0])).astype(complex)
    f.apply_operation(Operation(FockOperationType.Creation)); return jnp.trace(f.state)
t('5 mixed renorm trace', p5)
# 6
def p6():
    c=CustomState(2); c.expand(); c.state=jnp.array([[1],[1j]])/jnp.sqrt(2); c.expand(); return c.state
t('6 custom expand conj', p6)
# 7
def p7():
    C.set_contraction(True)
    p=Polarization(); p.apply_operation(Operation(PolarizationOperationType.RX, theta=0.3)); C.set_contraction(False); return p.expansion_level, type(p.state)
t('7 polarization tag', p7)
