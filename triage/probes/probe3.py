import jax, jax.numpy as jnp, numpy as np
import os; exec(open(os.path.join(os.path.dirname(os.path.abspath(__file__)), 'probe1.py')).read().split('# 1\n')[0])
I2=jnp.eye(2); X=jnp.array([[0,1],[1,0]])
K=[jnp.sqrt(0.5)*I2, jnp.sqrt(0.5)*X]   # bit flip p=.5
# 15 composite vector-level kraus
def p15():
    e1=Envelope(); e2=Envelope(); ce=CompositeEnvelope(e1,e2); ce.combine(e1.polarization,e2.polarization)
    ce.apply_kraus(K, e1.polarization)
    ps=ce.states[0]; return ps.expansion_level, ps.state.T.round(3)
t('15 composite kraus on vector (expect matrix diag(.5,0,.5,0))', p15)
# 16 custom state kraus in composite
def p16():
    c1=CustomState(2); c2=CustomState(2); ce=CompositeEnvelope(c1,c2); ce.combine(c1,c2)
    c1.apply_kraus(K); return c1.state, c1.index
t('16 custom kraus in composite', p16)
# 17 Fock.apply_kraus in envelope
def p17():
    e=Envelope(); e.combine(); e.polarization.apply_kraus(K); return e.polarization.state, e.polarization.index
t('17 pol.apply_kraus in envelope', p17)
# 18 self merge
def p18():
    e1=Envelope(); e2=Envelope(); ce1=CompositeEnvelope(e1,e2); ce1.combine(e1.polarization,e2.polarization)
    ce2=CompositeEnvelope(ce1, e1)   # ce1 passed and e1.composite_envelope is a handle of same container?
    n1=len(ce2.states)
    ce3=CompositeEnvelope(e1); ce4=CompositeEnvelope(ce3, ce2)
    return n1, len(ce4.states), len(ce4.envelopes)
t('18 self merge (expect 1,1,2)', p18)
# 19 non destructive pol state after separate fock measure in envelope vector
def p19():
    e=Envelope(); e.combine()
    out=e.measure(e.polarization, separate_measurement=True, destructive=False)
    return e.polarization.state, e.polarization.expansion_level, e.fock.state.T
t('19 .at discarded', p19)
# 20 resize in 3-member matrix product
def p20():
    es=[Envelope() for _ in range(3)]; ce=CompositeEnvelope(*es)
    es[0].fock.state=1
    ce.combine(es[0].fock, es[1].polarization, es[2].polarization)
    es[1].polarization  # H
    ce.expand(es[0].fock)
    before=ce.trace_out(es[0].fock)
    d0=es[0].fock.dimensions
    r=es[0].fock.resize(d0+2)
    after=ce.trace_out(es[0].fock)
    st=ce.states[0].state
    return r, jnp.diag(before).real, jnp.diag(after).real, jnp.allclose(st, st.conj().T), jnp.trace(st)
t('20 resize 3-member matrix', p20)
def p20b():
    es=[Envelope() for _ in range(3)]; ce=CompositeEnvelope(*es)
    es[0].fock.state=1
    for e,v in ((es[1],[0.6,0.8]),(es[2],[1/np.sqrt(2),-1j/np.sqrt(2)])):
        e.polarization.expand(); e.polarization.state=jnp.array(v).reshape(2,1)
    ce.combine(es[0].fock, es[1].polarization, es[2].polarization)
    ce.expand(es[0].fock)
    ref=ce.states[0].state
    d0=es[0].fock.dimensions
    r=es[0].fock.resize(d0+1)
    st=ce.states[0].state
    # reference: pad fock axis
    n=d0; R=ref.reshape(n,2,2,n,2,2); R=jnp.pad(R,[(0,1),(0,0),(0,0),(0,1),(0,0),(0,0)]).reshape((n+1)*4,(n+1)*4)
    return r, st.shape, bool(jnp.allclose(st,R))
t('20b resize 3-member matrix equals padded ref', p20b)
# 21 POVM formula
def p21():
    import jax.random as jr
    cap=[]; o=jr.choice
    def spy(key,a,shape=(),replace=True,p=None,axis=0): cap.append(np.array(p)); return o(key,a,shape,replace,p,axis)
    jax.random.choice=spy
    M0=jnp.array([[1,0],[0,jnp.sqrt(0.5)]]); M1=jnp.array([[0,0],[0,jnp.sqrt(0.5)]])
    p=Polarization(PolarizationLabel.V); p.measure_POVM([M0,M1], destructive=False)
    jax.random.choice=o
    return cap
t('21 POVM probs own-state (expect [.5,.5])', p21)
# 22 partner confusion
def p22():
    e1=Envelope(); e2=Envelope(); ce=CompositeEnvelope(e1,e2)
    out=ce.measure(e1.fock, e2.polarization)
    return len(out), e2.fock.measured
t('22 partner confusion (expect 4, True)', p22)
# 23 custom state in product measured
def p23():
    c1=CustomState(2); c2=CustomState(2); ce=CompositeEnvelope(c1,c2); ce.combine(c1,c2)
    out=c1.measure(); return c1.state, c1.index, c1.expansion_level, [id(s) for s in ce.states[0].state_objs]==[id(c2)] if ce.states else None
t('23 custom measured in product', p23)
