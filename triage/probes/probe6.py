import jax, jax.numpy as jnp, numpy as np
import os; exec(open(os.path.join(os.path.dirname(os.path.abspath(__file__)), 'probe1.py')).read().split('# 1\n')[0])
def a():
    e=Envelope(); e.combine(); out=e.fock.measure(); return out, e.measured, e.fock.measured, e.polarization.measured
t('a fock.measure in combined envelope', a)
def a2():
    e=Envelope(); e.combine(); out=e.measure(e.fock); return out, e.measured
t('a2 env.measure(env.fock) combined', a2)
def b():
    e=Envelope(); e.combine(); K=[jnp.sqrt(0.5)*jnp.eye(2), jnp.sqrt(0.5)*jnp.array([[0,1],[1,0]])]
    e.polarization.apply_kraus(K); return jnp.diag(e.state).real, e.expansion_level
t('b pol.apply_kraus in envelope (expect diag .5 .5 0 0 ...)', b)
def c():
    e=Envelope(); e.combine(); e.fock.expand(); return e.expansion_level, e.state.shape
t('c fock.expand in envelope', c)
def d():
    e=Envelope(); e.combine(); e.polarization.expand(); e.polarization.contract(); return e.expansion_level
t('d pol expand/contract in envelope', d)
def f():
    e1=Envelope(); e2=Envelope(); ce=CompositeEnvelope(e1,e2); ce.combine(e1.polarization,e2.polarization)
    r=e1.polarization.measure_POVM([jnp.array([[1,0],[0,0]]),jnp.array([[0,0],[0,1]])], destructive=False)
    return r, e1.polarization.measured, e1.fock.measured
t('f pol.measure_POVM in ce nondestructive', f)
def g():
    e1=Envelope(); e2=Envelope(); ce=CompositeEnvelope(e1,e2); ce.combine(e1.polarization,e2.polarization)
    return e1.trace_out(e1.polarization).T
t('g env.trace_out in ce', g)
def h():
    e1=Envelope(); e2=Envelope(); ce=CompositeEnvelope(e1,e2); ce.combine(e1.fock,e2.fock)
    out=e1.fock.measure(separate_measurement=True, destructive=False); return e1.fock.measured, e1.fock.state, e1.polarization.measured, e1.measured
t('h fock.measure(sep, nondestr) in ce', h)
