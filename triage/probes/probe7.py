import os; exec(open('/verif/triage/probes/probe1.py').read().split('# 1\n')[0])
def p27():
    C.set_contraction(True)
    e=Envelope(); e.fock.dimensions=2; e.fock.expand(); e.polarization.expand(); e.combine()
    e.state=jnp.array([[1],[0],[0],[1]])/jnp.sqrt(2)   # (|0,H>+|1,V>)/sqrt2, fock index 0
    out=e.measure(e.polarization, separate_measurement=True, destructive=True)
    return out[e.polarization], e.fock.state if isinstance(e.fock.state,int) else e.fock.state.T, e.fock.expansion_level
t('27 separate pol measurement of entangled envelope: fock post state (expect unit norm / label)', p27)
def p28():
    e=Envelope(); e.fock.dimensions=2; e.fock.expand(); e.polarization.expand(); e.combine(); e.expand()
    psi=jnp.array([[1],[0],[0],[1]])/jnp.sqrt(2); e.state=psi@psi.T
    out=e.measure(e.polarization, separate_measurement=True, destructive=True)
    return out[e.polarization], e.fock.state if isinstance(e.fock.state,int) else jnp.diag(e.fock.state), e.fock.expansion_level
t('28 same at matrix level', p28)
