import os; exec(open('/verif/triage/probes/probe1.py').read().split('# 1\n')[0])
import numpy as np
def dm(x):
    x=jnp.asarray(x); return x@x.conj().T if x.shape[1]==1 else x
P0=jnp.array([[1,0],[0,0]]); P1=jnp.array([[0,0],[0,1]])
# POVM partial on envelope member, bystander entangled
def a():
    e=Envelope(); e.fock.dimensions=2; e.fock.expand(); e.polarization.expand(); e.combine()
    e.state=jnp.array([[1],[0],[0],[1]])/jnp.sqrt(2)
    r=e.measure_POVM([P0,P1], e.polarization, destructive=True)
    return r, e.fock.state, e.fock.expansion_level, e.polarization.measured, e.measured
t('a env POVM partial destructive on entangled', a)
def b():
    e1=Envelope(); e2=Envelope(); ce=CompositeEnvelope(e1,e2)
    for e in (e1,e2): e.polarization.expand()
    ce.combine(e1.polarization,e2.polarization)
    ce.states[0].state=jnp.array([[1],[0],[0],[1]])/jnp.sqrt(2)
    r=ce.measure_POVM([P0,P1], e1.polarization, destructive=False)
    ps=ce.states[0]
    return r, ps.expansion_level, ps.state.T if ps.state.shape[1]==1 else jnp.diag(ps.state), [type(s).__name__ for s in ps.state_objs]
t('b ce POVM partial nondestructive on Bell pair', b)
def c():
    e1=Envelope(); e2=Envelope(); ce=CompositeEnvelope(e1,e2)
    for e in (e1,e2): e.polarization.expand()
    ce.combine(e1.polarization,e2.polarization)
    ce.states[0].state=jnp.array([[1],[0],[0],[1]])/jnp.sqrt(2)
    r=ce.measure_POVM([P0,P1], e1.polarization, destructive=True)
    return r, e1.polarization.measured, e1.fock.measured, e1.measured, e2.polarization.index, len(ce.states), (ce.states[0].state.T if ce.states else None)
t('c ce POVM partial destructive on Bell pair', c)
def d():
    e1=Envelope(); e2=Envelope(); ce=CompositeEnvelope(e1,e2)
    op=Operation(CompositeOperationType.CXPolarization)
    e1.polarization.state=PolarizationLabel.V
    ce.apply_operation(op, e2.polarization, e1.polarization)   # control e2 (H) -> nothing happens
    ps=ce.states[0]
    return [('e1' if s is e1.polarization else 'e2') for s in ps.state_objs], ps.state.T
t('d CNOT operand order (control=e2=H, target=e1=V): expect state |e2=H,e1=V> unchanged', d)
