import jax, jax.numpy as jnp, numpy as np
import os; exec(open(os.path.join(os.path.dirname(os.path.abspath(__file__)), 'probe1.py')).read().split('# 1\n')[0])
def p26():
    # envelope with fock dims 2 in |1>, pol H; full POVM with single unitary op U = I (x) A where A non-symmetric
    e=Envelope(); e.fock.state=1; e.fock.dimensions=2
    A=jnp.array([[0,1],[0,0]])      # |H><V|  maps V->H ; A^T maps H->V
    B=jnp.array([[0,0],[1,0]])
    # ops: M0 = I(x)A ... need completeness: M0^†M0 + M1^†M1 = I : A†A=|V><V|, B†B=|H><H|
    M0=jnp.kron(jnp.eye(2),A); M1=jnp.kron(jnp.eye(2),B)
    import jax.random as jr
    cap=[]; o=jr.choice
    def spy(key,a,shape=(),replace=True,p=None,axis=0): cap.append(np.array(p)); return o(key,a,shape,replace,p,axis)
    jax.random.choice=spy
    out=e.measure_POVM([M0,M1], e.fock, e.polarization, destructive=False)
    jax.random.choice=o
    # truth: state |1,H>: M0|1,H> = 0, M1|1,H> = |1,V>  -> p=[0,1], post = |1,V>
    return cap, out, jnp.diag(e.state).real
t('26 envelope full POVM non-symmetric op (expect p=[0,1], post diag [0,0,0,1])', p26)
