import jax, jax.numpy as jnp, numpy as np
import os; exec(open(os.path.join(os.path.dirname(os.path.abspath(__file__)), 'probe1.py')).read().split('# 1\n')[0])
import jax.random as jr
captured=[]
_orig=jr.choice
def spy(key, a, shape=(), replace=True, p=None, axis=0):
    captured.append(np.array(p)); return _orig(key,a,shape,replace,p,axis)
jax.random.choice=spy
# 8 envelope vector measure |1>(|H>-|V>)/sqrt2
def p8():
    captured.clear()
    e=Envelope(); e.fock.state=1; e.fock.dimensions=3; e.fock.expand(); e.polarization.expand(); e.polarization.state=jnp.array([[1],[-1]])/jnp.sqrt(2)
    e.combine(); out=e.measure(); return [c.round(3) for c in captured], out
t('8 env vector born', p8)
# 9 product state measure: two pols, pol1 = H, pol2=(H-V)/sqrt2, measure pol1 in combined
def p9():
    captured.clear()
    e1=Envelope(); e2=Envelope(); ce=CompositeEnvelope(e1,e2)
    e2.polarization.expand(); e2.polarization.state=jnp.array([[1],[-1]])/jnp.sqrt(2)
    e1.polarization.expand(); e1.polarization.state=jnp.array([[0.6],[0.8]])
    ce.combine(e1.polarization,e2.polarization)
    out=ce.measure(e1.polarization, separate_measurement=True)
    return [c.round(3) for c in captured]
t('9 product vector born (expect [.36,.64])', p9)
def p9b():
    captured.clear()
    e1=Envelope(); e2=Envelope(); ce=CompositeEnvelope(e1,e2)
    e2.polarization.expand(); e2.polarization.state=jnp.array([[1],[-1]])/jnp.sqrt(2)
    e1.polarization.expand(); e1.polarization.state=jnp.array([[0.6],[0.8]])
    ce.combine(e1.polarization,e2.polarization); ce.expand(e1.polarization)
    out=ce.measure(e1.polarization, separate_measurement=True)
    return [c.round(3) for c in captured]
t('9b product matrix born (expect [.36,.64])', p9b)
# 10 trace_out_matrix 2 bystanders
def p10():
    e1=Envelope(); e2=Envelope(); e3=Envelope(); ce=CompositeEnvelope(e1,e2,e3)
    for e,v in ((e1,[0.6,0.8]),(e2,[1/np.sqrt(2),1/np.sqrt(2)]),(e3,[1/np.sqrt(2),-1/np.sqrt(2)])):
        e.polarization.expand(); e.polarization.state=jnp.array(v).reshape(2,1)
    ce.combine(e1.polarization,e2.polarization,e3.polarization); ce.expand(e1.polarization)
    return ce.trace_out(e1.polarization).round(3)
t('10 trace out 2 bystanders (expect [[.36,.48],[.48,.64]])', p10)
def p10b():
    e1=Envelope(); e2=Envelope(); ce=CompositeEnvelope(e1,e2)
    for e,v in ((e1,[0.6,0.8]),(e2,[1/np.sqrt(2),-1/np.sqrt(2)])):
        e.polarization.expand(); e.polarization.state=jnp.array(v).reshape(2,1)
    ce.combine(e1.polarization,e2.polarization)
    return ce.trace_out(e1.polarization).round(3).T
t('10b vector trace out (expect ~[.6,.8])', p10b)
# 11 stale index after measure
def p11():
    e1=Envelope(); e2=Envelope(); e3=Envelope(); e4=Envelope(); ce=CompositeEnvelope(e1,e2,e3,e4)
    ce.combine(e1.polarization,e2.polarization); ce.combine(e3.polarization,e4.polarization)
    ce.measure(e1.polarization,e2.polarization, separate_measurement=True)
    return e3.polarization.index, len(ce.states)
t('11 stale index (expect (0,0),1)', p11)
# 12 enum cross talk
def p12():
    ctx={'a': lambda d: jnp.eye(d[0]), 'b': lambda d: jnp.eye(d[1]), 'x': lambda d: jnp.eye(2)}
    op1=Operation(CompositeOperationType.Expression, expr=('kron','a','b'), state_types=(Fock,Fock), context=ctx)
    op2=Operation(CompositeOperationType.Expression, expr=('kron','x','x'), state_types=(Polarization,Polarization), context=ctx)
    e1=Envelope(); e2=Envelope(); ce=CompositeEnvelope(e1,e2)
    ce.apply_operation(op1, e1.fock, e2.fock); return 'ok'
t('12 expression cross talk', p12)
# 13 interpreter in place
def p13():
    A=np.eye(2); interpreter(('s_mult', A, 3), {}, [2]); return A
t('13 interpreter mutates', p13)
# 14 Fock.measure(destructive=False) in composite
def p14():
    e1=Envelope(); e2=Envelope(); ce=CompositeEnvelope(e1,e2); ce.combine(e1.fock,e2.fock)
    out=e1.fock.measure(separate_measurement=True, destructive=False); return e1.fock.measured, e1.polarization.measured, list(out.values())
t('14 flags dropped', p14)
