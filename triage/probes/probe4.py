import jax, jax.numpy as jnp, numpy as np
import os; exec(open(os.path.join(os.path.dirname(os.path.abspath(__file__)), 'probe1.py')).read().split('# 1\n')[0])
def p19():
    e=Envelope(); e.combine()
    out=e.measure(e.polarization, separate_measurement=True, destructive=False)
    return e.polarization.state, e.polarization.expansion_level, e.polarization.index, e.fock.state, e.measured
t('19 .at discarded', p19)
def p21():
    import jax.random as jr
    cap=[]; o=jr.choice
    def spy(key,a,shape=(),replace=True,p=None,axis=0): cap.append(np.array(p)); return o(key,a,shape,replace,p,axis)
    jax.random.choice=spy
    M0=jnp.diag(jnp.array([1,jnp.sqrt(0.2)])); M1=jnp.diag(jnp.array([0,jnp.sqrt(0.8)]))
    p=Polarization(PolarizationLabel.V); p.measure_POVM([M0,M1], destructive=False)
    c=CustomState(2); c.state=1; c.measure_POVM([M0,M1])
    e=Envelope(); e.polarization.state=PolarizationLabel.V; e.combine(); e.measure_POVM([M0,M1], e.polarization, destructive=False)
    jax.random.choice=o
    return cap
t('21 POVM probs own-state (expect [.2,.8])', p21)
# routing for resize / apply_op in envelope w/ mixed: check envelope.measure with destructive False all
def p24():
    e=Envelope(); out=e.measure(destructive=False); return e.fock.measured, e.polarization.measured, e.measured
t('24 Envelope.measure(destructive=False) uncombined', p24)
def p25():
    e=Envelope(); e.fock.measure_POVM([jnp.eye(3)], destructive=False); return e.fock.measured, e.polarization.measured
t('25 fock POVM non destructive uncombined envelope: partner destroyed?', p25)
