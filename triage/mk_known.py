"""Development helper (not invoked by any check): prints the current violations as candidate
known-finding entries so that they can be reviewed and pasted into known_findings.json by hand."""
import json, sys
sys.path.insert(0, '/verif')
from pwsa.model import Repo
from pwsa.rules import load_all, RULES
load_all()
r = Repo()
out = []
for name, f in RULES.items():
    for o in f(r):
        if o.status == 'violation':
            out.append({"properties": list(o.props), "rule": o.rule, "where": o.where, "key": o.key, "what": o.msg, "demo": "", "status": "known"})
print(json.dumps(out, indent=1))
