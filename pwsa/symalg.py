"""Exact symbolic normal forms for the straight-line operator constructors (DISPATCH-e, BALANCE).

A value is a polynomial  sum_k  c_k * sqrt2^e * prod(sym^p) * prod(trig^p) * exp(i*L) * word
with Gaussian-rational coefficients c_k, real parameter symbols, trig atoms cos(L)/sin(L) of
rational-linear forms L in the parameters, one exponential of an i*linear form (multiples of
pi are evaluated exactly when they are multiples of pi/4) and a non-commutative word of
ladder-operator letters.  The source expression and the textbook specification are both
folded into this normal form and compared for equality: no floating point is involved and
nothing of the target is executed.
"""
from __future__ import annotations

import ast
from fractions import Fraction
from typing import Dict, List, Optional, Tuple, Union

from .model import call_np, dotted, np_name, src


class Unfoldable(Exception):
    pass


G = Tuple[Fraction, Fraction]     # Gaussian rational


def g_mul(a: G, b: G) -> G:
    return (a[0] * b[0] - a[1] * b[1], a[0] * b[1] + a[1] * b[0])


def g_add(a: G, b: G) -> G:
    return (a[0] + b[0], a[1] + b[1])


Form = Tuple[Tuple[str, Fraction], ...]      # sorted linear form in symbols (incl. 'pi')
Mono = Tuple[int, Tuple[Tuple[str, int], ...], Tuple[Tuple[Tuple[str, Form], int], ...], Form, Tuple[str, ...]]
ONE: Mono = (0, (), (), (), ())

EXP_PI4 = {  # e^{i*pi*k/4}
    0: ((Fraction(1), Fraction(0)), 0), 1: ((Fraction(1, 2), Fraction(1, 2)), 1), 2: ((Fraction(0), Fraction(1)), 0),
    3: ((Fraction(-1, 2), Fraction(1, 2)), 1), 4: ((Fraction(-1), Fraction(0)), 0), 5: ((Fraction(-1, 2), Fraction(-1, 2)), 1),
    6: ((Fraction(0), Fraction(-1)), 0), 7: ((Fraction(1, 2), Fraction(-1, 2)), 1),
}


def form_add(a: Form, b: Form, sg: int = 1) -> Form:
    d = dict(a)
    for k, v in b:
        d[k] = d.get(k, Fraction(0)) + sg * v
    return tuple(sorted((k, v) for k, v in d.items() if v != 0))


class Poly:
    __slots__ = ("t",)

    def __init__(self, t: Optional[Dict[Mono, G]] = None):
        self.t = {m: c for m, c in (t or {}).items() if c != (0, 0)}

    # constructors
    @staticmethod
    def const(re, im=0) -> "Poly":
        return Poly({ONE: (Fraction(re), Fraction(im))})

    @staticmethod
    def sym(name: str) -> "Poly":
        return Poly({(0, ((name, 1),), (), (), ()): (Fraction(1), Fraction(0))})

    @staticmethod
    def word(letter: str) -> "Poly":
        return Poly({(0, (), (), (), (letter,)): (Fraction(1), Fraction(0))})

    def __eq__(self, o) -> bool:
        return isinstance(o, Poly) and self.t == o.t

    def __hash__(self):
        return hash(tuple(sorted(self.t.items(), key=repr)))

    def __repr__(self) -> str:
        if not self.t:
            return "0"
        out = []
        for m, c in sorted(self.t.items(), key=repr):
            s = f"({c[0]}{'+' if c[1] >= 0 else ''}{c[1]}i)" if c[1] else f"{c[0]}"
            r2, syms, trig, ex, w = m
            if r2:
                s += "*√2"
            for n, p in syms:
                s += f"*{n}" + (f"^{p}" if p != 1 else "")
            for (k, f), p in trig:
                s += f"*{k}({_fs(f)})" + (f"^{p}" if p != 1 else "")
            if ex:
                s += f"*e^(i({_fs(ex)}))"
            if w:
                s += "*" + ".".join(w)
            out.append(s)
        return " + ".join(out)

    def __add__(self, o: "Poly") -> "Poly":
        d = dict(self.t)
        for m, c in o.t.items():
            d[m] = g_add(d.get(m, (Fraction(0), Fraction(0))), c)
        return Poly(d)

    def __neg__(self) -> "Poly":
        return Poly({m: (-c[0], -c[1]) for m, c in self.t.items()})

    def __sub__(self, o: "Poly") -> "Poly":
        return self + (-o)

    def __mul__(self, o: "Poly") -> "Poly":
        d: Dict[Mono, G] = {}
        for m1, c1 in self.t.items():
            for m2, c2 in o.t.items():
                c = g_mul(c1, c2)
                r2 = m1[0] + m2[0]
                if r2 == 2:
                    c = (c[0] * 2, c[1] * 2)
                    r2 = 0
                sy = dict(m1[1])
                for n, p in m2[1]:
                    sy[n] = sy.get(n, 0) + p
                tr = dict(m1[2])
                for a, p in m2[2]:
                    tr[a] = tr.get(a, 0) + p
                ex = form_add(m1[3], m2[3])
                # exact evaluation of pure multiples of pi/4
                c, r2, ex = _reduce_exp(c, r2, ex)
                w = _sort_word(m1[4] + m2[4])
                m = (r2, tuple(sorted((k, v) for k, v in sy.items() if v)), tuple(sorted(((k, v) for k, v in tr.items() if v), key=repr)), ex, w)
                d[m] = g_add(d.get(m, (Fraction(0), Fraction(0))), c)
        return Poly(d)

    def scalar_inverse(self) -> "Poly":
        if len(self.t) != 1:
            raise Unfoldable("division by a sum")
        (m, c), = self.t.items()
        r2, sy, tr, ex, w = m
        if tr or w:
            raise Unfoldable("division by a non-scalar")
        n = c[0] * c[0] + c[1] * c[1]
        ci = (c[0] / n, -c[1] / n)
        if r2:
            ci = (ci[0] / 2, ci[1] / 2)          # 1/√2 = √2/2
        return Poly({(r2, tuple((k, -p) for k, p in sy), (), tuple((k, -v) for k, v in ex), ()): ci})

    def conj(self) -> "Poly":
        d = {}
        for (r2, sy, tr, ex, w), c in self.t.items():
            sy2 = tuple(sorted(((n[:-1] if n.endswith("*") else n + "*") if n in COMPLEX_SYMS or n.rstrip("*") in COMPLEX_SYMS else n, p) for n, p in sy))
            d[(r2, sy2, tr, tuple((k, -v) for k, v in ex), w)] = (c[0], -c[1])
        return Poly(d)

    def dagger(self) -> "Poly":
        d = {}
        for (r2, sy, tr, ex, w), c in self.conj().t.items():
            w2 = _sort_word(tuple(reversed([_dag_letter(x) for x in w])))
            m = (r2, sy, tr, ex, w2)
            d[m] = g_add(d.get(m, (Fraction(0), Fraction(0))), c)
        return Poly(d)

    def is_scalar(self) -> bool:
        return all(not m[4] for m in self.t)

    def linear_form(self) -> Form:
        """self as a rational-linear form in symbols (real coefficients)"""
        out = []
        for (r2, sy, tr, ex, w), c in self.t.items():
            if r2 or tr or ex or w or c[1] != 0 or len(sy) != 1 or sy[0][1] != 1:
                raise Unfoldable(f"not a real linear form: {self}")
            out.append((sy[0][0], c[0]))
        return tuple(sorted(out))

    def split_i_linear(self) -> Form:
        """self == i * L  -> L"""
        return (self * Poly.const(0, -1)).linear_form()


COMPLEX_SYMS = {"alpha", "zeta"}


def _fs(f: Form) -> str:
    return "+".join(f"{v}*{k}" for k, v in f)


def _dag_letter(x: str) -> str:
    return x[1:] if x.startswith("†") else "†" + x


def _sort_word(w: Tuple[str, ...]) -> Tuple[str, ...]:
    """letters of different modes commute: stable sort by mode suffix digit"""
    def mode(x):
        return int(x[-1]) if x[-1].isdigit() else 0
    return tuple(sorted(w, key=mode))


def _reduce_exp(c: G, r2: int, ex: Form):
    d = dict(ex)
    if "pi" in d:
        q = d["pi"] * 4
        if q.denominator == 1:
            k = int(q) % 8
            cc, rr = EXP_PI4[k]
            c = g_mul(c, cc)
            r2 += rr
            if r2 == 2:
                c = (c[0] * 2, c[1] * 2)
                r2 = 0
            del d["pi"]
            ex = tuple(sorted(d.items()))
    return c, r2, ex


MODS: Dict[str, Tuple[Form, Fraction]] = {}     # opaque symbol -> (reduced form x, q) for  mod(x, q*pi) = x - k*q*pi, k integer


def mod_atom(x: Poly, period: Poly) -> Poly:
    """mod(x, P) for a real linear form x and P = q*pi: an opaque real symbol that `unwrap_mods` removes again
    wherever the enclosing function has a period dividing c*P (c the coefficient the symbol carries there)"""
    fx, fp = x.linear_form(), period.linear_form()
    if len(fp) != 1 or fp[0][0] != "pi" or fp[0][1] <= 0:
        raise Unfoldable("mod by something that is not a positive multiple of pi")
    name = f"mod[{_fs(fx)}|{fp[0][1]}pi]"
    MODS[name] = (fx, fp[0][1])
    return Poly.sym(name)


def unwrap_mods(f: Form, full_turn: Fraction = Fraction(2)) -> Form:
    """inside a function of period full_turn*pi:  c*mod(x, q*pi) == c*x  whenever c*q is a multiple of full_turn"""
    out: Form = ()
    for k, v in f:
        if k in MODS:
            fx, q = MODS[k]
            if (v * q / full_turn).denominator == 1:
                out = form_add(out, unwrap_mods(tuple((a, b * v) for a, b in fx), full_turn))
                continue
        out = form_add(out, ((k, v),))
    return out


def trig(kind: str, arg: Poly) -> Poly:
    f = unwrap_mods(arg.linear_form())
    if not f:
        return Poly.const(1 if kind == "cos" else 0)
    sign = 1
    if f[0][1] < 0:
        f = tuple((k, -v) for k, v in f)
        if kind == "sin":
            sign = -1
    return Poly({(0, (), (((kind, f), 1),), (), ()): (Fraction(sign), Fraction(0))})


def exp_i(arg: Poly) -> Poly:
    f = unwrap_mods(arg.split_i_linear())
    c, r2, ex = _reduce_exp((Fraction(1), Fraction(0)), 0, f)
    return Poly({(r2, (), (), ex, ()): c})


Matrix = List[List[Poly]]
Value = Union[Poly, "Mat", "Expm", "Diag"]


class Mat:
    def __init__(self, rows: Matrix):
        self.rows = rows

    def map(self, f) -> "Mat":
        return Mat([[f(x) for x in r] for r in self.rows])

    def __eq__(self, o):
        return isinstance(o, Mat) and self.rows == o.rows

    def matmul(self, o: "Mat") -> "Mat":
        n, k, m = len(self.rows), len(o.rows), len(o.rows[0])
        out = []
        for i in range(n):
            row = []
            for j in range(m):
                s = Poly()
                for t in range(k):
                    s = s + self.rows[i][t] * o.rows[t][j]
                row.append(s)
            out.append(row)
        return Mat(out)

    def dagger(self) -> "Mat":
        n, m = len(self.rows), len(self.rows[0])
        return Mat([[self.rows[i][j].conj() for i in range(n)] for j in range(m)])

    def __repr__(self):
        return "[" + "; ".join(", ".join(map(repr, r)) for r in self.rows) + "]"


def polar_normalise(p: "Poly") -> "Poly":
    """|z| * e^{+i arg z} = z  and  |z| * e^{-i arg z} = conj z  for the complex parameters (the polar spelling of a parameter
    is the parameter); other combinations of |z| and arg z (e.g. e^{i arg(z)/2}) stay as they are"""
    out: Dict[Mono, G] = {}
    for (r2, sy, tr, ex, w), c in p.t.items():
        sy_d, ex_d = dict(sy), dict(ex)
        for z in COMPLEX_SYMS:
            a, m = f"arg({z})", f"|{z}|"
            while ex_d.get(a) in (Fraction(1), Fraction(-1)) and sy_d.get(m, 0) >= 1:
                name = z if ex_d[a] == 1 else z + "*"
                del ex_d[a]
                sy_d[m] -= 1
                if not sy_d[m]:
                    del sy_d[m]
                sy_d[name] = sy_d.get(name, 0) + 1
        mono = (r2, tuple(sorted(sy_d.items())), tr, tuple(sorted(ex_d.items())), w)
        out[mono] = g_add(out.get(mono, (Fraction(0), Fraction(0))), c)
    return Poly(out)


class Expm:
    """matrix exponential of an operator polynomial"""
    def __init__(self, arg: Poly):
        self.arg = polar_normalise(arg)

    def __eq__(self, o):
        return isinstance(o, Expm) and self.arg == o.arg

    def __repr__(self):
        return f"expm({self.arg})"


class Diag:
    """diag(f(arange)) family: kind in {'sqrt-arange','exp-arange','arange'}, with parameters"""
    def __init__(self, kind: str, params: tuple):
        self.kind, self.params = kind, params

    def __eq__(self, o):
        return isinstance(o, Diag) and (self.kind, self.params) == (o.kind, o.params)

    def __repr__(self):
        return f"Diag({self.kind},{self.params})"


def identity(n: int) -> Mat:
    return Mat([[Poly.const(1 if i == j else 0) for j in range(n)] for i in range(n)])


class Folder:
    """folds an expression AST; `env` maps local names to values; `letters` maps constructor
    calls (resolved by the caller) to operator letters"""

    def __init__(self, env: Optional[Dict[str, Value]] = None, call_hook=None):
        self.env = dict(env or {})
        self.call_hook = call_hook

    def fold(self, e: ast.AST) -> Value:
        if isinstance(e, ast.Constant):
            v = e.value
            if isinstance(v, bool):
                raise Unfoldable("bool")
            if isinstance(v, int):
                return Poly.const(v)
            if isinstance(v, float):
                return Poly.const(Fraction(str(v)))
            if isinstance(v, complex):
                return Poly.const(Fraction(str(v.real)), Fraction(str(v.imag)))
            raise Unfoldable(f"constant {v!r}")
        if isinstance(e, ast.Name):
            if e.id in self.env:
                return self.env[e.id]
            if e.id == "pi":
                return Poly.sym("pi")
            raise Unfoldable(f"unknown name {e.id}")
        if isinstance(e, ast.Attribute):
            d = dotted(e)
            if d in ("np.pi", "jnp.pi", "numpy.pi", "math.pi", "jax.numpy.pi"):
                return Poly.sym("pi")
            if e.attr == "T":
                v = self.fold(e.value)
                if isinstance(v, Poly):
                    return _word_transpose(v)
                if isinstance(v, Mat):
                    n, m = len(v.rows), len(v.rows[0])
                    return Mat([[v.rows[i][j] for i in range(n)] for j in range(m)])
            raise Unfoldable(f"attribute {src(e)}")
        if isinstance(e, ast.UnaryOp) and isinstance(e.op, ast.USub):
            v = self.fold(e.operand)
            return -v if isinstance(v, Poly) else v.map(lambda x: -x)
        if isinstance(e, ast.UnaryOp) and isinstance(e.op, ast.UAdd):
            return self.fold(e.operand)
        if isinstance(e, ast.BinOp):
            a, b = self.fold(e.left), self.fold(e.right)
            return self.binop(type(e.op), a, b)
        if isinstance(e, (ast.List, ast.Tuple)):
            rows = [self.fold(x) for x in e.elts]
            if all(isinstance(r, list) for r in rows):
                return rows          # nested list -> handled by array()
            return rows
        if isinstance(e, ast.ListComp):
            # ["Polarization" for _ in range(3)] style is not numeric
            raise Unfoldable("comprehension")
        if isinstance(e, ast.Call):
            return self.call(e)
        raise Unfoldable(type(e).__name__)

    def binop(self, op, a, b):
        if isinstance(a, list) or isinstance(b, list):
            raise Unfoldable("list arithmetic")
        if op in (ast.Add, ast.Sub):
            if isinstance(a, Poly) and isinstance(b, Poly):
                return a + b if op is ast.Add else a - b
            if isinstance(a, Mat) and isinstance(b, Mat):
                return Mat([[x + y if op is ast.Add else x - y for x, y in zip(r1, r2)] for r1, r2 in zip(a.rows, b.rows)])
            raise Unfoldable("add of mixed kinds")
        if op is ast.Mult:
            if isinstance(a, Poly) and isinstance(b, Poly):
                if not (a.is_scalar() or b.is_scalar()):
                    raise Unfoldable("element-wise product of two operators")
                return a * b
            if isinstance(a, Poly) and isinstance(b, Mat):
                return b.map(lambda x: a * x)
            if isinstance(a, Mat) and isinstance(b, Poly):
                return a.map(lambda x: x * b)
            raise Unfoldable("mult of mixed kinds")
        if op is ast.MatMult:
            if isinstance(a, Poly) and isinstance(b, Poly):
                return a * b
            if isinstance(a, Mat) and isinstance(b, Mat):
                return a.matmul(b)
            raise Unfoldable("matmul of mixed kinds")
        if op is ast.Div:
            if isinstance(b, Poly):
                inv = b.scalar_inverse()
                return a * inv if isinstance(a, Poly) else a.map(lambda x: x * inv)
            raise Unfoldable("division by matrix")
        if op is ast.Mod:
            if isinstance(a, Poly) and isinstance(b, Poly):
                return mod_atom(a, b)
            raise Unfoldable("mod of matrices")
        if op is ast.Pow:
            if isinstance(a, Poly) and isinstance(b, Poly) and b.t.keys() == {ONE} and b.t[ONE][1] == 0 and b.t[ONE][0].denominator == 1 and 0 <= b.t[ONE][0] <= 4:
                out = Poly.const(1)
                for _ in range(int(b.t[ONE][0])):
                    out = out * a
                return out
        raise Unfoldable(f"operator {op.__name__}")

    def call(self, e: ast.Call) -> Value:
        if self.call_hook is not None:
            r = self.call_hook(self, e)
            if r is not None:
                return r
        n = np_name(e.func) or (e.func.id if isinstance(e.func, ast.Name) else None) or (dotted(e.func) or "").split(".")[-1]
        args = e.args
        # array-method forms of the same primitives:  x.conj(), x.conjugate(), x.transpose(), x.dot(y)
        if isinstance(e.func, ast.Attribute) and np_name(e.func) is None and not e.keywords:
            meth = e.func.attr
            if meth in ("conj", "conjugate") and not args:
                return self.call(ast.Call(func=ast.Attribute(value=ast.Name(id="jnp", ctx=ast.Load()), attr="conj", ctx=ast.Load()), args=[e.func.value], keywords=[]))
            if meth == "transpose" and not args:
                return self.fold(ast.Attribute(value=e.func.value, attr="T", ctx=ast.Load()))
            if meth == "dot" and len(args) == 1:
                return self.binop(ast.MatMult, self.fold(e.func.value), self.fold(args[0]))
        if n in ("array", "asarray") and args:
            v = self.fold(args[0])
            if isinstance(v, list) and v and all(isinstance(r, list) for r in v):
                if not all(isinstance(x, Poly) for r in v for x in r):
                    raise Unfoldable("non-scalar matrix entry")
                return Mat(v)
            if isinstance(v, Mat):
                return v
            raise Unfoldable("array of non-matrix")
        if n in ("eye", "identity"):
            a = args[0] if args else next((k.value for k in e.keywords if k.arg in ("N", "n")), None)
            if isinstance(a, ast.Constant) and isinstance(a.value, int):
                return identity(a.value)
            if a is not None:
                return Diag("identity", (src(a),))
            raise Unfoldable("eye")
        if n == "sqrt" and args:
            v = self.fold(args[0])
            if isinstance(v, Poly) and v == Poly.const(2):
                return Poly({(1, (), (), (), ()): (Fraction(1), Fraction(0))})
            if isinstance(v, Poly) and v.t.keys() == {ONE} and v.t[ONE][1] == 0:
                q = v.t[ONE][0]
                import math
                rn, rd = math.isqrt(q.numerator), math.isqrt(q.denominator)
                if rn * rn == q.numerator and rd * rd == q.denominator:
                    return Poly.const(Fraction(rn, rd))
            if isinstance(v, Diag) and v.kind == "arange":
                return Diag("sqrt-arange", v.params)
            if isinstance(v, Poly) and v.is_scalar():
                # opaque atom: sqrt of a non-constant scalar (keeps |.| semantics: never simplified to a signed root)
                return Poly({(0, (), ((("sqrt", (("#" + repr(v), Fraction(1)),)), 1),), (), ()): (Fraction(1), Fraction(0))})
            raise Unfoldable("sqrt")
        if n in ("cos", "sin") and args:
            return trig(n, self.fold(args[0]))
        if n in ("abs", "absolute", "angle") and len(args) == 1:
            v = self.fold(args[0])
            if isinstance(v, Poly) and len(v.t) == 1:
                (mono, c), = v.t.items()
                if c == (Fraction(1), Fraction(0)) and mono[0] == 0 and not mono[2] and not mono[3] and not mono[4] and len(mono[1]) == 1 and mono[1][0][1] == 1 \
                        and mono[1][0][0] in COMPLEX_SYMS:
                    z = mono[1][0][0]
                    return Poly.sym(f"|{z}|" if n != "angle" else f"arg({z})")
            raise Unfoldable(f"{n} of something that is not a complex parameter")
        if n in ("mod", "remainder", "fmod") and len(args) == 2:
            a, b = self.fold(args[0]), self.fold(args[1])
            if isinstance(a, Poly) and isinstance(b, Poly):
                return mod_atom(a, b)
            raise Unfoldable("mod of matrices")
        if n == "exp" and args:
            v = self.fold(args[0])
            if isinstance(v, Diag) and v.kind == "i-arange-times":
                return Diag("exp-i-arange-times", v.params)
            return exp_i(v)
        if n in ("conj", "conjugate") and args:
            v = self.fold(args[0])
            if isinstance(v, Poly):
                return _word_conj(v)
            if isinstance(v, Mat):
                return v.map(lambda x: x.conj())
            raise Unfoldable("conj")
        if n == "expm" and args:
            v = self.fold(args[0])
            if isinstance(v, Poly):
                return Expm(v)
            raise Unfoldable("expm of matrix")
        if n in ("matmul", "dot") and len(args) == 2:
            return self.binop(ast.MatMult, self.fold(args[0]), self.fold(args[1]))
        if n == "kron" and len(args) == 2:
            a, b = self.fold(args[0]), self.fold(args[1])
            if isinstance(a, Poly) and isinstance(b, Poly):
                return a * b          # letters carry their mode; different modes commute
            raise Unfoldable("kron of matrices")
        raise Unfoldable(f"call {src(e.func)}")


def _word_conj(p: Poly) -> Poly:
    """complex conjugate (entry-wise) of an operator polynomial: ladder matrices are real"""
    return p.conj()


def _word_transpose(p: Poly) -> Poly:
    d = {}
    for (r2, sy, tr, ex, w), c in p.t.items():
        w2 = _sort_word(tuple(reversed([_dag_letter(x) for x in w])))   # real matrices: transpose = dagger on letters
        m = (r2, sy, tr, ex, w2)
        d[m] = g_add(d.get(m, (Fraction(0), Fraction(0))), c)
    return Poly(d)


def fold_spec(text: str, env: Optional[Dict[str, Value]] = None) -> Value:
    f = Folder(env)
    return f.fold(ast.parse(text, mode="eval").body)
