"""Local scopes, alias resolution and light def-use facts for one function."""
from __future__ import annotations

import ast
from typing import Dict, Iterator, List, Optional, Set, Tuple

from .model import FuncInfo, Module, dotted, stmt_bindings, walk_no_nested, _bind_targets


def annotation_nodes(fn: ast.AST) -> Set[int]:
    """ids of all AST nodes that sit inside an annotation (never evaluated in a function body,
    or evaluated at definition time only)"""
    out: Set[int] = set()

    def mark(n):
        if n is None:
            return
        for x in ast.walk(n):
            out.add(id(x))

    for n in ast.walk(fn):
        if isinstance(n, (ast.FunctionDef, ast.AsyncFunctionDef)):
            a = n.args
            for arg in a.posonlyargs + a.args + a.kwonlyargs + ([a.vararg] if a.vararg else []) + ([a.kwarg] if a.kwarg else []):
                mark(arg.annotation)
            mark(n.returns)
        elif isinstance(n, ast.AnnAssign):
            mark(n.annotation)
    return out


def local_bindings(fn: ast.FunctionDef) -> Tuple[Set[str], Dict[str, str], Set[str]]:
    """(all names bound in the function incl. parameters, local import aliases name->origin,
    names declared global/nonlocal)"""
    names: Set[str] = set()
    imports: Dict[str, str] = {}
    outer: Set[str] = set()
    a = fn.args
    for arg in a.posonlyargs + a.args + a.kwonlyargs:
        names.add(arg.arg)
    if a.vararg:
        names.add(a.vararg.arg)
    if a.kwarg:
        names.add(a.kwarg.arg)
    for n in walk_no_nested(fn):
        if isinstance(n, ast.stmt):
            for name, origin in stmt_bindings(n):
                names.add(name)
                if origin:
                    imports[name] = origin
        if isinstance(n, (ast.Global, ast.Nonlocal)):
            outer.update(n.names)
        if isinstance(n, ast.NamedExpr):
            names.update(_bind_targets(n.target))
        if isinstance(n, ast.comprehension):
            names.update(_bind_targets(n.target))
        if isinstance(n, ast.ExceptHandler) and n.name:
            names.add(n.name)
        if isinstance(n, (ast.MatchAs, ast.MatchStar)) and n.name:
            names.add(n.name)
        if isinstance(n, ast.MatchMapping) and n.rest:
            names.add(n.rest)
        if isinstance(n, ast.Lambda):
            # lambda parameters are local to the lambda; loads inside it are checked against them
            pass
    return names, imports, outer


def lambda_params(fn: ast.AST) -> Dict[int, Set[str]]:
    """for every node inside a lambda/nested def: the extra names visible there"""
    out: Dict[int, Set[str]] = {}

    def visit(n, extra: Set[str]):
        if isinstance(n, ast.Lambda):
            a = n.args
            extra = extra | {x.arg for x in a.posonlyargs + a.args + a.kwonlyargs} | ({a.vararg.arg} if a.vararg else set()) | ({a.kwarg.arg} if a.kwarg else set())
        elif isinstance(n, (ast.FunctionDef, ast.AsyncFunctionDef)) and n is not fn:
            nm, _, _ = local_bindings(n)
            extra = extra | nm
        if extra:
            out[id(n)] = extra
        for c in ast.iter_child_nodes(n):
            visit(c, extra)

    visit(fn, set())
    return out


def resolve_alias(name: str, fi: FuncInfo, local_imports: Optional[Dict[str, str]] = None) -> str:
    """expand the first component of a dotted name through local and module import aliases:
    'jnp.abs' -> 'jax.numpy.abs';  'ESC.reorder_vector' -> 'photon_weave.extra.einsum_constructor.reorder_vector'"""
    head, _, rest = name.partition(".")
    origin = None
    if local_imports and head in local_imports:
        origin = local_imports[head]
    elif head in fi.module.import_alias:
        origin = fi.module.import_alias[head]
    if origin is None:
        return name
    origin = origin.lstrip(".")
    return origin + ("." + rest if rest else "")


def full_call_name(call: ast.Call, fi: FuncInfo, local_imports: Optional[Dict[str, str]] = None) -> Optional[str]:
    d = dotted(call.func)
    if d is None:
        return None
    return resolve_alias(d, fi, local_imports)


def assignments_to(fn: ast.FunctionDef, name: str) -> List[ast.stmt]:
    out = []
    for n in walk_no_nested(fn):
        if isinstance(n, ast.Assign):
            for t in n.targets:
                if name in set(_bind_targets(t)):
                    out.append(n)
        elif isinstance(n, (ast.AnnAssign, ast.AugAssign)):
            if name in set(_bind_targets(n.target)) and getattr(n, "value", None) is not None:
                out.append(n)
        elif isinstance(n, (ast.For, ast.AsyncFor)):
            if name in set(_bind_targets(n.target)):
                out.append(n)
    out.sort(key=lambda s: (s.lineno, s.col_offset))
    return out


def single_def_value(fn: ast.FunctionDef, name: str) -> Optional[ast.expr]:
    """value of the only plain assignment `name = <expr>` in the function, else None"""
    defs = assignments_to(fn, name)
    if len(defs) == 1 and isinstance(defs[0], (ast.Assign, ast.AnnAssign)):
        d = defs[0]
        tgt = d.targets[0] if isinstance(d, ast.Assign) else d.target
        if isinstance(tgt, ast.Name):
            return d.value
    return None
