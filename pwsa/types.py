"""E3/E4: receiver typing and callee resolution, specific to this repository.

No type checker exists in the sandbox; receivers are typed from facts the code states:
the attribute table below (read off the ``__init__`` bodies / dataclass fields / property
annotations of the pinned tree), parameter and variable annotations, constructor calls,
``isinstance`` narrowing and iteration over typed lists.  Unknown receivers fall back to
class-hierarchy analysis by method name.
"""
from __future__ import annotations

import ast
import re
from typing import Dict, List, Optional, Set

from .model import FuncInfo, Repo, dotted, src, walk_no_nested, _bind_targets

# attribute name -> class of the value (element class for lists)
ATTR_TYPES = {
    "envelope": "Envelope",                    # BaseState.envelope property -> Envelope
    "_envelope": "Envelope",
    "composite_envelope": "CompositeEnvelope",  # BaseState/Envelope property
    "_composite_envelope": "CompositeEnvelope",
    "fock": "Fock",                            # Envelope.__init__
    "polarization": "Polarization",
    "container": "CompositeEnvelopeContainer",  # ProductState field / CompositeEnvelope property
}
LIST_ATTR_TYPES = {
    "states": "ProductState",                  # CompositeEnvelopeContainer.states / CompositeEnvelope.states
    "product_states": "ProductState",
    "state_objs": "BaseState",
    "envelopes": "Envelope",
}
STATE_CLASSES = ("Fock", "Polarization", "CustomState")


def _ann_classes(ann: Optional[ast.AST], repo: Repo) -> Optional[Set[str]]:
    if ann is None:
        return None
    txt = src(ann) if not (isinstance(ann, ast.Constant) and isinstance(ann.value, str)) else ann.value
    names = set(re.findall(r"[A-Za-z_][A-Za-z_0-9]*", txt))
    cl = {n for n in names if n in repo.classes}
    return cl or None


def expand_abstract(cl: Set[str], repo: Repo) -> Set[str]:
    out = set()
    for c in cl:
        if c == "BaseState":
            out |= set(STATE_CLASSES)
        else:
            out.add(c)
    return out


class Typer:
    def __init__(self, repo: Repo, fi: FuncInfo):
        self.repo, self.fi = repo, fi
        self.fn = fi.node
        self.var: Dict[str, Set[str]] = {}        # local name -> classes
        self.elem: Dict[str, Set[str]] = {}       # local list name -> element classes
        self._collect()

    def _collect(self) -> None:
        fn, repo = self.fn, self.repo
        a = fn.args
        for arg in a.posonlyargs + a.args + a.kwonlyargs:
            c = _ann_classes(arg.annotation, repo)
            if c:
                t = src(arg.annotation) if arg.annotation is not None else ""
                if "List" in t or "list" in t:
                    self.elem[arg.arg] = c
                else:
                    self.var[arg.arg] = c
        if a.vararg is not None:
            c = _ann_classes(a.vararg.annotation, repo)
            if c:
                self.elem[a.vararg.arg] = c
        if self.fi.cls is not None and a.args and a.args[0].arg == "self":
            self.var["self"] = {self.fi.cls.name}
        # three passes so that names defined from other names resolve
        for _ in range(3):
            for n in walk_no_nested(fn):
                if isinstance(n, ast.AnnAssign) and isinstance(n.target, ast.Name):
                    c = _ann_classes(n.annotation, repo)
                    if c:
                        t = src(n.annotation)
                        if "List" in t or "list[" in t:
                            self.elem[n.target.id] = c
                        else:
                            self.var[n.target.id] = c
                    elif n.value is not None:
                        self._assign(n.target, n.value)
                elif isinstance(n, ast.Assign):
                    for t in n.targets:
                        self._assign(t, n.value)
                elif isinstance(n, ast.Expr) and isinstance(n.value, ast.Call) and isinstance(n.value.func, ast.Attribute) \
                        and n.value.func.attr in ("append", "extend", "insert") and isinstance(n.value.func.value, ast.Name) and n.value.args:
                    a = n.value.args[-1]
                    c = self.elem_classes(a) if n.value.func.attr == "extend" else self.classes(a)
                    if c:
                        self.elem.setdefault(n.value.func.value.id, set()).update(c)
                elif isinstance(n, (ast.For, ast.comprehension)):
                    it = n.iter
                    ec = self.elem_classes(it)
                    if ec and isinstance(n.target, ast.Name):
                        self.var.setdefault(n.target.id, set()).update(ec)
                    # for i, s in enumerate(xs)
                    if isinstance(it, ast.Call) and isinstance(it.func, ast.Name) and it.func.id == "enumerate" and it.args \
                            and isinstance(n.target, ast.Tuple) and len(n.target.elts) == 2 and isinstance(n.target.elts[1], ast.Name):
                        ec = self.elem_classes(it.args[0])
                        if ec:
                            self.var.setdefault(n.target.elts[1].id, set()).update(ec)

    def _assign(self, t: ast.AST, v: ast.AST) -> None:
        if isinstance(t, (ast.Tuple, ast.List)) and not isinstance(v, (ast.Tuple, ast.List)):
            # a, b = xs  /  (only,) = xs : every target is an element of the sequence
            ec = self.elem_classes(v)
            if ec:
                for e in t.elts:
                    if isinstance(e, ast.Name):
                        self.var.setdefault(e.id, set()).update(ec)
            return
        if isinstance(t, (ast.Tuple, ast.List)) and isinstance(v, (ast.Tuple, ast.List)) and len(t.elts) == len(v.elts):
            for e, w in zip(t.elts, v.elts):
                self._assign(e, w)
            return
        if not isinstance(t, ast.Name):
            return
        c = self.classes(v)
        if c:
            self.var.setdefault(t.id, set()).update(c)
        ec = self.elem_classes(v)
        if ec:
            self.elem.setdefault(t.id, set()).update(ec)

    # ------------------------------------------------------------------
    def classes(self, e: ast.AST) -> Optional[Set[str]]:
        """possible classes of the value of expression e (None = unknown)"""
        repo = self.repo
        if isinstance(e, ast.Name):
            if e.id in self.var:
                return set(self.var[e.id])
            if e.id in repo.classes:
                return None
            return None
        if isinstance(e, ast.Attribute):
            if e.attr in ATTR_TYPES:
                return {ATTR_TYPES[e.attr]}
            return None
        if isinstance(e, ast.Call):
            d = dotted(e.func)
            if d and d.split(".")[-1] in repo.classes and (isinstance(e.func, ast.Name) or d.split(".")[-1][0].isupper()):
                return {d.split(".")[-1]}
            if isinstance(e.func, ast.Name) and e.func.id == "getattr" and len(e.args) >= 2 and isinstance(e.args[1], ast.Constant):
                if e.args[1].value in ATTR_TYPES:
                    return {ATTR_TYPES[e.args[1].value]}
            if isinstance(e.func, ast.Name) and e.func.id == "cast" and len(e.args) == 2:
                return _ann_classes(e.args[0], repo)
            return None
        if isinstance(e, ast.Subscript):
            ec = self.elem_classes(e.value)
            if ec:
                return ec
            # CompositeEnvelope._instances[uid][0]
            if "._instances[" in src(e):
                return {"CompositeEnvelope"}
            if "._containers[" in src(e):
                return {"CompositeEnvelopeContainer"}
            return None
        if isinstance(e, ast.IfExp):
            a, b = self.classes(e.body), self.classes(e.orelse)
            if a and b:
                return a | b
            return None
        return None

    def elem_classes(self, e: ast.AST) -> Optional[Set[str]]:
        if isinstance(e, ast.Name):
            return set(self.elem[e.id]) if e.id in self.elem else None
        if isinstance(e, ast.Attribute) and e.attr in LIST_ATTR_TYPES:
            return {LIST_ATTR_TYPES[e.attr]}
        if isinstance(e, (ast.List, ast.Tuple)):
            out: Set[str] = set()
            for x in e.elts:
                c = self.classes(x.value if isinstance(x, ast.Starred) else x)
                if isinstance(x, ast.Starred):
                    c = self.elem_classes(x.value)
                if not c:
                    return None
                out |= c
            return out or None
        if isinstance(e, ast.ListComp) and len(e.generators) >= 1:
            g = e.generators[0]
            if isinstance(e.elt, ast.Name) and isinstance(g.target, ast.Name) and e.elt.id == g.target.id:
                return self.elem_classes(g.iter)
            return self.classes(e.elt)
        if isinstance(e, ast.Call) and isinstance(e.func, ast.Name) and e.func.id in ("list", "tuple", "sorted", "reversed") and e.args:
            return self.elem_classes(e.args[0])
        if isinstance(e, ast.Call) and isinstance(e.func, ast.Attribute) and e.func.attr == "fromkeys" and e.args:
            return self.elem_classes(e.args[0])
        if isinstance(e, ast.Subscript) and isinstance(e.slice, ast.Slice):
            return self.elem_classes(e.value)
        if isinstance(e, ast.Subscript) and "._instances[" in src(e):
            return {"CompositeEnvelope"}
        return None

    def callees(self, call: ast.Call) -> List[FuncInfo]:
        """resolved callee set of `X.m(...)` / `f(...)` inside the package (may be empty)"""
        repo = self.repo
        f = call.func
        if isinstance(f, ast.Attribute):
            cl = self.classes(f.value)
            meth = f.attr
            if cl:
                out = []
                for c in sorted(expand_abstract(cl, repo)):
                    m = repo.resolve_method(c, meth)
                    if m is not None and m not in out:
                        out.append(m)
                return out
            # module alias: ESC.reorder_vector
            d = dotted(f)
            if d:
                head = d.split(".")[0]
                origin = self.fi.module.import_alias.get(head)
                if origin and origin.startswith("photon_weave"):
                    fi = repo.funcs.get(f"{origin.split('.')[-1]}:{meth}")
                    if fi is not None:
                        return [fi]
            # CHA by name
            out = []
            for c in repo.classes.values():
                if meth in c.methods and c.methods[meth] not in out:
                    out.append(c.methods[meth])
            return out
        if isinstance(f, ast.Name):
            fi = repo.funcs.get(f.id)
            if fi is not None and fi.cls is None:
                return [fi]
        return []
