"""Private names are the author's to choose: a consistent rename of a private attribute or method changes nothing a user can observe.
The rules, however, were written against the names of the confirmed tree.  This pass finds, by *role*, what the private names of that
tree are called today and reads them under their confirmed names (AST rename across the package, before anything is indexed).

Roles (frozen from the confirmed tree):
  * the private attribute a public property of a class returns / maintains            (Config.random_key -> _key, Operation.operator -> _operator, …)
  * the attribute Operation.__init__ stores its `operation_type` parameter in          (_operation_type)
  * the two class-level registries of CompositeEnvelope                               (_containers: subscripted by the `container` property, _instances: the other)
  * the three private steps of FockDimensions.compute_dimensions                      (_initial_estimate, _compute_dimensions, _increase_dimensions)
A role that cannot be found leaves everything as written (the rules then report a vanished anchor themselves)."""
from __future__ import annotations

import ast
from typing import Dict, List, Optional

PROPERTY_ATTR = {            # (class, public property) -> confirmed private attribute
    ("Config", "random_key"): "_key", ("Config", "random_seed"): "_random_seed", ("Config", "contractions"): "_contractions",
    ("Operation", "operator"): "_operator", ("Operation", "dimensions"): "_dimensions",
    ("BaseState", "index"): "_index", ("BaseState", "uid"): "_uid", ("BaseState", "measured"): "_measured",
    ("BaseState", "expansion_level"): "_expansion_level", ("BaseState", "dimensions"): "_dimensions", ("BaseState", "envelope"): "_envelope",
    ("Envelope", "expansion_level"): "_expansion_level",
}


def _classes(trees: Dict[str, ast.Module]) -> Dict[str, ast.ClassDef]:
    out: Dict[str, ast.ClassDef] = {}
    for t in trees.values():
        for s in t.body:
            if isinstance(s, ast.ClassDef):
                out.setdefault(s.name, s)
    return out


def _self_attr(e: ast.AST) -> Optional[str]:
    return e.attr if isinstance(e, ast.Attribute) and isinstance(e.value, ast.Name) and e.value.id == "self" else None


def _returned_private(getter: ast.FunctionDef) -> Optional[str]:
    """the private self-attribute a getter hands out: `return self._x`, or the one it re-binds (`k, self._x = split(self._x)`)"""
    rets = [r for r in ast.walk(getter) if isinstance(r, ast.Return) and r.value is not None]
    names = {a for r in rets for a in [_self_attr(r.value)] if a and a.startswith("_")}
    if len(names) == 1:
        return names.pop()
    stored = {x.attr for x in ast.walk(getter) if isinstance(x, ast.Attribute) and isinstance(x.ctx, ast.Store) and isinstance(x.value, ast.Name) and x.value.id == "self" and x.attr.startswith("_")}
    if len(stored) == 1:
        return stored.pop()
    return None


def renames(trees: Dict[str, ast.Module]) -> Dict[str, str]:
    cls = _classes(trees)
    out: Dict[str, str] = {}

    def want(cur: Optional[str], canon: str) -> None:
        if cur and cur != canon and cur.startswith("_") and not cur.startswith("__"):
            out.setdefault(cur, canon)
    for (cname, prop), canon in PROPERTY_ATTR.items():
        c = cls.get(cname)
        if c is None:
            continue
        for m in c.body:
            if isinstance(m, ast.FunctionDef) and m.name == prop and any(ast.unparse(d) == "property" for d in m.decorator_list):
                want(_returned_private(m), canon)
    op = cls.get("Operation")
    if op is not None:
        for m in op.body:
            if isinstance(m, ast.FunctionDef) and m.name == "__init__":
                for a in ast.walk(m):
                    tg = a.targets[0] if isinstance(a, ast.Assign) and len(a.targets) == 1 else (a.target if isinstance(a, ast.AnnAssign) else None)
                    if tg is not None and _self_attr(tg) and isinstance(getattr(a, "value", None), ast.Name) and a.value.id == "operation_type":
                        want(_self_attr(tg), "_operation_type")
    ce = cls.get("CompositeEnvelope")
    if ce is not None:
        regs = []
        for s in ce.body:
            tg = s.targets[0] if isinstance(s, ast.Assign) and len(s.targets) == 1 else (s.target if isinstance(s, ast.AnnAssign) else None)
            if isinstance(tg, ast.Name) and tg.id.startswith("_") and isinstance(getattr(s, "value", None), ast.Dict) and not s.value.keys:
                regs.append(tg.id)
        cont = None
        for m in ce.body:
            if isinstance(m, ast.FunctionDef) and m.name == "container" and any(ast.unparse(d) == "property" for d in m.decorator_list):
                for x in ast.walk(m):
                    if isinstance(x, ast.Subscript) and isinstance(x.value, ast.Attribute) and x.value.attr in regs:
                        cont = x.value.attr
        if cont and len(regs) == 2:
            want(cont, "_containers")
            want([r for r in regs if r != cont][0], "_instances")
    fd = cls.get("FockDimensions")
    if fd is not None:
        for m in fd.body:
            if isinstance(m, ast.FunctionDef) and m.name == "compute_dimensions":
                first = next((s for s in m.body if isinstance(s, ast.Expr) and isinstance(s.value, ast.Call) and _self_attr(s.value.func) and not s.value.args), None)
                if first is not None:
                    want(_self_attr(first.value.func), "_initial_estimate")
                for x in ast.walk(m):
                    if isinstance(x, ast.Assign) and isinstance(x.value, ast.Call) and _self_attr(x.value.func) and not x.value.args:
                        want(_self_attr(x.value.func), "_compute_dimensions")
                    if isinstance(x, ast.Expr) and isinstance(x.value, ast.Call) and _self_attr(x.value.func) and (x.value.args or x.value.keywords):
                        want(_self_attr(x.value.func), "_increase_dimensions")
    # a confirmed name that is still in use for something else must not be merged with the renamed one
    used = {x.attr for t in trees.values() for x in ast.walk(t) if isinstance(x, ast.Attribute)} | \
           {x.name for t in trees.values() for x in ast.walk(t) if isinstance(x, ast.FunctionDef)}
    return {cur: canon for cur, canon in out.items() if canon not in used or canon in PROPERTY_ATTR.values() and _same_role_free(cur, canon, used)}


def _same_role_free(cur: str, canon: str, used) -> bool:
    # `_dimensions` / `_expansion_level` exist in several classes: renaming one class's attribute back onto the shared confirmed name is fine
    return canon in ("_dimensions", "_expansion_level")


def apply(trees: Dict[str, ast.Module]) -> Dict[str, str]:
    mp = renames(trees)
    if not mp:
        return mp
    for t in trees.values():
        for x in ast.walk(t):
            if isinstance(x, ast.Attribute) and x.attr in mp:
                x.attr = mp[x.attr]
            elif isinstance(x, ast.FunctionDef) and x.name in mp:
                x.name = mp[x.name]
            elif isinstance(x, ast.Name) and x.id in mp and False:
                pass
            elif isinstance(x, ast.keyword) and x.arg in mp:
                x.arg = mp[x.arg]
        # class-level registries are plain names inside the class body
        for c in [s for s in t.body if isinstance(s, ast.ClassDef)]:
            for s in c.body:
                tg = s.targets[0] if isinstance(s, ast.Assign) and len(s.targets) == 1 else (s.target if isinstance(s, ast.AnnAssign) else None)
                if isinstance(tg, ast.Name) and tg.id in mp:
                    tg.id = mp[tg.id]
    return mp
