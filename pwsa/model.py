"""E1/E2: loader, symbol tables, class table for photon_weave (stdlib ``ast`` only).

Nothing of the target is imported or executed: every fact comes from the parsed source
of the working tree under ``REPO`` (default /repo, override with PWSA_REPO for the
self-test's scratch copies).
"""
from __future__ import annotations

import ast
import builtins
import copy
import hashlib
import os
import pathlib
from dataclasses import dataclass, field
from typing import Dict, Iterator, List, Optional, Set, Tuple


class AnalysisError(Exception):
    """Parse failure, vanished anchor, unrecognised construct in a fail-closed position."""


class AnalysisIncomplete(AnalysisError):
    pass


def repo_root() -> pathlib.Path:
    return pathlib.Path(os.environ.get("PWSA_REPO", "/repo"))


EXTRA_FILES = ["examples/mach_zehnder_interferometer.py"]


@dataclass
class FuncInfo:
    qualname: str            # "Class.method" or "function"
    module: "Module"
    node: ast.FunctionDef
    cls: Optional["ClassInfo"] = None
    kind: str = "method"     # method | function | getter | setter
    orig: Optional[ast.FunctionDef] = None    # the function as written; `node` may have new private helpers spliced in (inline.py)

    @property
    def name(self) -> str:
        return self.node.name

    @property
    def file(self) -> str:
        return self.module.relpath

    def loc(self, node: Optional[ast.AST] = None) -> str:
        n = node if node is not None else self.node
        return f"{self.module.relpath}:{getattr(n, 'lineno', 0)}"

    @property
    def params(self) -> List[str]:
        a = self.node.args
        out = [x.arg for x in a.posonlyargs + a.args]
        if a.vararg:
            out.append(a.vararg.arg)
        out += [x.arg for x in a.kwonlyargs]
        if a.kwarg:
            out.append(a.kwarg.arg)
        return out

    def body_wo_docstring(self) -> List[ast.stmt]:
        b = self.node.body
        if b and isinstance(b[0], ast.Expr) and isinstance(b[0].value, ast.Constant) and isinstance(b[0].value.value, str):
            return b[1:]
        return b


@dataclass
class ClassInfo:
    name: str
    module: "Module"
    node: ast.ClassDef
    bases: List[str]
    methods: Dict[str, FuncInfo] = field(default_factory=dict)
    getters: Dict[str, FuncInfo] = field(default_factory=dict)
    setters: Dict[str, FuncInfo] = field(default_factory=dict)
    is_dataclass: bool = False


@dataclass
class Module:
    name: str                 # dotted
    relpath: str
    path: pathlib.Path
    source: str
    tree: ast.Module
    sha256: str
    runtime_names: Set[str] = field(default_factory=set)       # bound at import time
    typecheck_names: Set[str] = field(default_factory=set)     # bound only under TYPE_CHECKING
    future_annotations: bool = False
    import_alias: Dict[str, str] = field(default_factory=dict)  # local name -> dotted origin


def _is_type_checking_test(t: ast.expr) -> bool:
    return (isinstance(t, ast.Name) and t.id == "TYPE_CHECKING") or (
        isinstance(t, ast.Attribute) and t.attr == "TYPE_CHECKING"
    )


def _bind_targets(t: ast.AST) -> Iterator[str]:
    if isinstance(t, ast.Name):
        yield t.id
    elif isinstance(t, (ast.Tuple, ast.List)):
        for e in t.elts:
            yield from _bind_targets(e)
    elif isinstance(t, ast.Starred):
        yield from _bind_targets(t.value)


def stmt_bindings(s: ast.stmt) -> Iterator[Tuple[str, Optional[str]]]:
    """names bound by one (simple or header of compound) statement -> (name, origin)"""
    if isinstance(s, (ast.FunctionDef, ast.AsyncFunctionDef, ast.ClassDef)):
        yield s.name, None
    elif isinstance(s, ast.Import):
        for a in s.names:
            if a.asname:
                yield a.asname, a.name
            else:
                yield a.name.split(".")[0], a.name.split(".")[0]
    elif isinstance(s, ast.ImportFrom):
        for a in s.names:
            yield (a.asname or a.name), f"{s.module or ''}.{a.name}"
    elif isinstance(s, ast.Assign):
        for t in s.targets:
            for n in _bind_targets(t):
                yield n, None
    elif isinstance(s, (ast.AnnAssign, ast.AugAssign)):
        if isinstance(s, ast.AnnAssign) and s.value is None:
            return
        for n in _bind_targets(s.target):
            yield n, None
    elif isinstance(s, (ast.For, ast.AsyncFor)):
        for n in _bind_targets(s.target):
            yield n, None
    elif isinstance(s, (ast.With, ast.AsyncWith)):
        for it in s.items:
            if it.optional_vars is not None:
                for n in _bind_targets(it.optional_vars):
                    yield n, None


def _collect_module_bindings(mod: Module, stmts: List[ast.stmt], under_tc: bool) -> None:
    for s in stmts:
        if isinstance(s, ast.If) and _is_type_checking_test(s.test):
            _collect_module_bindings(mod, s.body, True)
            _collect_module_bindings(mod, s.orelse, under_tc)
            continue
        for name, origin in stmt_bindings(s):
            (mod.typecheck_names if under_tc else mod.runtime_names).add(name)
            if origin and not under_tc:
                mod.import_alias[name] = origin
        # nested compound statements at module level
        for fld in ("body", "orelse", "finalbody"):
            sub = getattr(s, fld, None)
            if isinstance(sub, list) and not isinstance(s, (ast.FunctionDef, ast.ClassDef, ast.AsyncFunctionDef)):
                _collect_module_bindings(mod, [x for x in sub if isinstance(x, ast.stmt)], under_tc)
        if isinstance(s, ast.Try):
            for h in s.handlers:
                _collect_module_bindings(mod, h.body, under_tc)


def dotted(node: ast.AST) -> Optional[str]:
    """a.b.c -> 'a.b.c' (Names/Attributes only)"""
    parts = []
    while isinstance(node, ast.Attribute):
        parts.append(node.attr)
        node = node.value
    if isinstance(node, ast.Name):
        parts.append(node.id)
        return ".".join(reversed(parts))
    return None


class Repo:
    def __init__(self, root: Optional[pathlib.Path] = None):
        self.root = pathlib.Path(root) if root else repo_root()
        self.modules: Dict[str, Module] = {}
        self.classes: Dict[str, ClassInfo] = {}
        self.funcs: Dict[str, FuncInfo] = {}
        self.counts = {"modules": 0, "classes": 0, "functions": 0, "calls": 0}
        self._load()

    # ------------------------------------------------------------------ loading
    def _load(self) -> None:
        pkg = self.root / "photon_weave"
        if not pkg.is_dir():
            raise AnalysisError(f"package directory missing: {pkg}")
        files = sorted(pkg.rglob("*.py"))
        for extra in EXTRA_FILES:
            p = self.root / extra
            if p.exists():
                files.append(p)
        for p in files:
            rel = str(p.relative_to(self.root))
            src = p.read_text(encoding="utf-8")
            try:
                tree = ast.parse(src, filename=rel)
            except SyntaxError as e:
                raise AnalysisError(f"cannot parse {rel}: {e}")
            name = rel[:-3].replace("/", ".")
            if name.endswith(".__init__"):
                name = name[: -len(".__init__")]
            mod = Module(name, rel, p, src, tree, hashlib.sha256(src.encode()).hexdigest())
            mod.future_annotations = any(
                isinstance(s, ast.ImportFrom) and s.module == "__future__" and any(a.name == "annotations" for a in s.names)
                for s in tree.body
            )
            _collect_module_bindings(mod, tree.body, False)
            self.modules[name] = mod
        # star imports (photon_weave._math re-exports ops)
        for mod in self.modules.values():
            for s in mod.tree.body:
                if isinstance(s, ast.ImportFrom) and any(a.name == "*" for a in s.names):
                    src_name = self._resolve_relative(mod, s)
                    src_mod = self.modules.get(src_name)
                    if src_mod:
                        mod.runtime_names |= {n for n in src_mod.runtime_names if not n.startswith("_")}
        # private names are read under the names of the confirmed tree (canon.py): a consistent private rename is not a change
        from . import canon
        self.private_renames = canon.apply({m.name: m.tree for m in self.modules.values() if m.name.startswith("photon_weave")})
        for mod in self.modules.values():
            self._index_module(mod)
        from .inline import Inliner
        self.inliner = Inliner(self)
        self.inliner.run()
        self.counts["modules"] = len(self.modules)
        self.counts["classes"] = len(self.classes)
        self.counts["functions"] = len(self.funcs)
        self.counts["calls"] = sum(
            1 for m in self.modules.values() for n in ast.walk(m.tree) if isinstance(n, ast.Call)
        )

    def _resolve_relative(self, mod: Module, s: ast.ImportFrom) -> str:
        if s.level == 0:
            return s.module or ""
        base = mod.name.split(".")
        if not mod.relpath.endswith("__init__.py"):
            base = base[:-1]
        base = base[: len(base) - (s.level - 1)]
        return ".".join(base + ([s.module] if s.module else []))

    def _index_module(self, mod: Module) -> None:
        for s in mod.tree.body:
            if isinstance(s, ast.FunctionDef):
                fi = FuncInfo(s.name, mod, s, None, "function")
                # last definition wins, like Python
                self.funcs[f"{mod.name.split('.')[-1]}:{s.name}"] = fi
                self.funcs.setdefault(s.name, fi)
            elif isinstance(s, ast.ClassDef):
                ci = ClassInfo(
                    s.name, mod, s, [dotted(b) or "?" for b in s.bases],
                    is_dataclass=any("dataclass" in (ast.unparse(d)) for d in s.decorator_list),
                )
                for m in s.body:
                    if isinstance(m, ast.FunctionDef):
                        decos = [ast.unparse(d) for d in m.decorator_list]
                        if "property" in decos:
                            fi = FuncInfo(f"{s.name}.{m.name}", mod, m, ci, "getter")
                            ci.getters[m.name] = fi
                            self.funcs[f"{s.name}.{m.name}"] = fi
                        elif any(d.endswith(".setter") for d in decos):
                            fi = FuncInfo(f"{s.name}.{m.name}.setter", mod, m, ci, "setter")
                            ci.setters[m.name] = fi
                            self.funcs[f"{s.name}.{m.name}.setter"] = fi
                        else:
                            fi = FuncInfo(f"{s.name}.{m.name}", mod, m, ci, "method")
                            ci.methods[m.name] = fi
                            self.funcs[f"{s.name}.{m.name}"] = fi
                self.classes[s.name] = ci

    # ------------------------------------------------------------------ queries
    def func(self, qualname: str) -> FuncInfo:
        """anchor lookup: a vanished anchor is an analysis error, never a silent pass"""
        fi = self.funcs.get(qualname)
        if fi is None and ":" in qualname:
            # a module-level function that moved to another module of the package keeps its name: follow it when unique
            bare = qualname.split(":", 1)[1]
            cands = [f for k, f in self.funcs.items() if ":" in k and k.split(":", 1)[1] == bare and f.cls is None and f.module.name.startswith("photon_weave")]
            uniq = {id(f): f for f in cands}
            if len(uniq) == 1:
                fi = next(iter(uniq.values()))
        if fi is None and "." in qualname and ":" not in qualname:
            # a method that moved to a base class is found through the MRO
            c, m = qualname.split(".", 1)
            if c in self.classes and "." not in m:
                fi = self.resolve_method(c, m)
        if fi is None:
            raise AnalysisError(f"anchor vanished: {qualname}")
        return fi

    def cls(self, name: str) -> ClassInfo:
        ci = self.classes.get(name)
        if ci is None:
            raise AnalysisError(f"anchor vanished: class {name}")
        return ci

    def mro(self, cname: str) -> List[ClassInfo]:
        out, seen = [], set()
        todo = [cname]
        while todo:
            c = todo.pop(0)
            if c in seen or c not in self.classes:
                continue
            seen.add(c)
            ci = self.classes[c]
            out.append(ci)
            todo += [b.split(".")[-1] for b in ci.bases]
        return out

    def resolve_method(self, cname: str, meth: str) -> Optional[FuncInfo]:
        for ci in self.mro(cname):
            if meth in ci.methods:
                return ci.methods[meth]
        return None

    def resolve_property(self, cname: str, attr: str, setter: bool = False) -> Optional[FuncInfo]:
        for ci in self.mro(cname):
            d = ci.setters if setter else ci.getters
            if attr in d:
                return d[attr]
        return None

    def subclasses(self, cname: str) -> List[str]:
        return [c for c in self.classes if any(k.name == cname for k in self.mro(c))]

    def closure_src(self, fi: FuncInfo, depth: int = 2) -> str:
        """source text of a function together with the private helpers it calls (for presence checks)"""
        out = [ast.unparse(fi.orig or fi.node)]
        if depth > 0:
            seen = set()
            for x in ast.walk(fi.orig or fi.node):
                if isinstance(x, ast.Call):
                    h = self.inliner.resolve(x, fi) if hasattr(self, "inliner") else None
                    if h is not None and id(h) not in seen:
                        seen.add(id(h))
                        for f2 in self.all_functions():
                            if (f2.orig or f2.node) is h:
                                out.append(self.closure_src(f2, depth - 1))
        return "\n".join(out)

    def all_functions(self) -> List[FuncInfo]:
        seen, out = set(), []
        for fi in self.funcs.values():
            if id(fi) not in seen:
                seen.add(id(fi))
                out.append(fi)
        return out

    def scan_functions(self) -> List[FuncInfo]:
        """all functions except new private helpers that were inlined at every call site (analysed in context there)"""
        ab = getattr(self, "absorbed", set())
        return [fi for fi in self.all_functions() if fi.qualname not in ab]

    def digests(self, relpaths: Optional[List[str]] = None) -> Dict[str, str]:
        return {m.relpath: m.sha256[:16] for m in self.modules.values() if relpaths is None or m.relpath in relpaths}


BUILTINS = set(dir(builtins))


# ---------------------------------------------------------------------- generic helpers
def walk_no_nested(node: ast.AST) -> Iterator[ast.AST]:
    """ast.walk that does not descend into nested function/class/lambda bodies"""
    todo = list(ast.iter_child_nodes(node))
    while todo:
        n = todo.pop()
        yield n
        if isinstance(n, (ast.FunctionDef, ast.AsyncFunctionDef, ast.ClassDef, ast.Lambda)):
            continue
        todo.extend(ast.iter_child_nodes(n))


NP_PREFIXES = ("jnp.", "np.", "jax.numpy.", "numpy.", "onp.")


def np_name(node: ast.AST) -> Optional[str]:
    """'conj' for jnp.conj / np.conj / numpy.conj …; 'linalg.norm' for jnp.linalg.norm"""
    d = dotted(node)
    if not d:
        return None
    for p in NP_PREFIXES:
        if d.startswith(p):
            return d[len(p):]
    return None


def call_np(node: ast.AST) -> Optional[str]:
    if isinstance(node, ast.Call):
        return np_name(node.func)
    return None


def method_call(node: ast.AST) -> Optional[Tuple[ast.expr, str]]:
    """x.meth(...) -> (x, 'meth')"""
    if isinstance(node, ast.Call) and isinstance(node.func, ast.Attribute):
        return node.func.value, node.func.attr
    return None


def src(node: ast.AST) -> str:
    try:
        return ast.unparse(node)
    except Exception:  # pragma: no cover
        return "<?>"


def single_defs(fn: ast.AST) -> Dict[str, ast.expr]:
    """local names bound exactly once in `fn` by a plain `name = <expr>` (no other binding form): name -> expr.
    Used to read a test through its named sub-expressions (`count = len(states)` … `count > 2`)."""
    seen: Dict[str, int] = {}
    val: Dict[str, ast.expr] = {}
    for n in walk_no_nested(fn):
        if isinstance(n, ast.Name) and isinstance(n.ctx, (ast.Store, ast.Del)):
            seen[n.id] = seen.get(n.id, 0) + 1
        if isinstance(n, ast.Assign) and len(n.targets) == 1 and isinstance(n.targets[0], ast.Name):
            val[n.targets[0].id] = n.value
        elif isinstance(n, ast.Assign) and len(n.targets) == 1 and isinstance(n.targets[0], ast.Tuple) and isinstance(n.value, ast.Tuple) \
                and len(n.targets[0].elts) == len(n.value.elts):
            for t, v in zip(n.targets[0].elts, n.value.elts):
                if isinstance(t, ast.Name):
                    val[t.id] = v
    args = getattr(fn, "args", None)
    params = {a.arg for a in (args.posonlyargs + args.args + args.kwonlyargs)} if args else set()
    return {k: v for k, v in val.items() if seen.get(k) == 1 and k not in params}


def expand_src(fn: ast.AST, node: ast.AST, depth: int = 3) -> str:
    """source of `node` with once-bound local names replaced by their defining expressions"""
    return src(expand_ast(fn, node, depth))


def expand_ast(fn: ast.AST, node: ast.AST, depth: int = 3) -> ast.AST:
    """a copy of `node` with once-bound local names replaced by their defining expressions"""
    defs = single_defs(fn)

    class _S(ast.NodeTransformer):
        def visit_Name(self, n):
            if isinstance(n.ctx, ast.Load) and n.id in defs:
                return copy.deepcopy(defs[n.id])
            return n
    cur = copy.deepcopy(node)
    for _ in range(depth):
        new = _S().visit(cur)
        cur = new
    return cur
