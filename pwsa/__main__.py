"""CLI:  python -m pwsa <Cnn|all> [--tier quick|thorough] [--replay <path>] [--list]

exit 0 – every obligation holds or deviates only in listed known findings
exit 1 – unlisted violation(s):  VIOLATION property=<id> replay=<path>
exit 2 – ANALYSIS-ERROR / ANALYSIS-INCOMPLETE (parse failure, vanished anchor, floor not met)
"""
from __future__ import annotations

import argparse
import json
import os
import sys
import time
import traceback

from .model import AnalysisError, Repo
from .props import PROPS, run_property


def main(argv=None) -> int:
    ap = argparse.ArgumentParser(prog="check")
    ap.add_argument("prop")
    ap.add_argument("--tier", default=os.environ.get("VERIF_TIER", "quick"), choices=["quick", "thorough"])
    ap.add_argument("--replay")
    ap.add_argument("--verbose", "-v", action="store_true")
    args = ap.parse_args(argv)
    seed = int(os.environ.get("VERIF_SEED", "0") or 0)
    try:
        if args.replay:
            from .props import replay
            return replay(args.replay)
        repo = Repo()
        ids = sorted(PROPS) if args.prop == "all" else [args.prop]
        rc = 0
        for pid in ids:
            if pid not in PROPS:
                print(f"ANALYSIS-ERROR unknown property {pid}")
                return 2
            r = run_property(repo, pid, args.tier, seed, verbose=args.verbose)
            rc = max(rc, r)
        return rc
    except AnalysisError as e:
        print(f"ANALYSIS-ERROR {e}")
        return 2
    except Exception:  # tracebacks must not look like violations
        traceback.print_exc()
        print("ANALYSIS-ERROR internal error in the checker (see traceback)")
        return 2


if __name__ == "__main__":
    sys.exit(main())
