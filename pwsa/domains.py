"""E6: the small abstract domains interpreted over the CFG (DESIGN §2.5).

* index kind of a BaseState receiver: subset of {'none','int','tuple'}
* representation level of a receiver expression: subset of {0,1,2} (Label, Vector, Matrix)
* primitive classification of array expressions (CONJ, ABS2, NORM2, TRACE …)
"""
from __future__ import annotations

import ast
from typing import Dict, FrozenSet, Iterable, List, Optional, Tuple

from .cfg import Node, refine, header_exprs
from .model import call_np, dotted, method_call, np_name, src, walk_no_nested

LEVELS = {"Label": 0, "Vector": 1, "Matrix": 2}
ALL_LEVELS: FrozenSet[int] = frozenset({0, 1, 2})
ALL_KINDS: FrozenSet[str] = frozenset({"none", "int", "tuple"})


# ------------------------------------------------------------------ level domain
def level_const(e: ast.AST) -> Optional[int]:
    """ExpansionLevel.Vector -> 1"""
    if isinstance(e, ast.Attribute) and e.attr in LEVELS:
        d = dotted(e.value)
        if d and d.split(".")[-1] == "ExpansionLevel":
            return LEVELS[e.attr]
    return None


def level_receiver(e: ast.AST) -> Optional[str]:
    """X.expansion_level -> 'X' (source text of X)"""
    if isinstance(e, ast.Attribute) and e.attr in ("expansion_level", "_expansion_level"):
        return src(e.value)
    return None


_CMP = {
    ast.Eq: lambda a, b: a == b, ast.Is: lambda a, b: a == b,
    ast.NotEq: lambda a, b: a != b, ast.IsNot: lambda a, b: a != b,
    ast.Lt: lambda a, b: a < b, ast.LtE: lambda a, b: a <= b,
    ast.Gt: lambda a, b: a > b, ast.GtE: lambda a, b: a >= b,
}
_FLIP = {ast.Lt: ast.Gt, ast.LtE: ast.GtE, ast.Gt: ast.Lt, ast.GtE: ast.LtE,
         ast.Eq: ast.Eq, ast.NotEq: ast.NotEq, ast.Is: ast.Is, ast.IsNot: ast.IsNot}


def level_atom(e: ast.expr) -> Optional[Tuple[str, FrozenSet[int]]]:
    """`X.expansion_level <op> ExpansionLevel.L`  ->  (X, levels for which the test is true)"""
    if isinstance(e, ast.Compare) and len(e.ops) == 1:
        l, op, r = e.left, e.ops[0], e.comparators[0]
        rx, c = level_receiver(l), level_const(r)
        opt = type(op)
        if rx is None or c is None:
            rx, c = level_receiver(r), level_const(l)
            opt = _FLIP.get(type(op))
        if rx is not None and c is not None and opt in _CMP:
            return rx, frozenset(v for v in ALL_LEVELS if _CMP[opt](v, c))
    return None


LEVEL_NEUTRAL_METHODS = {
    "trace_out", "resize", "resize_fock", "reorder", "update_all_indices", "remove_empty_product_states",
    "extract", "set_index", "compute_dimensions", "reshape", "flatten", "items", "append", "extend",
    "remove", "index", "get", "keys", "values", "update_composite_envelope_pointers", "set_composite_envelope_id",
}


class LevelTracker:
    """transfer function for a dict receiver->levelset, stored in states as a sorted tuple"""

    def __init__(self, receivers: Iterable[str], init: Optional[Dict[str, FrozenSet[int]]] = None,
                 expand_result: Optional[Dict[str, FrozenSet[int]]] = None):
        self.receivers = sorted(set(receivers))
        self.init = tuple((r, (init or {}).get(r, ALL_LEVELS)) for r in self.receivers)
        # post-condition of X.expand() per receiver, when the callee is not the one-step promotion
        self.expand_result = expand_result or {}

    @staticmethod
    def get(state: tuple, r: str) -> FrozenSet[int]:
        for k, v in state:
            if k == r:
                return v
        return ALL_LEVELS

    @staticmethod
    def set(state: tuple, r: str, v: FrozenSet[int]) -> tuple:
        return tuple((k, (v if k == r else old)) for k, old in state)

    def atom(self, e: ast.expr, truth: bool, state: tuple) -> List[tuple]:
        a = level_atom(e)
        if a is None:
            return [state]
        rx, true_set = a
        if rx not in self.receivers:
            return [state]
        cur = self.get(state, rx)
        new = cur & (true_set if truth else (ALL_LEVELS - true_set))
        if not new:
            return []
        return [self.set(state, rx, new)]

    def exec_node(self, node: Node, state: tuple) -> tuple:
        """effect of executing the node's own expressions (before the edge is chosen)"""
        if node.ast is None or node.kind in ("test", "assert", "match", "case"):
            # calls inside tests may still change levels (rare): handled below for completeness
            exprs = header_exprs(node)
        else:
            exprs = header_exprs(node)
        for e in exprs:
            state = self._effects(e, state)
        return state

    def _effects(self, e: ast.AST, state: tuple) -> tuple:
        # assignments X.expansion_level = ExpansionLevel.L
        if isinstance(e, (ast.Assign, ast.AnnAssign, ast.AugAssign)):
            targets = e.targets if isinstance(e, ast.Assign) else [e.target]
            val = e.value
            if val is not None:
                state = self._calls(val, state)
            for t in targets:
                for tt in (t.elts if isinstance(t, ast.Tuple) else [t]):
                    rx = level_receiver(tt)
                    if rx is not None:
                        c = level_const(val) if val is not None else None
                        if rx in self.receivers:
                            state = self.set(state, rx, frozenset({c}) if c is not None else ALL_LEVELS)
                        # Envelope setter propagates to members; ProductState loops are explicit
                        for r in self.receivers:
                            if r.startswith(rx + ".") and r.count(".") == rx.count(".") + 1:
                                state = self.set(state, r, frozenset({c}) if c is not None else ALL_LEVELS)
                    elif isinstance(tt, ast.Name) and tt.id in self.receivers:
                        state = self.set(state, tt.id, ALL_LEVELS)
            return state
        return self._calls(e, state)

    def _calls(self, e: ast.AST, state: tuple) -> tuple:
        nodes = [e] + list(walk_no_nested(e))
        for n in nodes:
            mc = method_call(n)
            if mc is None:
                continue
            recv, meth = mc
            rx = src(recv)
            affected = [r for r in self.receivers if r == rx]
            if meth == "expand":
                for r in affected:
                    if r in self.expand_result:
                        state = self.set(state, r, self.expand_result[r])
                    else:
                        cur = self.get(state, r)
                        state = self.set(state, r, frozenset(min(v + 1, 2) for v in cur))
                # expanding a container expands what it holds: members become unknown-but-not-lower
                for r in self.receivers:
                    if r != rx and (r.startswith(rx + ".") or rx.startswith(r + ".")):
                        cur = self.get(state, r)
                        lo = min(cur)
                        state = self.set(state, r, frozenset(v for v in ALL_LEVELS if v >= lo))
            elif meth == "contract":
                for r in self.receivers:
                    if r == rx or r.startswith(rx + ".") or rx.startswith(r + "."):
                        cur = self.get(state, r)
                        hi = max(cur)
                        state = self.set(state, r, frozenset(v for v in ALL_LEVELS if v <= hi))
            elif meth in LEVEL_NEUTRAL_METHODS or meth.startswith("_num_quanta"):
                continue
            else:
                for r in self.receivers:
                    if r == rx or r.startswith(rx + "."):
                        state = self.set(state, r, ALL_LEVELS)
        return state

    def transfer(self, src_node: Node, label, dst: Node, state: tuple) -> List[tuple]:
        if src_node.kind in ("test", "assert"):
            st = self.exec_node(src_node, state)
            if label in ("T", "F"):
                return refine(src_node.ast, label == "T", st, self.atom)
            return [st]
        if src_node.kind == "case":
            # match X.expansion_level: case ExpansionLevel.L
            m = src_node.stmt
            rx = level_receiver(m.subject) if isinstance(m, ast.Match) else None
            pat = src_node.ast.pattern
            c = None
            if isinstance(pat, ast.MatchValue):
                c = level_const(pat.value)
            if rx in self.receivers and c is not None:
                cur = self.get(state, rx)
                if label == "case":
                    new = cur & {c}
                else:
                    new = cur - {c}
                if not new:
                    return []
                return [self.set(state, rx, frozenset(new))]
            return [state]
        return [self.exec_node(src_node, state)]


# ------------------------------------------------------------------ index-kind domain
def kind_atom(e: ast.expr, recv: str = "self") -> Optional[FrozenSet[str]]:
    """kinds of `recv.index` for which the atomic test `e` is true, or None if not about it"""
    def is_index(x):
        return isinstance(x, ast.Attribute) and x.attr in ("index", "_index") and src(x.value) == recv

    if isinstance(e, ast.Call) and isinstance(e.func, ast.Name) and e.func.id == "isinstance" and len(e.args) == 2:
        if is_index(e.args[0]):
            t = e.args[1]
            names = [dotted(x) for x in (t.elts if isinstance(t, ast.Tuple) else [t])]
            out = set()
            for n in names:
                if n == "int":
                    out.add("int")
                elif n in ("tuple", "list", "Tuple", "List"):
                    out.add("tuple")
                else:
                    return None
            return frozenset(out)
    if isinstance(e, ast.Compare) and len(e.ops) == 1 and is_index(e.left):
        r = e.comparators[0]
        if isinstance(r, ast.Constant) and r.value is None:
            if isinstance(e.ops[0], (ast.Is, ast.Eq)):
                return frozenset({"none"})
            if isinstance(e.ops[0], (ast.IsNot, ast.NotEq)):
                return frozenset({"int", "tuple"})
    return None


# ------------------------------------------------------------------ primitive classification
CONJ_FUNCS = {"conj", "conjugate"}


def is_conj(e: ast.AST) -> Optional[ast.AST]:
    """CONJ(x) -> x"""
    n = call_np(e)
    if n in CONJ_FUNCS and e.args:
        return e.args[0]
    mc = method_call(e)
    if mc and mc[1] in CONJ_FUNCS and not e.args:
        return mc[0]
    return None


def strip_T(e: ast.AST) -> ast.AST:
    """x.T / x.transpose() / jnp.transpose(x) -> x"""
    if isinstance(e, ast.Attribute) and e.attr in ("T", "mT"):
        return e.value
    mc = method_call(e)
    if mc and mc[1] == "transpose" and not e.args:
        return mc[0]
    if call_np(e) == "transpose" and len(e.args) == 1:
        return e.args[0]
    return e


def is_dagger(e: ast.AST) -> Optional[ast.AST]:
    """conj(x.T) / conj(x).T / x.conj().T / x.T.conj() -> x"""
    c = is_conj(e)
    if c is not None:
        inner = strip_T(c)
        if inner is not c:
            return inner
        return None
    t = strip_T(e)
    if t is not e:
        c = is_conj(t)
        if c is not None:
            return c
    return None


SHAPE_NEUTRAL_METHODS = {"reshape", "flatten", "ravel", "astype", "copy", "squeeze"}
SHAPE_NEUTRAL_FUNCS = {"reshape", "ravel", "array", "asarray", "squeeze"}


def strip_shape(e: ast.AST) -> ast.AST:
    while True:
        mc = method_call(e)
        if mc and mc[1] in SHAPE_NEUTRAL_METHODS:
            e = mc[0]
            continue
        n = call_np(e)
        if n in SHAPE_NEUTRAL_FUNCS and e.args:
            e = e.args[0]
            continue
        return e


def is_abs(e: ast.AST) -> Optional[ast.AST]:
    if isinstance(e, ast.Call) and e.args:
        if call_np(e) in ("abs", "absolute"):
            return e.args[0]
        if isinstance(e.func, ast.Name) and e.func.id == "abs":
            return e.args[0]
    return None


def is_abs2(e: ast.AST) -> Optional[ast.AST]:
    """|x|^2 in its common spellings -> x"""
    if isinstance(e, ast.BinOp) and isinstance(e.op, ast.Pow) and isinstance(e.right, ast.Constant) and e.right.value == 2:
        a = is_abs(strip_shape(e.left))
        if a is not None:
            return a
    if call_np(e) == "square" and e.args:
        a = is_abs(strip_shape(e.args[0]))
        if a is not None:
            return a
    if call_np(e) == "power" and len(e.args) == 2 and isinstance(e.args[1], ast.Constant) and e.args[1].value == 2:
        a = is_abs(strip_shape(e.args[0]))
        if a is not None:
            return a
    # (x * conj(x)).real / real(x*conj(x))
    inner = None
    if isinstance(e, ast.Attribute) and e.attr == "real":
        inner = e.value
    elif call_np(e) == "real" and e.args:
        inner = e.args[0]
    if isinstance(inner, ast.BinOp) and isinstance(inner.op, ast.Mult):
        for a, b in ((inner.left, inner.right), (inner.right, inner.left)):
            c = is_conj(b)
            if c is not None and src(c) == src(a):
                return a
    return None


def is_norm2(e: ast.AST) -> Optional[ast.AST]:
    """2-norm / Frobenius norm of x -> x"""
    if call_np(e) == "linalg.norm" and e.args:
        # ord given explicitly other than 2/'fro' is something else
        for kw in e.keywords:
            if kw.arg == "ord" and not (isinstance(kw.value, ast.Constant) and kw.value.value in (2, "fro", None)):
                return None
        if len(e.args) > 1 and not (isinstance(e.args[1], ast.Constant) and e.args[1].value in (2, "fro", None)):
            return None
        return e.args[0]
    if call_np(e) == "sqrt" and e.args:
        s = e.args[0]
        if call_np(s) == "sum" and s.args:
            a = is_abs2(s.args[0])
            if a is not None:
                return a
        if call_np(s) in ("vdot",) and len(s.args) == 2 and src(s.args[0]) == src(s.args[1]):
            return s.args[0]
    return None


def is_trace(e: ast.AST) -> Optional[ast.AST]:
    if call_np(e) == "trace" and e.args:
        return e.args[0]
    mc = method_call(e)
    if mc and mc[1] == "trace":
        return mc[0]
    if call_np(e) == "einsum" and len(e.args) == 2 and isinstance(e.args[0], ast.Constant):
        s = str(e.args[0].value).replace(" ", "")
        if "->" in s:
            l, r = s.split("->")
            if r == "" and len(l) == 2 and l[0] == l[1]:
                return e.args[1]
        elif len(s) == 2 and s[0] == s[1]:
            return e.args[1]
    if call_np(e) == "sum" and e.args and call_np(e.args[0]) in ("diag", "diagonal"):
        return e.args[0].args[0]
    return None


def strip_real(e: ast.AST) -> ast.AST:
    if isinstance(e, ast.Attribute) and e.attr == "real":
        return e.value
    if call_np(e) == "real" and e.args:
        return e.args[0]
    return e
