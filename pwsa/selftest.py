"""Self-test of the rules (thorough tier) – placeholder until the variant catalogue lands."""


def run_selftest(pid: str, seed: int) -> dict:
    return {"variants": 0, "failed": []}
