"""Self-test of the rules (thorough tier, DESIGN §6.5 / Appendix B).

Each *break* variant is a small edit, located by (function, code fragment) inside the function's
AST extent, applied to a scratch copy of the package under a temporary directory outside /repo
and /verif; the named rule must then report an unlisted violation in the named function.  Each
*neutral* variant (whole-tree ``ast.unparse`` round trip, idiom swaps, local renames) must leave
every verdict unchanged.  The self-test validates the checker; only a violation on the *current
tree* makes a check exit 1.  A variant whose anchor fragment no longer exists is counted as
stale, not as a failure.
"""
from __future__ import annotations

import ast
import os
import pathlib
import shutil
import tempfile
from concurrent.futures import ProcessPoolExecutor
from typing import Dict, List, Optional, Tuple

REPO = pathlib.Path(os.environ.get("PWSA_REPO", "/repo"))

# (id, properties served, expected rule, expected function ('' = any), edits)
# edit = (relpath, qualname or '', old fragment, new fragment)
S = "photon_weave/state/"
V = [
    # ---------------------------------------------------------------- RNB / ROUTE / FLAGS
    ("rnb-drop-local-import", ["C10"], "RNB", "Fock.resize", [(S + "fock.py", "Fock.resize", "        from photon_weave.state.envelope import Envelope\n", "")]),
    ("rnb-drop-import-kraus", ["C06"], "RNB", "BaseState.apply_kraus", [(S + "base_state.py", "BaseState.apply_kraus", "        from photon_weave.state.envelope import Envelope\n", "")]),
    ("route-drop-return", ["C01"], "ROUTE", "Polarization.apply_operation", [(S + "polarization.py", "Polarization.apply_operation", "            self.envelope.apply_operation(operation, self)\n            return\n", "            self.envelope.apply_operation(operation, self)\n")]),
    ("route-swap-guards", ["C01"], "ROUTE", "Fock.apply_operation", [(S + "fock.py", "Fock.apply_operation", "if isinstance(self.index, int):", "if isinstance(self.index, tuple):"), (S + "fock.py", "Fock.apply_operation", "elif isinstance(self.index, tuple):", "elif isinstance(self.index, int):")]),
    ("route-kraus-no-dispatch", ["C06"], "ROUTE", "BaseState.apply_kraus", [(S + "base_state.py", "BaseState.apply_kraus", "            self.envelope.apply_kraus(operators, self)\n            return\n", "            pass\n")]),
    ("route-customstate-fallthrough", ["C06", "C17"], "ROUTE", "CustomState.apply_kraus", [(S + "custom_state.py", "CustomState.apply_kraus", "            self.composite_envelope.apply_kraus(operators, self)\n            return\n", "            self.composite_envelope.apply_kraus(operators, self)\n")]),
    ("route-measure-wrong-container", ["C04", "C05"], "ROUTE", "Polarization.measure", [(S + "polarization.py", "Polarization.measure", "            return self.envelope.measure(\n", "            return self.composite_envelope.measure(\n")]),
    ("flags-drop-destructive", ["C05"], "FLAGS", "CompositeEnvelope.measure", [(S + "composite_envelope.py", "CompositeEnvelope.measure", "                *ps_states,\n                separate_measurement=separate_measurement,\n                destructive=destructive,\n", "                *ps_states,\n                separate_measurement=separate_measurement,\n")]),
    ("flags-drop-both-fock", ["C05"], "FLAGS", "Fock.measure", [(S + "fock.py", "Fock.measure", "            return self.envelope.measure(\n                self, separate_measurement=separate_measurement, destructive=destructive\n            )", "            return self.envelope.measure(self)")]),
    ("flags-povm-drop", ["C09"], "FLAGS", "CompositeEnvelope.measure_POVM", [(S + "composite_envelope.py", "CompositeEnvelope.measure_POVM", "ps.measure_POVM(operators, *states, destructive=destructive)", "ps.measure_POVM(operators, *states)")]),
    ("flags-invert", ["C09"], "FLAGS", "Envelope.measure_POVM", [(S + "envelope.py", "Envelope.measure_POVM", "outcome = self.fock.measure_POVM(operators, destructive=destructive)", "outcome = self.fock.measure_POVM(operators, destructive=not destructive)")]),
    # ---------------------------------------------------------------- SAMP
    ("samp-hoist-key", ["C14"], "SAMP-a", "ProductState.measure", [(S + "composite_envelope.py", "ProductState.measure", "        remaining_states = [s for s in self.state_objs]\n", "        remaining_states = [s for s in self.state_objs]\n        key = C.random_key\n"), (S + "composite_envelope.py", "ProductState.measure", "                # Decide on output\n                key = C.random_key\n", "                # Decide on output\n"), (S + "composite_envelope.py", "ProductState.measure", "                # Decide on outcome\n                key = C.random_key\n", "                # Decide on outcome\n")]),
    ("samp-reuse-key", ["C14"], "SAMP-a", "Envelope.measure", [(S + "envelope.py", "Envelope.measure", "                    outcomes[self.polarization] = choice\n\n                    # Construct post measurement state\n                    post_measurement = jnp.take(ps, choice, self.polarization.index)", "                    outcomes[self.polarization] = choice\n                    post_measurement = jnp.take(ps, choice, self.polarization.index)"), (S + "envelope.py", "Envelope.measure", "                        jnp.abs(jnp.sum(ps, axis=self.fock.index)).flatten() ** 2\n                    )\n                    key = C.random_key\n", "                        jnp.abs(jnp.sum(ps, axis=self.fock.index)).flatten() ** 2\n                    )\n")]),
    ("samp-literal-key", ["C14"], "SAMP-a", "Fock.measure", [(S + "fock.py", "Fock.measure", "                probs = probs / jnp.sum(probs)\n                key = C.random_key\n", "                probs = probs / jnp.sum(probs)\n                key = jax.random.PRNGKey(0)\n")]),
    ("samp-getter-no-advance", ["C14"], "SAMP-b", "Config.random_key", [("photon_weave/photon_weave.py", "Config.random_key", "        key, self._key = jax.random.split(self._key)\n        return key", "        key, _ = jax.random.split(self._key)\n        return key")]),
    ("samp-getter-returns-stored", ["C14"], "SAMP-b", "Config.random_key", [("photon_weave/photon_weave.py", "Config.random_key", "        return key", "        return self._key")]),
    ("samp-init-unguarded", ["C14"], "SAMP-b", "Config.__init__", [("photon_weave/photon_weave.py", "Config.__init__", "        if not hasattr(self, \"_initialized\"):", "        if True:")]),
    ("samp-set-seed-folds", ["C14"], "SAMP-b", "Config.set_seed", [("photon_weave/photon_weave.py", "Config.set_seed", "        self._key = jax.random.PRNGKey(seed)", "        self._key = jax.random.fold_in(self._key, seed)")]),
    ("samp-set-order", ["C14"], "SAMP-c", "CompositeEnvelope.combine", [(S + "composite_envelope.py", "CompositeEnvelope.combine", "existing_product_states = list(dict.fromkeys(existing_product_states))", "existing_product_states = list(set(existing_product_states))")]),
    ("samp-e-no-square", ["C04"], "SAMP-e", "Fock.measure", [(S + "fock.py", "Fock.measure", "probs = jnp.abs(self.state.flatten()) ** 2", "probs = jnp.abs(self.state.flatten())")]),
    ("samp-e-sum-first", ["C04"], "SAMP-e", "ProductState.measure", [(S + "composite_envelope.py", "ProductState.measure", "projected_state = jnp.einsum(einsum, jnp.abs(ps) ** 2)", "projected_state = jnp.abs(jnp.einsum(einsum, ps)) ** 2")]),
    ("samp-e-matrix-no-diag", ["C04"], "SAMP-e", "CustomState.measure", [(S + "custom_state.py", "CustomState.measure", "probabilities = jnp.diag(self.state).real", "probabilities = jnp.sum(self.state, axis=1).real")]),
    ("samp-f-trace-m-rho", ["C09"], "SAMP-f", "ProductState.measure_POVM", [(S + "composite_envelope.py", "ProductState.measure_POVM", "prob_state = jnp.einsum(einsum, op, ps, jnp.conj(op))", "prob_state = jnp.einsum(ESC.apply_operator_vector(self.state_objs, list(states)), op, ps)")]),
    ("samp-f-own-state", ["C09"], "SAMP-f", "BaseState.measure_POVM", [(S + "base_state.py", "BaseState.measure_POVM", "jnp.matmul(op, jnp.matmul(self.state, jnp.conj(op.T)))", "jnp.matmul(op, self.state)")]),
    # ---------------------------------------------------------------- NORM / OUTER / TAG / SANDWICH / KRAUS
    ("norm-frobenius-fock", ["C01", "C07"], "NORM", "Fock.apply_operation", [(S + "fock.py", "Fock.apply_operation", "self.state = self.state / jnp.trace(self.state)", "self.state = self.state / jnp.linalg.norm(self.state)")]),
    ("norm-frobenius-product", ["C05", "C07"], "NORM", "ProductState.measure", [(S + "composite_envelope.py", "ProductState.measure", "self.state /= jnp.trace(self.state)", "self.state /= jnp.linalg.norm(self.state)")]),
    ("norm-trace-on-ket", ["C01", "C07"], "NORM", "CustomState.apply_operation", [(S + "custom_state.py", "CustomState.apply_operation", "            if operation.renormalize:\n                self.state = self.state / jnp.linalg.norm(self.state)", "            if operation.renormalize:\n                self.state = self.state / jnp.trace(self.state)")]),
    ("renorm-dropped", ["C01", "C07"], "RENORM", "Polarization.apply_operation", [(S + "polarization.py", "Polarization.apply_operation", "            if operation.renormalize:\n                self.state = self.state / jnp.linalg.norm(self.state)\n", "")]),
    # a *different* defect at a site that already carries a listed known finding must not be masked by it
    ("collapse-known-site-other-axis", ["C05"], "COLLAPSE", "Envelope.measure", [(S + "envelope.py", "Envelope.measure", "                        self.fock.state = jnp.einsum(\"ijk->ik\", ps)", "                        self.fock.state = jnp.einsum(\"ijk->jk\", ps)")]),
    ("flags-known-site-inverted", ["C05"], "FLAGS", "Envelope.measure", [(S + "envelope.py", "Envelope.measure", "                out = s.measure()", "                out = s.measure(destructive=not destructive)")]),
    ("zero-test-dropped", ["C07", "C17"], "ZERO", "Envelope.apply_operation", [(S + "envelope.py", "Envelope.apply_operation", "            if not jnp.any(jnp.abs(ps) > 0):\n                raise ValueError(\n                    \"The state is entirely composed of zeros, is |0⟩ attempted \"\n                    \"to be annihilated?\"\n                )\n", "")]),
    ("outer-drop-conj-fock", ["C08"], "OUTER", "Fock.expand", [(S + "fock.py", "Fock.expand", "self.state.flatten(), jnp.conj(self.state.flatten())", "self.state.flatten(), self.state.flatten()")]),
    ("outer-drop-conj-envelope", ["C08"], "OUTER", "Envelope.expand", [(S + "envelope.py", "Envelope.expand", "jnp.dot(self.state, jnp.conj(self.state.T))", "jnp.dot(self.state, self.state.T)")]),
    ("outer-conj-wrong-factor", ["C08"], "OUTER", "ProductState.expand", [(S + "composite_envelope.py", "ProductState.expand", "jnp.outer(self.state.flatten(), jnp.conj(self.state.flatten()))", "jnp.outer(jnp.conj(self.state.flatten()), self.state.flatten())")]),
    ("tag-members-dropped", ["C07"], "TAG", "ProductState.expand", [(S + "composite_envelope.py", "ProductState.expand", "            for state in self.state_objs:\n                state.expansion_level = ExpansionLevel.Matrix\n", "")]),
    ("tag-label-unconditional", ["C07", "C08"], "TAG", "Fock.contract", [(S + "fock.py", "Fock.contract", "            if ones.size == 1:\n                self.state = int(ones[0])\n                self.expansion_level = ExpansionLevel.Label", "            if ones.size == 1:\n                self.state = int(ones[0])\n            self.expansion_level = ExpansionLevel.Label")]),
    ("purity-inverted", ["C08"], "PURITY", "Envelope.contract", [(S + "envelope.py", "Envelope.contract", "if jnp.abs(state_trace - 1) < tol:", "if jnp.abs(state_trace - 1) >= tol:")]),
    ("purity-dropped", ["C08", "C06"], "PURITY", "ProductState.contract", [(S + "composite_envelope.py", "ProductState.contract", "            if jnp.abs(jnp.trace(jnp.matmul(self.state, self.state)) - 1) >= tol:\n                return\n", "")]),
    ("contract-only-write", ["C08"], "CONTRACT-ONLY", "Fock.apply_operation", [(S + "fock.py", "Fock.apply_operation", "        if C.contractions:\n            self.contract()", "        if C.contractions:\n            self.contract()\n            self.state = self.state")]),
    ("sandwich-drop-conj", ["C01"], "SANDWICH", "Envelope.apply_operation", [(S + "envelope.py", "Envelope.apply_operation", "\"ij,jklm,nk->inlm\", operation.operator, ps, jnp.conj(operation.operator)", "\"ij,jklm,nk->inlm\", operation.operator, ps, operation.operator")]),
    ("sandwich-swap-letters", ["C01"], "SANDWICH-LIT", "Fock.apply_operation", [(S + "fock.py", "Fock.apply_operation", "\"ca,ab,db->cd\"", "\"ca,ab,bd->cd\"")]),
    ("sandwich-povm-literal", ["C09"], "SANDWICH-LIT", "Envelope.measure_POVM", [(S + "envelope.py", "Envelope.measure_POVM", "einsum = \"eafc,abcd,gbhd->egfh\"", "einsum = \"eacf,abcd,gbhd->egfh\"")]),
    ("sandwich-kraus-dagger", ["C06"], "SANDWICH", "apply_kraus", [("photon_weave/_math/ops.py", "ops:apply_kraus", "K @ density_matrix @ jnp.conjugate(K).T", "K @ density_matrix @ K.T")]),
    ("kraus-sum-overwrite", ["C06"], "KRAUS-SUM", "ProductState.apply_kraus", [(S + "composite_envelope.py", "ProductState.apply_kraus", "resulting_state += jnp.einsum(einsum, op, ps, jnp.conj(op))", "resulting_state = jnp.einsum(einsum, op, ps, jnp.conj(op))")]),
    ("kraus-level-no-promotion", ["C06"], "KRAUS-LEVEL", "ProductState.apply_kraus", [(S + "composite_envelope.py", "ProductState.apply_kraus", "        # A channel can turn a pure state into a mixture\n        self.expand()\n", "")]),
    ("kraus-valid-no-identity", ["C06", "C17"], "KRAUS-VALID", "CustomState.apply_kraus", [(S + "custom_state.py", "CustomState.apply_kraus", "        if not kraus_identity_check(operators):\n            raise ValueError(\"Kraus operators do not sum to the identity\")\n", "")]),
    ("kraus-valid-after-update", ["C06", "C17"], "KRAUS-VALID", "BaseState.apply_kraus", [(S + "base_state.py", "BaseState.apply_kraus", "        for op in operators:\n            if not op.shape == (self.dimensions, self.dimensions):\n                raise ValueError(\"Operator dimensions do not match state dimensions\")\n", "")]),
    # ---------------------------------------------------------------- VBC / BOOK / IDENT / BLOCK
    ("vbc-commit-before-zero-test", ["C17"], "VBC", "Polarization.apply_operation", [(S + "polarization.py", "Polarization.apply_operation", "            new_state = jnp.einsum(\"ij,jk->ik\", operation.operator, self.state)\n            if not jnp.any(jnp.abs(new_state) > 0):", "            new_state = jnp.einsum(\"ij,jk->ik\", operation.operator, self.state)\n            self.state = new_state\n            if not jnp.any(jnp.abs(new_state) > 0):")]),
    ("vbc-envelope-commit-first", ["C17"], "VBC", "Envelope.apply_operation", [(S + "envelope.py", "Envelope.apply_operation", "            ps = jnp.einsum(\"ij,jkl->ikl\", operation.operator, ps)\n", "            ps = jnp.einsum(\"ij,jkl->ikl\", operation.operator, ps)\n            self.state = ps.reshape((-1, 1))\n")]),
    ("vbc-resize-label", ["C10", "C17"], "VBC", "Fock.resize", [(S + "fock.py", "Fock.resize", "                    self.dimensions = new_dimensions\n                    return True\n            elif self.expansion_level is ExpansionLevel.Vector:", "                    self.dimensions = new_dimensions\n            elif self.expansion_level is ExpansionLevel.Vector:")]),
    ("book-order-swap", ["C13"], "BOOK-order", "CompositeEnvelope.measure", [(S + "composite_envelope.py", "CompositeEnvelope.measure", "        self._containers[self.uid].remove_empty_product_states()\n        self._containers[self.uid].update_all_indices()", "        self._containers[self.uid].update_all_indices()\n        self._containers[self.uid].remove_empty_product_states()")]),
    ("book-no-refresh-combine", ["C13"], "BOOK-order", "CompositeEnvelope.combine", [(S + "composite_envelope.py", "CompositeEnvelope.combine", "        self.container.update_all_indices()", "        pass")]),
    ("book-merge-self", ["C13"], "BOOK-merge", "CompositeEnvelope.__init__", [(S + "composite_envelope.py", "CompositeEnvelope.__init__", "            elif not any(container is merged for merged in merged_containers):", "            else:")]),
    ("book-evict-custom", ["C05", "C13"], "BOOK-evict", "ProductState.measure", [(S + "composite_envelope.py", "ProductState.measure", "                if destructive and not isinstance(state, CustomState):\n                    state._set_measured()\n                else:\n                    if isinstance(state, Polarization):\n                        if outcomes[state] == 0:\n                            state.state = PolarizationLabel.H\n                        else:\n                            state.state = PolarizationLabel.V\n                    else:\n                        state.state = outcomes[state]\n                    state.index = None\n                    state.expansion_level = ExpansionLevel.Label\n                self.state_objs.remove(state)", "                if destructive:\n                    state._set_measured()\n                else:\n                    if isinstance(state, Polarization):\n                        if outcomes[state] == 0:\n                            state.state = PolarizationLabel.H\n                        else:\n                            state.state = PolarizationLabel.V\n                    else:\n                        state.state = outcomes[state]\n                    state.index = None\n                    state.expansion_level = ExpansionLevel.Label\n                self.state_objs.remove(state)")]),
    ("book-evict-index-kept", ["C05", "C13"], "BOOK-evict", "ProductState.measure", [(S + "composite_envelope.py", "ProductState.measure", "                        state.state = outcomes[state]\n                    state.index = None\n                    state.expansion_level = ExpansionLevel.Label\n\n                # Remove the mesaured state from the product state", "                        state.state = outcomes[state]\n                    state.expansion_level = ExpansionLevel.Label\n\n                # Remove the mesaured state from the product state")]),
    ("book-own-registry-iteration", ["C13"], "BOOK-own", "CompositeEnvelope.update_composite_envelope_pointers", [(S + "composite_envelope.py", "CompositeEnvelope.update_composite_envelope_pointers", "        for envelope in self.envelopes:\n            envelope.set_composite_envelope_id(self.uid)", "        for c in CompositeEnvelope._containers.values():\n            for envelope in c.envelopes:\n                envelope.set_composite_envelope_id(self.uid)")]),
    ("ident-is-to-in", ["C18"], "IDENT-site", "Envelope.measure_POVM", [(S + "envelope.py", "Envelope.measure_POVM", "if s is not self.polarization and s is not self.fock:", "if s not in [self.polarization, self.fock]:")]),
    ("ident-eq-compare", ["C18"], "IDENT-site", "Envelope.reorder", [(S + "envelope.py", "Envelope.reorder", "if states_list[0] is self.fock:", "if states_list[0] == self.fock:")]),
    ("block-all-spaces", ["C20", "C03"], "BLOCK", "CompositeEnvelope.apply_operation", [(S + "composite_envelope.py", "CompositeEnvelope.apply_operation", "            p for p in self.states if any(so in p.state_objs for so in states)\n        ]\n        ps = None\n        if len(product_states) > 1 or (", "            p for p in self.states\n        ]\n        ps = None\n        if len(product_states) > 1 or (")]),
    ("block-combine-everything", ["C20"], "BLOCK", "CompositeEnvelope.trace_out", [(S + "composite_envelope.py", "CompositeEnvelope.trace_out", "self.combine(*all_states)", "self.combine(*self.state_objs)")]),
    ("block-shortcut-removed", ["C20"], "BLOCK", "CompositeEnvelope.apply_kraus", [(S + "composite_envelope.py", "CompositeEnvelope.apply_kraus", "            if len(states) == 1:\n                states[0].apply_kraus(operators)\n                return\n            elif len(states) == 2:", "            if len(states) == 2:")]),
    ("block-expand-all", ["C20"], "BLOCK", "CompositeEnvelope.expand", [(S + "composite_envelope.py", "CompositeEnvelope.expand", "            p for p in self.states if any(so in p.state_objs for so in states)\n        ]\n        for p in product_states:\n            p.expand()", "            p for p in self.states if True\n        ]\n        for p in product_states:\n            p.expand()")]),
    # ---------------------------------------------------------------- PURE / INTERP / RESIZE
    ("pure-getter-cache", ["C15"], "PURE-b", "Operation.operator", [("photon_weave/operation/operation.py", "Operation.operator", "        self._operator = self._operation_type.compute_operator(", "        if self._operator is not None:\n            return self._operator\n        self._operator = self._operation_type.compute_operator(")]),
    ("pure-enum-write", ["C15"], "PURE-a", "FockOperationType.update", [("photon_weave/operation/fock_operation.py", "FockOperationType.update", "        return", "        self.required_params = list(kwargs)\n        return")]),
    ("pure-lru-cache", ["C15"], "PURE-c", "", [("photon_weave/operation/polarization_operation.py", "", "    def compute_operator(self, dimensions: List[int], **kwargs: Any) -> jnp.ndarray:", "    @functools.lru_cache\n    def compute_operator(self, dimensions: List[int], **kwargs: Any) -> jnp.ndarray:")]),
    ("pure-operator-before-dimensions", ["C15", "C10", "C01"], "PURE-b", "Fock.apply_operation", [(S + "fock.py", "Fock.apply_operation", "        operation.compute_dimensions(self._num_quanta, to)\n        self.resize(operation.dimensions[0])\n", "        self.resize(operation.dimensions[0])\n")]),
    ("pure-wrong-dimension-index", ["C03", "C10"], "PURE-b", "ProductState.apply_operation", [(S + "composite_envelope.py", "ProductState.apply_operation", "s.resize(operation._dimensions[i])", "s.resize(operation._dimensions[0])")]),
    ("alias-interp-inplace", ["C16"], "ALIAS-MUT", "interpreter", [("photon_weave/extra/expression_interpreter.py", "interpreter", "result = result * interpreter(arg, context, dimensions)", "result *= interpreter(arg, context, dimensions)")]),
    ("alias-kraus-inplace", ["C15"], "ALIAS-MUT", "Envelope.apply_kraus", [(S + "envelope.py", "Envelope.apply_kraus", "        dim = int(jnp.prod(jnp.array([s.dimensions for s in states])))\n        for op in operators:\n            if op.shape != (dim, dim):", "        dim = int(jnp.prod(jnp.array([s.dimensions for s in states])))\n        for op in operators:\n            op /= 1.0\n            if op.shape != (dim, dim):")]),
    ("interp-swap-kron", ["C16"], "INTERP", "interpreter", [("photon_weave/extra/expression_interpreter.py", "interpreter", "result = jnp.kron(result, interpreter(arg, context, dimensions))", "result = jnp.kron(interpreter(arg, context, dimensions), result)")]),
    ("interp-swap-sub", ["C16"], "INTERP", "interpreter", [("photon_weave/extra/expression_interpreter.py", "interpreter", "            result = interpreter(args[0], context, dimensions)\n            result = jnp.subtract(result, interpreter(args[1], context, dimensions))", "            result = interpreter(args[1], context, dimensions)\n            result = jnp.subtract(result, interpreter(args[0], context, dimensions))")]),
    ("interp-swap-div", ["C16"], "INTERP", "interpreter", [("photon_weave/extra/expression_interpreter.py", "interpreter", "            return interpreter(args[0], context, dimensions) / interpreter(\n                args[1], context, dimensions\n            )", "            return interpreter(args[1], context, dimensions) / interpreter(\n                args[0], context, dimensions\n            )")]),
    ("interp-return-none", ["C16"], "INTERP", "interpreter", [("photon_weave/extra/expression_interpreter.py", "interpreter", "    raise ValueError(\"Something went wrong in the expression interpreter!\")", "    return None")]),
    ("interp-drop-div", ["C16"], "INTERP", "interpreter", [("photon_weave/extra/expression_interpreter.py", "interpreter", "        elif op == \"div\":\n            return interpreter(args[0], context, dimensions) / interpreter(\n                args[1], context, dimensions\n            )\n", "")]),
    ("interp-skip-arg", ["C16"], "INTERP", "interpreter", [("photon_weave/extra/expression_interpreter.py", "interpreter", "            for arg in args[1:]:\n                result = jnp.add(result, interpreter(arg, context, dimensions))", "            for arg in args[2:]:\n                result = jnp.add(result, interpreter(arg, context, dimensions))")]),
    ("interp-wrong-op", ["C16"], "INTERP", "interpreter", [("photon_weave/extra/expression_interpreter.py", "interpreter", "result = result @ interpreter(arg, context, dimensions)", "result = result * interpreter(arg, context, dimensions)")]),
    ("resize-guard-off-by-one", ["C10"], "RESIZE", "Envelope.resize_fock", [(S + "envelope.py", "Envelope.resize_fock", "                num_quanta = num_quanta_vector(to)\n                if num_quanta >= new_dimensions:", "                num_quanta = num_quanta_vector(to)\n                if num_quanta > new_dimensions:")]),
    ("resize-guard-dropped", ["C10"], "RESIZE", "ProductState.resize_fock", [(S + "composite_envelope.py", "ProductState.resize_fock", "                num_quanta = num_quanta_vector(to)\n                if num_quanta >= new_dimensions:\n                    return False\n", "                num_quanta = num_quanta_vector(to)\n")]),
    ("resize-fock-vector-guard", ["C10"], "RESIZE", "Fock.resize", [(S + "fock.py", "Fock.resize", "num_quanta < new_dimensions:\n                    self.state = self.state[:new_dimensions]", "num_quanta < new_dimensions + 1:\n                    self.state = self.state[:new_dimensions]")]),
    ("resize-pad-edge", ["C10"], "RESIZE", "Fock.resize", [(S + "fock.py", "Fock.resize", "                        ((0, padding_rows), (0, 0)),\n                        mode=\"constant\",\n                        constant_values=0,", "                        ((0, padding_rows), (0, 0)),\n                        mode=\"edge\",")]),
    ("resize-dimension-without-array", ["C10"], "RESIZE", "Envelope.resize_fock", [(S + "envelope.py", "Envelope.resize_fock", "                ps = jnp.pad(ps, pad_config, mode=\"constant\", constant_values=0)\n                self.state = ps.reshape(-1, 1)\n                self.fock.dimensions = new_dimensions", "                ps = jnp.pad(ps, pad_config, mode=\"constant\", constant_values=0)\n                self.fock.dimensions = new_dimensions")]),
    # ---------------------------------------------------------------- ESC / MEASURE / PAIR / DISPATCH
    ("esccall-swap-args", ["C01", "C03"], "ESCCALL", "ProductState.apply_operation", [(S + "composite_envelope.py", "ProductState.apply_operation", "einsum = ESC.apply_operator_matrix(self.state_objs, list(states))", "einsum = ESC.apply_operator_matrix(list(states), self.state_objs)")]),
    ("esccall-operator-storage-shape", ["C01", "C03"], "ESCCALL", "ProductState.apply_operation", [(S + "composite_envelope.py", "ProductState.apply_operation", "            operator = operation.operator.reshape([s.dimensions for s in states] * 2)\n\n            # Generate the Einstein sum string\n", "            operator = operation.operator.reshape([s.dimensions for s in self.state_objs] * 2)\n\n            # Generate the Einstein sum string\n")]),
    ("esccall-no-reorder", ["C02"], "ESCCALL", "CompositeEnvelope.trace_out", [(S + "composite_envelope.py", "CompositeEnvelope.trace_out", "        self.reorder(*states)\n\n        # Reordering combines", "        # Reordering combines")]),
    ("escgen-dict-position", ["C01", "C03", "C06"], "ESCGEN", "apply_operator_vector", [("photon_weave/extra/einsum_constructor.py", "einsum_constructor:apply_operator_vector", "            einsum_list_list[2].append(einsum_dict[s][1])\n        else:\n            einsum_list_list[2].append(einsum_dict[s][0])", "            einsum_list_list[2].append(einsum_dict[s][0])\n        else:\n            einsum_list_list[2].append(einsum_dict[s][0])")]),
    ("escgen-storage-order", ["C01", "C03", "C06", "C09"], "ESCGEN", "apply_operator_matrix", [("photon_weave/extra/einsum_constructor.py", "einsum_constructor:apply_operator_matrix", "    for s in operator_objs:\n        einsum_list_list[0].append(einsum_dict[s][0])", "    for s in state_objs:\n        if s in operator_objs:\n            einsum_list_list[0].append(einsum_dict[s][0])")]),
    ("escgen-conj-side", ["C01", "C03", "C06", "C09"], "ESCGEN", "apply_operator_matrix", [("photon_weave/extra/einsum_constructor.py", "einsum_constructor:apply_operator_matrix", "    for s in operator_objs:\n        einsum_list_list[2].append(einsum_dict[s][1])", "    for s in operator_objs:\n        einsum_list_list[2].append(einsum_dict[s][0])")]),
    ("escgen-reorder-pass", ["C02"], "ESCGEN", "reorder_matrix", [("photon_weave/extra/einsum_constructor.py", "einsum_constructor:reorder_matrix", "            c = einsum_dict[s][i]", "            c = einsum_dict[s][0]")]),
    ("escgen-trace-shared", ["C02", "C09"], "ESCGEN", "trace_out_matrix", [("photon_weave/extra/einsum_constructor.py", "einsum_constructor:trace_out_matrix", "            einsum_dict[so].append(next(counter))\n    for _ in range(2):", "            einsum_dict[so].append(0)\n    for _ in range(2):")]),
    ("escgen-measure-no-trace", ["C04"], "ESCGEN", "measure_matrix", [("photon_weave/extra/einsum_constructor.py", "einsum_constructor:measure_matrix", "                c = einsum_dict[so][0]\n            einsum_list_list[0].append(c)", "                c = next(counter)\n            einsum_list_list[0].append(c)")]),
    ("measure-set-one-member", ["C05", "C04"], "MEASURE-SET", "Envelope.measure", [(S + "envelope.py", "Envelope.measure", "                    (separate_measurement and self.fock in states)\n                    or not separate_measurement\n                    or len(states) == 0\n                    or len(states) == 2\n                ):\n                    probabilities = (", "                    (separate_measurement and self.fock in states)\n                    or len(states) == 0\n                    or len(states) == 2\n                ):\n                    probabilities = (")]),
    ("collapse-no-renormalise", ["C05", "C07"], "COLLAPSE", "ProductState.measure", [(S + "composite_envelope.py", "ProductState.measure", "                self.state = ps.reshape(-1, 1)\n                self.state /= jnp.linalg.norm(self.state)", "                self.state = ps.reshape(-1, 1)")]),
    ("collapse-no-conditioning", ["C04", "C05"], "COLLAPSE", "ProductState.measure", [(S + "composite_envelope.py", "ProductState.measure", "                indices[remaining_states.index(state)] = outcomes[state]\n                ps = ps[tuple(indices)]", "                indices[remaining_states.index(state)] = outcomes[state]\n                ps = jnp.sum(ps, axis=remaining_states.index(state))")]),
    ("pair-kron-order", ["C02"], "PAIR", "Envelope.combine", [(S + "envelope.py", "Envelope.combine", "            self.state = jnp.kron(self.fock.state, self.polarization.state)\n            self.expansion_level = ExpansionLevel.Vector", "            self.state = jnp.kron(self.polarization.state, self.fock.state)\n            self.expansion_level = ExpansionLevel.Vector")]),
    ("pair-kron-left", ["C02"], "PAIR", "CompositeEnvelope.combine", [(S + "composite_envelope.py", "CompositeEnvelope.combine", "                    state_vector_or_matrix = jnp.kron(state_vector_or_matrix, so.state)\n                else:", "                    state_vector_or_matrix = jnp.kron(so.state, state_vector_or_matrix)\n                else:")]),
    ("pair-order-not-updated", ["C02"], "PAIR", "ProductState.reorder", [(S + "composite_envelope.py", "ProductState.reorder", "            self.state = state.reshape((new_dims, new_dims))\n            self.state_objs = list(ordered_states)", "            self.state = state.reshape((new_dims, new_dims))")]),
    ("pair-reorder-perm", ["C02"], "PAIR", "Envelope.reorder", [(S + "envelope.py", "Envelope.reorder", "tmp_matrix = jnp.transpose(tmp_matrix, (1, 0, 3, 2))", "tmp_matrix = jnp.transpose(tmp_matrix, (1, 0, 2, 3))")]),
    ("dispatch-swap-arms", ["C12"], "DISPATCH", "PolarizationOperationType.compute_operator", [("photon_weave/operation/polarization_operation.py", "PolarizationOperationType.compute_operator", "            case PolarizationOperationType.X:\n                return x_operator()", "            case PolarizationOperationType.X:\n                return z_operator()")]),
    ("dispatch-u3-args", ["C12"], "DISPATCH", "PolarizationOperationType.compute_operator", [("photon_weave/operation/polarization_operation.py", "PolarizationOperationType.compute_operator", "u3_operator(kwargs[\"phi\"], kwargs[\"theta\"], kwargs[\"omega\"])", "u3_operator(kwargs[\"theta\"], kwargs[\"phi\"], kwargs[\"omega\"])")]),
    ("dispatch-drop-arm", ["C12"], "DISPATCH", "FockOperationType.compute_operator", [("photon_weave/operation/fock_operation.py", "FockOperationType.compute_operator", "            case FockOperationType.Identity:\n                return jnp.identity(dimensions[0])\n", "")]),
    ("defs-cnot-entry", ["C12"], "DEFS", "controlled_not_operator", [("photon_weave/_math/ops.py", "ops:controlled_not_operator", "[[1, 0, 0, 0], [0, 1, 0, 0], [0, 0, 0, 1], [0, 0, 1, 0]]", "[[1, 0, 0, 0], [0, 1, 0, 0], [0, 0, 1, 0], [0, 0, 0, 1]]")]),
    ("defs-rx-sign", ["C12"], "DEFS", "rx_operator", [("photon_weave/_math/ops.py", "ops:rx_operator", "term_2 = 1j * jnp.sin(-theta / 2)", "term_2 = 1j * jnp.sin(theta / 2)")]),
    ("defs-u3-phase", ["C12"], "DEFS", "u3_operator", [("photon_weave/_math/ops.py", "ops:u3_operator", "jnp.exp(1j * (phi + omega)) * cos_term", "jnp.exp(1j * (phi - omega)) * cos_term")]),
    ("defs-t-gate", ["C12"], "DEFS", "t_operator", [("photon_weave/_math/ops.py", "ops:t_operator", "jnp.exp(1j * np.pi / 4)", "jnp.exp(1j * np.pi / 2)")]),
    ("defs-displacement", ["C12"], "DEFS", "displacement_operator", [("photon_weave/_math/ops.py", "ops:displacement_operator", "operator = alpha * create - jnp.conj(alpha) * destroy", "operator = alpha * create + jnp.conj(alpha) * destroy")]),
    ("defs-annihilation-offset", ["C12", "C11"], "DEFS", "annihilation_operator", [("photon_weave/_math/ops.py", "ops:annihilation_operator", "jnp.arange(1, cutoff, dtype=np.complex128)), 1)", "jnp.arange(1, cutoff, dtype=np.complex128)), -1)")]),
    ("defs-phase-sign", ["C11", "C12"], "DEFS", "phase_operator", [("photon_weave/_math/ops.py", "ops:phase_operator", "phases = jnp.exp(1j * indices * theta)", "phases = jnp.exp(1j * (indices + 1) * theta)")]),
    ("balance-two-creations", ["C11"], "BALANCE", "CompositeOperationType.compute_operator", [("photon_weave/operation/composite_operation.py", "CompositeOperationType.compute_operator", "operator = jnp.kron(a_dagger, b) + jnp.kron(a, b_dagger)", "operator = jnp.kron(a, b) + jnp.kron(a, b_dagger)")]),
    ("balance-non-hermitian", ["C11"], "BALANCE", "CompositeOperationType.compute_operator", [("photon_weave/operation/composite_operation.py", "CompositeOperationType.compute_operator", "operator = jnp.kron(a_dagger, b) + jnp.kron(a, b_dagger)", "operator = jnp.kron(a_dagger, b) - jnp.kron(a, b_dagger)")]),
    ("balance-cutoff", ["C11", "C10"], "BALANCE", "CompositeOperationType.compute_dimensions", [("photon_weave/operation/composite_operation.py", "CompositeOperationType.compute_dimensions", "dim = int(jnp.sum(jnp.array(num_quanta))) + 1", "dim = int(jnp.max(jnp.array(num_quanta))) + 1")]),
    ("balance-same-mode", ["C11"], "BALANCE", "CompositeOperationType.compute_operator", [("photon_weave/operation/composite_operation.py", "CompositeOperationType.compute_operator", "b = creation_operator(dimensions[1])", "b = creation_operator(dimensions[0])")]),
    # ---------------------------------------------------------------- LAYOUT / ENVAXIS / second-round rules
    ("apply-lit-transposed", ["C01"], "SANDWICH-LIT", "Envelope.apply_operation", [(S + "envelope.py", "Envelope.apply_operation", "\"ij,jkl->ikl\"", "\"ji,jkl->ikl\"")]),
    ("apply-lit-own-state", ["C01"], "SANDWICH-LIT", "CustomState.apply_operation", [(S + "custom_state.py", "CustomState.apply_operation", "\"ij,jk->ik\"", "\"ij,ik->jk\"")]),
    ("sandwich-lit-transposed-both", ["C01"], "SANDWICH-LIT", "Polarization.apply_operation", [(S + "polarization.py", "Polarization.apply_operation", "\"ca,ab,db->cd\"", "\"ac,ab,bd->cd\"")]),
    ("layout-missing-transpose-back", ["C01"], "LAYOUT", "Envelope.apply_operation", [(S + "envelope.py", "Envelope.apply_operation", "            ps = ps.transpose([0, 2, 1, 3])\n            ps = ps.reshape(self.dimensions, self.dimensions)", "            ps = ps.reshape(self.dimensions, self.dimensions)")]),
    ("layout-kraus-no-transpose", ["C06"], "LAYOUT", "Envelope.apply_kraus", [(S + "envelope.py", "Envelope.apply_kraus", "            self.state = resulting_state.transpose([0, 2, 1, 3]).reshape(", "            self.state = resulting_state.reshape(")]),
    ("layout-blocked-literal", ["C06"], "LAYOUT", "Envelope.apply_kraus", [(S + "envelope.py", "Envelope.apply_kraus", "            ps = self.state.reshape([*reshape_shape, *reshape_shape]).transpose(\n                [0, 2, 1, 3]\n            )\n            resulting_state = jnp.zeros_like(ps)", "            ps = self.state.reshape([*reshape_shape, *reshape_shape])\n            resulting_state = jnp.zeros_like(ps)")]),
    ("layout-self-inverse", ["C10"], "LAYOUT", "ProductState.resize_fock", [(S + "composite_envelope.py", "ProductState.resize_fock", "                ps = ps.transpose(inverse_pattern)\n                self.state = ps.reshape((dims, dims))", "                ps = ps.transpose(transpose_pattern)\n                self.state = ps.reshape((dims, dims))")]),
    ("layout-trace-literal", ["C04", "C05"], "LAYOUT", "Envelope.measure", [(S + "envelope.py", "Envelope.measure", "                            self.fock.state = jnp.einsum(\"abcb->ac\", ps)", "                            self.fock.state = jnp.einsum(\"abbc->ac\", ps)")]),
    ("envaxis-no-reorder", ["C01"], "ENVAXIS", "Envelope.apply_operation", [(S + "envelope.py", "Envelope.apply_operation", "        self.reorder(*states)\n\n        if isinstance(operation._operation_type, FockOperationType) and isinstance(", "        if isinstance(operation._operation_type, FockOperationType) and isinstance(")]),
    ("envaxis-reorder-before-combine", ["C06"], "ENVAXIS", "Envelope.apply_kraus", [(S + "envelope.py", "Envelope.apply_kraus", "        if self.state is None:\n            self.combine()\n\n        # Reorder\n        self.reorder(*states)", "        # Reorder\n        self.reorder(*states)\n\n        if self.state is None:\n            self.combine()")]),
    ("envaxis-povm-reorder-first", ["C09"], "ENVAXIS", "Envelope.measure_POVM", [(S + "envelope.py", "Envelope.measure_POVM", "        C = Config()\n\n        if len(states) == 2 and self.state is None:\n            self.combine()\n\n        # Reordering has an effect only after the spaces are combined\n        self.reorder(*states)", "        self.reorder(*states)\n        C = Config()\n\n        if len(states) == 2 and self.state is None:\n            self.combine()")]),
    ("envaxis-slot-swap", ["C10"], "ENVAXIS", "Envelope.resize_fock", [(S + "envelope.py", "Envelope.resize_fock", "reshape_shape[self.polarization.index] = self.polarization.dimensions", "reshape_shape[self.polarization.index] = self.fock.dimensions")]),
    ("label-swap-rl", ["C07", "C08"], "LABEL", "Polarization.expand", [(S + "polarization.py", "Polarization.expand", "vector = [1 / jnp.sqrt(2), 1j / jnp.sqrt(2)]", "vector = [1 / jnp.sqrt(2), -1j / jnp.sqrt(2)]")]),
    ("label-contract-mismatch", ["C07", "C08"], "LABEL", "Polarization.contract", [(S + "polarization.py", "Polarization.contract", "            if jnp.allclose(self.state, jnp.array([[1], [0]])):\n                self.state = PolarizationLabel.H", "            if jnp.allclose(self.state, jnp.array([[1], [0]])):\n                self.state = PolarizationLabel.V")]),
    ("label-outcome-swapped", ["C05"], "LABEL", "ProductState.measure", [(S + "composite_envelope.py", "ProductState.measure", "                        if outcomes[state] == 0:\n                            state.state = PolarizationLabel.H\n                        else:\n                            state.state = PolarizationLabel.V\n                    else:\n                        state.state = outcomes[state]\n                    state.index = None\n                    state.expansion_level = ExpansionLevel.Label\n                self.state_objs.remove(state)", "                        if outcomes[state] == 0:\n                            state.state = PolarizationLabel.V\n                        else:\n                            state.state = PolarizationLabel.H\n                    else:\n                        state.state = outcomes[state]\n                    state.index = None\n                    state.expansion_level = ExpansionLevel.Label\n                self.state_objs.remove(state)")]),
    ("absorb-not-released", ["C13", "C02"], "BOOK-absorb", "CompositeEnvelope.combine", [(S + "composite_envelope.py", "CompositeEnvelope.combine", "            state_order.extend(product_state.state_objs)\n            product_state.state_objs = []", "            state_order.extend(product_state.state_objs)")]),
    ("absorb-own-state-kept", ["C13", "C02"], "BOOK-absorb", "CompositeEnvelope.combine", [(S + "composite_envelope.py", "CompositeEnvelope.combine", "                so.state = None\n                state_order.append(so)", "                state_order.append(so)")]),
    ("valid-members-check-dropped", ["C17"], "VALID", "Envelope.apply_kraus", [(S + "envelope.py", "Envelope.apply_kraus", "        for s in states:\n            if s is not self.polarization and s is not self.fock:\n                raise ValueError(\n                    \"Given states have to be members of the envelope, \"\n                    \"use env.fock and env.polarization\"\n                )\n", "")]),
    ("valid-required-params", ["C17"], "VALID", "Operation.__init__", [("photon_weave/operation/operation.py", "Operation.__init__", "        for param in operation_type.required_params:\n            if param not in kwargs:\n                raise KeyError(\n                    f\"The '{param}' argument is required for {operation_type.name}\"\n                )", "        pass")]),
    ("valid-operand-types", ["C17"], "VALID", "ProductState.apply_operation", [(S + "composite_envelope.py", "ProductState.apply_operation", "                assert isinstance(\n                    s, op_type.expected_base_state_types[i]  # type: ignore\n                )", "                pass")]),
    ("deleg-reversed", ["C01", "C03"], "DELEG-ORDER", "CompositeEnvelope.apply_operation", [(S + "composite_envelope.py", "CompositeEnvelope.apply_operation", "ps.apply_operation(operator, *states)", "ps.apply_operation(operator, *reversed(states))")]),
    ("deleg-kraus-all-states", ["C06"], "DELEG-ORDER", "CompositeEnvelope.apply_kraus", [(S + "composite_envelope.py", "CompositeEnvelope.apply_kraus", "        ps.apply_kraus(operators, *states)", "        ps.apply_kraus(operators, *ps.state_objs[: len(states)])")]),
    ("outcome-space-shifted", ["C04"], "OUTCOME-SPACE", "Fock.measure", [(S + "fock.py", "Fock.measure", "                probs = probs / jnp.sum(probs)\n                key = C.random_key\n                result = int(jax.random.choice(key, a=jnp.arange(len(probs)), p=probs))", "                probs = probs / jnp.sum(probs)\n                key = C.random_key\n                result = int(jax.random.choice(key, a=jnp.arange(1, len(probs) + 1), p=probs))")]),
    ("dim-floor-dropped", ["C10"], "DIM-FLOOR", "FockOperationType.compute_dimensions", [("photon_weave/operation/fock_operation.py", "FockOperationType.compute_dimensions", "                    Operation(FockOperationType.Squeeze, **kwargs),\n                    num_quanta,\n                    threshold,\n                )\n                cd = fd.compute_dimensions()\n                if cd < num_quanta + 1:\n                    cd = num_quanta + 1\n", "                    Operation(FockOperationType.Squeeze, **kwargs),\n                    num_quanta,\n                    threshold,\n                )\n                cd = fd.compute_dimensions()\n")]),
    ("partner-self", ["C05", "C04"], "PARTNER", "CompositeEnvelope.measure", [(S + "composite_envelope.py", "CompositeEnvelope.measure", "                    if isinstance(s, Fock):\n                        os = s.envelope.polarization", "                    if isinstance(s, Fock):\n                        os = s.envelope.fock")]),
    ("purity-wide-tolerance", ["C08"], "PURITY", "Fock.contract", [(S + "fock.py", "Fock.contract", "            if jnp.abs(state_trace - 1) < tol:", "            if jnp.abs(state_trace - 1) < 0.5:")]),
    ("contract-row-of-eigvecs", ["C08"], "CONTRACT-VEC", "Polarization.contract", [(S + "polarization.py", "Polarization.contract", "                self.state = eigenvectors[:, pure_state_index].reshape(-1, 1)", "                self.state = eigenvectors[pure_state_index, :].reshape(-1, 1)")]),
    ("contract-conj-eigvec", ["C08"], "CONTRACT-VEC", "ProductState.contract", [(S + "composite_envelope.py", "ProductState.contract", "            self.state = eigenvectors[:, pure_state_index].reshape(-1, 1)", "            self.state = jnp.conj(eigenvectors[:, pure_state_index]).reshape(-1, 1)")]),
    ("contract-fixed-column", ["C08"], "CONTRACT-VEC", "Envelope.contract", [(S + "envelope.py", "Envelope.contract", "            self.state = eigenvectors[:, pure_state_index].reshape(-1, 1)", "            self.state = eigenvectors[:, 0].reshape(-1, 1)")]),
    ("estimator-abs-parameter", ["C10"], "DIM-NORM", "FockOperationType.compute_dimensions", [("photon_weave/operation/fock_operation.py", "FockOperationType.compute_dimensions", "                    Operation(FockOperationType.Displace, **kwargs),", "                    Operation(FockOperationType.Displace, alpha=abs(kwargs[\"alpha\"])),")]),
    ("estimator-other-type", ["C10"], "DIM-NORM", "FockOperationType.compute_dimensions", [("photon_weave/operation/fock_operation.py", "FockOperationType.compute_dimensions", "                    Operation(FockOperationType.Expresion, **kwargs),", "                    Operation(FockOperationType.Identity, **kwargs),")]),
    ("resize-guard-other-member", ["C10", "C17"], "RESIZE", "Envelope.resize_fock", [(S + "envelope.py", "Envelope.resize_fock", "                to = self.trace_out(self.fock)\n                assert isinstance(to, jnp.ndarray)\n                num_quanta = num_quanta_vector(to)", "                to = self.trace_out(self.polarization)\n                assert isinstance(to, jnp.ndarray)\n                num_quanta = num_quanta_vector(to)")]),
    ("squeeze-real-shortcut", ["C12"], "DEFS", "squeezing_operator", [("photon_weave/_math/ops.py", "squeezing_operator", "    operator = 0.5 * (jnp.conj(zeta) * (destroy @ destroy) - zeta * (create @ create))\n    return expm(operator)", "    if not jnp.iscomplexobj(zeta):\n        return expm(0.5 * jnp.abs(zeta) * (destroy @ destroy - create @ create))\n    operator = 0.5 * (jnp.conj(zeta) * (destroy @ destroy) - zeta * (create @ create))\n    return expm(operator)")]),
    ("est-tail-single-level", ["C10"], "EST-TAIL", "FockDimensions._compute_dimensions", [("photon_weave/operation/helpers/fock_dimension_esitmation.py", "FockDimensions._compute_dimensions", "            if jnp.max(jnp.abs(resulting_state[-2:, 0])) > (1 - self.threshold) * 1e-3:", "            if jnp.abs(resulting_state[-1, 0]) > (1 - self.threshold) * 1e-3:")]),
    ("evict-missing", ["C05", "C13", "C20"], "BOOK-evict", "ProductState.measure", [(S + "composite_envelope.py", "ProductState.measure", "                # Remove the mesaured state from the product state\n                self.state_objs.remove(state)\n", "")]),
]

# neutral variants: (id, transform name)
NEUTRAL = ["unparse-roundtrip", "conj-method-idiom", "abs2-square-idiom", "rename-key-local", "rename-ps-local", "elif-to-nested-else", "docstrings-added"]


def _func_extent(tree: ast.Module, qual: str) -> Optional[Tuple[int, int]]:
    if ":" in qual:
        qual = qual.split(":", 1)[1]
    parts = qual.split(".")
    body = tree.body
    node = None
    for i, p in enumerate(parts):
        found = None
        for s in body:
            if isinstance(s, (ast.FunctionDef, ast.ClassDef)) and s.name == p:
                # property getter vs setter: first match
                found = s
                break
        if found is None:
            return None
        node = found
        body = getattr(found, "body", [])
    lo = min([node.lineno] + [d.lineno for d in getattr(node, "decorator_list", [])])
    return lo, node.end_lineno


def apply_edits(root: pathlib.Path, edits) -> Optional[str]:
    """returns None on success, or the reason the variant is stale"""
    for rel, qual, old, new in edits:
        p = root / rel
        if not p.exists():
            return f"{rel} missing"
        text = p.read_text()
        if qual:
            ext = _func_extent(ast.parse(text), qual)
            if ext is None:
                return f"{qual} not found"
            lines = text.split("\n")
            lo, hi = ext
            seg = "\n".join(lines[lo - 1:hi]) + "\n"
            if seg.count(old) < 1:
                return f"fragment not found in {qual}"
            seg2 = seg.replace(old, new, 1)
            text = "\n".join(lines[:lo - 1]) + ("\n" if lo > 1 else "") + seg2 + "\n".join(lines[hi:])
        else:
            if text.count(old) < 1:
                return f"fragment not found in {rel}"
            text = text.replace(old, new, 1)
        try:
            ast.parse(text)
        except SyntaxError as e:
            return f"edit does not parse: {e}"
        p.write_text(text)
    return None


def _neutral_transform(root: pathlib.Path, name: str) -> Optional[str]:
    files = sorted((root / "photon_weave").rglob("*.py"))
    if name == "unparse-roundtrip":
        for p in files:
            p.write_text(ast.unparse(ast.parse(p.read_text())) + "\n")
        return None
    if name == "conj-method-idiom":
        n = 0
        for p in files:
            t = p.read_text()
            t2 = t.replace("jnp.conj(operation.operator)", "operation.operator.conj()").replace("jnp.conj(op)", "op.conj()")
            n += t != t2
            p.write_text(t2)
        return None if n else "no conj idiom found"
    if name == "abs2-square-idiom":
        n = 0
        for p in files:
            t = p.read_text()
            t2 = t.replace("jnp.abs(self.state.flatten()) ** 2", "jnp.square(jnp.abs(self.state.flatten()))")
            n += t != t2
            p.write_text(t2)
        return None if n else "no abs**2 idiom found"
    if name == "rename-key-local":
        p = root / "photon_weave/state/fock.py"
        t = p.read_text()
        t2 = t.replace("key = C.random_key", "fresh_key = C.random_key").replace("jax.random.choice(key,", "jax.random.choice(fresh_key,")
        p.write_text(t2)
        return None if t != t2 else "no key local found"
    if name == "rename-ps-local":
        # rename the local tensor `ps` everywhere in the state modules
        class R(ast.NodeTransformer):
            def visit_Name(self, n):
                if n.id == "ps":
                    n.id = "tensor_view"
                return n
        n = 0
        for p in files:
            if "/state/" not in str(p):
                continue
            t = ast.parse(p.read_text())
            R().visit(t)
            p.write_text(ast.unparse(t) + "\n")
            n += 1
        return None if n else "no state modules"
    if name == "elif-to-nested-else":
        class E(ast.NodeTransformer):
            def visit_If(self, n):
                self.generic_visit(n)
                return n
        # ast has no elif node: `elif` *is* a nested If in orelse; the round trip through unparse re-creates elif.
        # Instead wrap every orelse-If into an explicit `else:` block with a leading `pass`
        class W(ast.NodeTransformer):
            def visit_If(self, n):
                self.generic_visit(n)
                if len(n.orelse) == 1 and isinstance(n.orelse[0], ast.If):
                    n.orelse = [ast.Pass(), n.orelse[0]]
                return n
        for p in files:
            t = ast.parse(p.read_text())
            W().visit(t)
            ast.fix_missing_locations(t)
            p.write_text(ast.unparse(t) + "\n")
        return None
    if name == "docstrings-added":
        for p in files:
            t = ast.parse(p.read_text())
            for node in ast.walk(t):
                if isinstance(node, ast.FunctionDef) and not (node.body and isinstance(node.body[0], ast.Expr) and isinstance(node.body[0].value, ast.Constant)):
                    node.body.insert(0, ast.Expr(ast.Constant("added docstring")))
            ast.fix_missing_locations(t)
            p.write_text(ast.unparse(t) + "\n")
        return None
    return "unknown transform"


def _collect(root: pathlib.Path):
    """(rule, where, key, status) of every obligation on the tree under root"""
    from .model import Repo
    from .rules import RULES, load_all
    load_all()
    repo = Repo(root)
    from .model import AnalysisError
    from .report import Ob
    from .rules import HOME
    out = []
    for name, fn in RULES.items():
        try:
            out += fn(repo)
        except AnalysisError as e:
            # as in a real run: a rule that cannot decide fails the properties it serves (exit 2), the other rules still report
            out.append(Ob(name, "<rule>", "analysis-error", "error", tuple(HOME.get(name) or ()), "", 0, str(e)))
    return out


def _run_variant(args):
    kind, vid, payload = args
    from .model import AnalysisError
    from .report import load_known, known_match
    tmp = pathlib.Path(tempfile.mkdtemp(prefix="pwsa_selftest_"))
    try:
        shutil.copytree(REPO / "photon_weave", tmp / "photon_weave")
        if (REPO / "examples").exists():
            shutil.copytree(REPO / "examples", tmp / "examples")
        if kind in ("seed", "refactor"):
            stale = _apply_patch(tmp, payload[0] if kind == "seed" else payload)
            if stale:
                return (vid, "stale", stale)
            try:
                obs = _collect(tmp)
            except AnalysisError as e:
                return (vid, "FALSE-ALARM" if kind == "refactor" else "MISSED", f"analysis error instead of a verdict: {e}")
            known = load_known()["known"]
            from .report import partition_known
            _, unl = partition_known([o for o in obs if o.status == "violation"], known, lambda o: o.props)
            if kind == "seed":
                # the seeded property itself must report a violation (directly or through a property it depends on)
                from .props import scope
                want = scope(payload[2]) if payload[2] else None
                mine = [o for o in unl if want is None or want & set(o.props)]
                if mine:
                    return (vid, "detected", f"{mine[0].rule} {mine[0].where} {mine[0].key}")
                return (vid, "MISSED", "seeded mutation is not reported by its own property" + (f" (only by {sorted({p for o in unl for p in o.props})})" if unl else ""))
            if unl:
                return (vid, "FALSE-ALARM", f"{unl[0].rule} {unl[0].where} {unl[0].key}: {unl[0].msg[:80]}")
            und = [o for o in obs if o.status in ("unanalysed", "error")]
            if und:
                # a refactoring may be recorded as a known limit of one rule (meta.json: expected_undecided): it must then stay
                # undecided (exit 2, ANALYSIS-INCOMPLETE) for exactly those rules – never a violation
                import json as _json
                mp = pathlib.Path(payload).with_name("meta.json")
                allowed = set(_json.loads(mp.read_text()).get("expected_undecided", [])) if mp.exists() else set()
                if allowed and {o.rule for o in und} <= allowed:
                    return (vid, "neutral-undecided", f"documented limit: {sorted({o.rule for o in und})} cannot read this organisation of the code (exit 2, no violation)")
                return (vid, "FALSE-ALARM", f"undecided on a behaviour-preserving refactoring (exit 2): {und[0].rule} {und[0].where} {und[0].key}")
            return (vid, "neutral-ok", "no violation and no undecided obligation on the refactored tree")
        if kind == "break":
            _, props, rule, where, edits = payload
            stale = apply_edits(tmp, edits)
            if stale:
                return (vid, "stale", stale)
            try:
                obs = _collect(tmp)
            except AnalysisError as e:
                return (vid, "detected", f"analysis refuses the tree (exit 2): {e}")
            known = load_known()["known"]
            from .report import partition_known
            _, unl_b = partition_known([o for o in obs if o.status == "violation"], known, lambda o: o.props)
            hits = [o for o in unl_b if o.rule == rule and (not where or o.where.split(":")[-1].endswith(where.split(":")[-1]))]
            if hits:
                return (vid, "detected", f"{hits[0].rule} {hits[0].where} {hits[0].key}")
            other = list(unl_b)
            if other:
                return (vid, "detected-elsewhere", f"{other[0].rule} {other[0].where} {other[0].key}")
            return (vid, "MISSED", f"expected {rule} in {where}")
        else:
            stale = _neutral_transform(tmp, payload)
            if stale:
                return (vid, "stale", stale)
            try:
                obs = _collect(tmp)
            except AnalysisError as e:
                return (vid, "FALSE-ALARM", f"analysis error on a neutral variant: {e}")
            # keys may embed local names by design (IDENT-site probe/container text): compare modulo the rename
            fix = (lambda k: k.replace("tensor_view", "ps")) if payload == "rename-ps-local" else (lambda k: k)
            return (vid, "neutral-result", sorted({(o.rule, o.where, fix(o.key), o.status) for o in obs if o.status in ("ok", "violation")}))
    finally:
        shutil.rmtree(tmp, ignore_errors=True)


def _patch_variants():
    """seeded mutations (/verif/seeded/*/patch.diff: must be reported) and behaviour-preserving refactorings
    (/verif/neutral/*/patch.diff: every verdict that exists on both trees must be unchanged and no new violation appear)"""
    import json
    root = pathlib.Path(__file__).resolve().parent.parent
    out = []
    for d in sorted((root / "seeded").glob("*")):
        if (d / "patch.diff").exists() and (d / "meta.json").exists():
            meta = json.loads((d / "meta.json").read_text())
            out.append(("seed", "seed:" + d.name, (str(d / "patch.diff"), sorted(meta.get("caught_by", {})), meta.get("property_broken"))))
    for d in sorted((root / "neutral").glob("*")):
        if (d / "patch.diff").exists():
            out.append(("refactor", "refactor:" + d.name, str(d / "patch.diff")))
    return out


def _apply_patch(tmp: pathlib.Path, patch: str) -> Optional[str]:
    import subprocess
    r = subprocess.run(["git", "apply", "--whitespace=nowarn", patch], cwd=tmp, capture_output=True, text=True)
    return None if r.returncode == 0 else "patch no longer applies: " + r.stderr.strip()[:120]


def run_selftest(pid: str, seed: int = 0, only: Optional[List[str]] = None) -> dict:
    jobs = []
    if pid == "all":
        served = None
    else:
        from .props import scope
        served = scope(pid)
    for kind, vid, payload in _patch_variants():
        if only is not None and vid not in only:
            continue
        if kind == "seed" and (served is None or served & set(payload[1])):
            jobs.append((kind, vid, payload))
        if kind == "refactor":
            jobs.append((kind, vid, payload))
    for v in V:
        if served is None or served & set(v[1]):
            if only is None or v[0] in only:
                jobs.append(("break", v[0], v))
    for nname in NEUTRAL:
        if only is None or nname in only:
            jobs.append(("neutral", nname, nname))
    base = None
    if any(j[0] == "neutral" for j in jobs):
        base = sorted({(o.rule, o.where, o.key, o.status) for o in _collect(REPO) if o.status in ("ok", "violation")})
    workers = min(16, max(1, len(jobs)))
    results = []
    with ProcessPoolExecutor(max_workers=workers) as ex:
        for r in ex.map(_run_variant, jobs):
            results.append(r)
    failed, detail = [], []
    counts: Dict[str, int] = {}
    for vid, status, info in results:
        if status == "neutral-result":
            if info == base:
                status, info = "neutral-ok", "verdicts unchanged"
            else:
                a, b = set(base), set(info)
                status, info = "FALSE-ALARM", f"verdict changes: +{sorted(b - a)[:3]} -{sorted(a - b)[:3]}"
        counts[status] = counts.get(status, 0) + 1
        if status in ("MISSED", "FALSE-ALARM"):
            failed.append(f"{vid}: {status} {info}")
        detail.append({"variant": vid, "result": status, "info": info if isinstance(info, str) else ""})
    return {"variants": len(results), "counts": counts, "failed": failed, "detail": detail}


if __name__ == "__main__":
    import json
    import sys
    res = run_selftest(sys.argv[1] if len(sys.argv) > 1 else "all", only=sys.argv[2:] or None)
    for d in res["detail"]:
        print(f"{d['result']:20s} {d['variant']:36s} {d['info'][:120]}")
    print(res["counts"])
    sys.exit(1 if res["failed"] else 0)
