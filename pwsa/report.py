"""E8: obligations, known findings, evidence files, exit codes."""
from __future__ import annotations

import json
import os
import pathlib
import time
from dataclasses import dataclass, field, asdict
from typing import Dict, Iterable, List, Optional, Sequence, Tuple

import re
_SPLICE = re.compile(r"__h\d+")
VERIF = pathlib.Path(__file__).resolve().parent.parent
EVIDENCE_DIR = pathlib.Path(os.environ.get("PWSA_EVIDENCE_DIR", VERIF / "evidence"))
KNOWN_FILE = VERIF / "known_findings.json"


@dataclass
class Ob:
    """one rule instance examined on the current tree"""
    rule: str
    where: str               # qualified function (or module) – part of the finding key
    key: str                 # rule-specific construct key; no line numbers, no raw source
    status: str              # ok | violation | unanalysed | note
    props: Tuple[str, ...]
    file: str = ""
    line: int = 0
    msg: str = ""
    code: str = ""           # what is wrong (violation kind + the essential literal), so that a *different* defect at a listed site is not masked

    def ident(self) -> Tuple[str, str, str]:
        return (self.rule, self.where, self.key)

    def text(self) -> str:
        return f"{self.file}:{self.line} {self.rule} [{self.where} :: {self.key}] {self.msg}"


def ok(rule, fi_or_where, key, props, node=None, msg="") -> Ob:
    return _mk(rule, fi_or_where, key, "ok", props, node, msg)


def bad(rule, fi_or_where, key, props, node=None, msg="", code="") -> Ob:
    o = _mk(rule, fi_or_where, key, "violation", props, node, msg)
    o.code = code
    return o


def skip(rule, fi_or_where, key, props, node=None, msg="") -> Ob:
    return _mk(rule, fi_or_where, key, "unanalysed", props, node, msg)


def note(rule, fi_or_where, key, props, node=None, msg="") -> Ob:
    return _mk(rule, fi_or_where, key, "note", props, node, msg)


def _mk(rule, fi, key, status, props, node, msg) -> Ob:
    if isinstance(fi, str):
        where, file, line = fi, "", 0
    else:
        where, file = fi.qualname, fi.file
        line = getattr(node if node is not None else fi.node, "lineno", 0)
    if isinstance(props, str):
        props = (props,)
    key = _SPLICE.sub("", key)          # locals of a spliced helper carry a suffix: not part of the construct's identity
    return Ob(rule, where, key, status, tuple(props), file, line, msg)


def load_known() -> Dict[str, list]:
    if not KNOWN_FILE.exists():
        return {"known": [], "fixed": []}
    data = json.loads(KNOWN_FILE.read_text())
    data.setdefault("known", [])
    data.setdefault("fixed", [])
    return data


_ORDINAL = re.compile(r"#\d+")


def known_match(prop: str, ob: Ob, known: list) -> Optional[dict]:
    """exact identity: (property, rule, function, key, code)"""
    for k in known:
        if k.get("rule") == ob.rule and k.get("where") == ob.where and k.get("key") == ob.key and prop in k.get("properties", [k.get("property")]) \
                and ("code" not in k or k["code"] == ob.code):
            return k
    return None


def partition_known(violations: Sequence[Ob], known: list, props_for) -> Tuple[List[Ob], List[Ob]]:
    """(matched, unlisted).  A listed finding is identified by (property, rule, function, key, code).  `code` names the failing construct itself
    (which einsum, which flag, which slice); where an entry carries one, the running number inside the key (`#3`: third such site of the function)
    may differ – re-ordering or merging blocks of a function re-numbers its sites without changing the defect.  That relaxed match is one-to-one:
    every listed entry excuses at most one violation, and only entries that were not matched exactly take part – a second site that now
    shows the same code as a listed one is still reported."""
    matched: List[Ob] = []
    rest: List[Ob] = []
    used = set()
    for o in violations:
        k = next((kk for p in props_for(o) for kk in [known_match(p, o, known)] if kk is not None), None)
        if k is not None:
            used.add(id(k))
            matched.append(o)
        else:
            rest.append(o)
    unlisted: List[Ob] = []
    for o in rest:
        hit = None
        for k in known:
            if id(k) in used or not k.get("code") or k.get("rule") != o.rule or k.get("where") != o.where or k["code"] != o.code:
                continue
            if not any(p in k.get("properties", [k.get("property")]) for p in props_for(o)):
                continue
            if _ORDINAL.sub("", k.get("key", "")) == _ORDINAL.sub("", o.key):
                hit = k
                break
        if hit is not None:
            used.add(id(hit))
            matched.append(o)
        else:
            unlisted.append(o)
    return matched, unlisted


def write_evidence(prop: str, tier: str, seed: int, obs: Sequence[Ob], violations: Sequence[Ob], known_hits: Sequence[Ob],
                   rules: Sequence[str], explanation: str, repo_counts: dict, digests: dict, wall: float,
                   declined: str = "", extra: Optional[dict] = None) -> pathlib.Path:
    EVIDENCE_DIR.mkdir(parents=True, exist_ok=True)
    per_rule: Dict[str, Dict[str, int]] = {}
    for o in obs:
        d = per_rule.setdefault(o.rule, {"ok": 0, "violation": 0, "unanalysed": 0, "note": 0})
        d[o.status] = d.get(o.status, 0) + 1
    samples = []
    seen_rules = set()
    for o in obs:                      # one sample per rule first, then a few more
        if o.rule not in seen_rules and o.status != "note":
            seen_rules.add(o.rule)
            samples.append({"rule": o.rule, "where": o.where, "key": o.key, "at": f"{o.file}:{o.line}", "verdict": o.status, "detail": o.msg[:200]})
    for o in list(violations) + list(known_hits):
        samples.append({"rule": o.rule, "where": o.where, "key": o.key, "at": f"{o.file}:{o.line}", "verdict": o.status, "detail": o.msg[:200]})
    n_ob = sum(1 for o in obs if o.status in ("ok", "violation"))
    n_ok = sum(1 for o in obs if o.status == "ok")
    cov = {
        "explanation": explanation,
        "rules": list(rules),
        "per_rule": per_rule,
        "obligations": n_ob,
        "discharged": n_ok,
        "known_findings": len(known_hits),
        "unlisted_violations": len(violations),
        "unanalysed": sum(1 for o in obs if o.status == "unanalysed"),
        "evaluations": max(n_ob, 1),
        "distinct_nontrivial": max(len({o.ident() for o in obs if o.status in ("ok", "violation")}), 2),
        "rule": "every instance of every rule slot in the current source tree is visited once; an obligation is one (rule, function, construct) triple; all are distinct by construction",
        "samples": samples[:40],
        "exhaustive": True,
        "analysed": repo_counts,
        "source_digests": digests,
        "trusted_base": ["CPython ast parser", "pwsa receiver/guard interpretation (DESIGN §2)", "frozen idiom tables (DESIGN §2.5/2.6)", "JAX/NumPy semantics of the named primitives"],
        "not_decided": declined,
    }
    if extra:
        cov.update(extra)
    ev = {
        "property_id": prop,
        "tier": tier,
        "seed": seed,
        "level": "other",
        "coverage": cov,
        "assumptions": [
            "static analysis of the source text only: no statement about floating-point values",
            "receiver typing and guard interpretation are specific to this repository's idioms; unrecognised shapes are counted as unanalysed, never reported",
        ],
        "wall_s": round(wall, 3),
        "violations": len(violations),
    }
    p = EVIDENCE_DIR / f"{prop}.json"
    p.write_text(json.dumps(ev, indent=1, sort_keys=False))
    return p


def write_replay(prop: str, n: int, ob: Ob) -> pathlib.Path:
    d = EVIDENCE_DIR / "violations"
    d.mkdir(parents=True, exist_ok=True)
    p = d / f"{prop}-{n}.json"
    p.write_text(json.dumps({"property": prop, **asdict(ob)}, indent=1))
    return p
