"""SAMP – sampler sites (DESIGN §3): key freshness, single seeded source, order determinism."""
from __future__ import annotations

import ast
from typing import Dict, List, Optional, Tuple

from ..cfg import CFG, explore, walk_node
from ..model import AnalysisError, FuncInfo, Repo, dotted, src, walk_no_nested
from ..report import Ob, bad, ok, skip
from ..scope import full_call_name, local_bindings, resolve_alias
from . import rule

KEY_MAKERS = {"jax.random.PRNGKey", "jax.random.key", "jax.random.wrap_key_data"}
KEY_DERIVERS = {"jax.random.split", "jax.random.fold_in", "jax.random.clone"}
NON_DRAWS = KEY_MAKERS | KEY_DERIVERS | {"jax.random.key_data", "jax.random.key_impl"}


def sampler_calls(fi: FuncInfo) -> List[Tuple[ast.Call, str]]:
    """calls that draw randomness from a key: any jax.random.<f>(key, ...) that is not a key maker/deriver"""
    _, limports, _ = local_bindings(fi.node)
    out = []
    for n in walk_no_nested(fi.node):
        if isinstance(n, ast.Call):
            full = full_call_name(n, fi, limports)
            if full and full.startswith("jax.random.") and full not in NON_DRAWS:
                out.append((n, full))
    out.sort(key=lambda x: (x[0].lineno, x[0].col_offset))
    return out


def key_arg(call: ast.Call) -> Optional[ast.expr]:
    if call.args:
        return call.args[0]
    for kw in call.keywords:
        if kw.arg == "key":
            return kw.value
    return None


def is_random_key_read(e: ast.AST) -> bool:
    return isinstance(e, ast.Attribute) and e.attr == "random_key"


def _fresh_expr(e: ast.AST, fi: FuncInfo, limports, fresh_names) -> Optional[str]:
    """'fresh' if e evaluates to a never-used key, 'stale:<why>' if provably not, None if unknown"""
    if is_random_key_read(e):
        return "fresh"
    if isinstance(e, ast.Call):
        full = full_call_name(e, fi, limports)
        if full in KEY_DERIVERS and e.args:
            inner = _fresh_expr(e.args[0], fi, limports, fresh_names)
            return inner
        if full in KEY_MAKERS:
            return "stale:key built from a literal/own seed instead of Config.random_key"
    if isinstance(e, ast.Name):
        return None
    if isinstance(e, ast.Subscript):
        return _fresh_expr(e.value, fi, limports, fresh_names)
    if isinstance(e, ast.Attribute) and e.attr in ("_key",):
        return "stale:reads the stored key without advancing it"
    return None


SAMPLER_FLOOR = {
    "Fock.measure": 2, "Polarization.measure": 2, "CustomState.measure": 2, "CustomState.measure_POVM": 1,
    "BaseState.measure_POVM": 1, "Envelope.measure": 4, "Envelope.measure_POVM": 2,
    "ProductState.measure": 2, "ProductState.measure_POVM": 1,
}


@rule("SAMP-a")
def samp_a(repo: Repo) -> List[Ob]:
    obs: List[Ob] = []
    P = ("C14",)
    found: Dict[str, int] = {}
    for fi in repo.scan_functions():
        if not fi.module.name.startswith("photon_weave"):
            continue
        calls = sampler_calls(fi)
        if not calls:
            continue
        found[fi.qualname] = len(calls)
        # a reused / stale key couples draws that must be independent: also a Born-rule (C04) resp. POVM (C09) defect
        P = ("C14", "C09") if fi.node.name == "measure_POVM" else ("C14", "C04") if fi.node.name == "measure" else ("C14",)
        _, limports, _ = local_bindings(fi.node)
        params = set(fi.params)
        cfg = CFG(fi.node)
        call_ids = {id(c): (c, full) for c, full in calls}
        key_names = {key_arg(c).id for c, _ in calls if isinstance(key_arg(c), ast.Name)}
        # state: tuple of (name, status) with status in undef|fresh|used|other:<why>|param
        init = tuple(sorted((k, "param" if k in params else "undef") for k in key_names))
        reports: Dict[Tuple[int, str], str] = {}

        def setk(st, name, val):
            return tuple((k, (val if k == name else v)) for k, v in st)

        def getk(st, name):
            for k, v in st:
                if k == name:
                    return v
            return "undef"

        def exec_node(node, st):
            # 1. sampler calls evaluated in this node consume their key (evaluation order: calls before the assignment)
            for x in walk_node(node):
                if isinstance(x, ast.Call) and id(x) in call_ids:
                    ka = key_arg(x)
                    if isinstance(ka, ast.Name):
                        cur = getk(st, ka.id)
                        if cur == "fresh":
                            st = setk(st, ka.id, "used")
                        elif cur == "used":
                            reports[(id(x), "reuse")] = f"key `{ka.id}` reaches this draw after it was already consumed by a draw (same key, same stream)"
                        elif cur == "param":
                            reports.setdefault((id(x), "param"), "")
                        else:
                            why = cur.split(":", 1)[1] if ":" in cur else "no read of Config.random_key reaches this draw"
                            reports[(id(x), "stale")] = f"key `{ka.id}`: {why}"
            # 2. assignments to key names
            a = node.ast
            if node.kind == "stmt" and isinstance(a, (ast.Assign, ast.AnnAssign)) and a.value is not None:
                targets = a.targets if isinstance(a, ast.Assign) else [a.target]
                for t in targets:
                    elts = t.elts if isinstance(t, (ast.Tuple, ast.List)) else [t]
                    for e in elts:
                        if isinstance(e, ast.Name) and e.id in key_names:
                            v = a.value
                            if isinstance(v, ast.Name) and v.id in key_names:
                                st = setk(st, e.id, getk(st, v.id))     # alias shares the status
                            else:
                                fr = _fresh_expr(v, fi, limports, None)
                                st = setk(st, e.id, "fresh" if fr == "fresh" else (f"other:{fr.split(':',1)[1]}" if fr else "other:assigned from an expression that is not a read of Config.random_key"))
            elif node.kind == "iter" and isinstance(node.stmt, ast.For):
                pass
            return st

        def transfer(s, lab, d, st):
            st = exec_node(s, st)
            if s.kind == "iter" and lab == "iter":
                for nm in [t.id for t in ast.walk(s.stmt.target) if isinstance(t, ast.Name)]:
                    if nm in key_names:
                        st = setk(st, nm, "other:loop variable")
            return [st]

        seen = explore(cfg, init, transfer)
        # the exit nodes were never "executed"; samplers live in stmt nodes whose successors exist, so reports are complete
        per_fn_idx = 0
        for c, full in calls:
            per_fn_idx += 1
            ka = key_arg(c)
            kkey = f"draw#{per_fn_idx}:{full.split('.')[-1]}"
            if ka is None:
                obs.append(bad("SAMP-a", fi, kkey, P, c, "sampler call without a key argument"))
                continue
            if not isinstance(ka, ast.Name):
                fr = _fresh_expr(ka, fi, limports, None)
                if fr == "fresh":
                    obs.append(ok("SAMP-a", fi, kkey, P, c, "key is read from Config.random_key in place"))
                elif fr:
                    obs.append(bad("SAMP-a", fi, kkey, P, c, fr.split(":", 1)[1]))
                else:
                    obs.append(skip("SAMP-a", fi, kkey, P, c, f"key expression `{src(ka)}` not understood"))
                continue
            msgs = [m for (cid, kind), m in reports.items() if cid == id(c) and kind in ("reuse", "stale")]
            if msgs:
                obs.append(bad("SAMP-a", fi, kkey, P, c, "; ".join(sorted(set(msgs)))))
            elif (id(c), "param") in reports:
                obs.append(skip("SAMP-a", fi, kkey, P, c, f"key `{ka.id}` is a parameter of the function"))
            else:
                obs.append(ok("SAMP-a", fi, kkey, P, c, f"key `{ka.id}`: unique fresh read of Config.random_key per execution of this draw"))
    for q, floor in SAMPLER_FLOOR.items():
        repo.func(q)
        if found.get(q, 0) < 1:
            raise AnalysisError(f"SAMP: no sampler call found in {q} (non-vacuity floor)")
    return obs


LEGAL_KEY_WRITERS = {"Config.__init__", "Config.set_seed", "Config.random_key"}
ENTROPY_PREFIXES = ("numpy.random.", "random.", "secrets.", "time.", "os.urandom", "os.getrandom", "datetime.")


@rule("SAMP-b")
def samp_b(repo: Repo) -> List[Ob]:
    obs: List[Ob] = []
    P = ("C14",)
    cfgc = repo.cls("Config")
    # (1) who may write Config._key
    writers = 0
    for fi in repo.scan_functions():
        for n in walk_no_nested(fi.node):
            if isinstance(n, ast.Attribute) and n.attr == "_key" and isinstance(n.ctx, (ast.Store, ast.Del)):
                writers += 1
                if fi.qualname in LEGAL_KEY_WRITERS:
                    obs.append(ok("SAMP-b", fi, "writes-_key", P, n, "legal writer of Config._key"))
                else:
                    obs.append(bad("SAMP-b", fi, "writes-_key", P, n, "Config._key is written outside __init__/set_seed/random_key"))
            if isinstance(n, ast.Call) and isinstance(n.func, ast.Name) and n.func.id == "setattr" and len(n.args) >= 2 \
                    and isinstance(n.args[1], ast.Constant) and n.args[1].value == "_key":
                obs.append(bad("SAMP-b", fi, "writes-_key", P, n, "setattr(..., '_key', ...)"))
    if writers < 2:
        raise AnalysisError("SAMP-b: fewer than 2 writes of Config._key found")

    # (2) getter: split-and-store on every path, returned part differs from stored part
    g = repo.func("Config.random_key")
    obs.append(_check_getter(g, P))

    # (3) set_seed: _key := PRNGKey(f(seed)) with no read of the old key
    s = repo.func("Config.set_seed")
    _, limports, _ = local_bindings(s.node)
    good = False
    reads_old = any(isinstance(n, ast.Attribute) and n.attr == "_key" and isinstance(n.ctx, ast.Load) for n in walk_no_nested(s.node))
    cfg = CFG(s.node)
    store_nodes = set()
    for node in cfg.nodes:
        a = node.ast
        if node.kind == "stmt" and isinstance(a, ast.Assign) and any(isinstance(t, ast.Attribute) and t.attr == "_key" for t in a.targets):
            v = a.value
            if isinstance(v, ast.Call) and full_call_name(v, s, limports) in KEY_MAKERS and v.args:
                names = {x.id for x in ast.walk(v.args[0]) if isinstance(x, ast.Name)}
                if names and names <= set(s.params) - {"self"} and not any(isinstance(x, ast.Call) for x in ast.walk(v.args[0])):
                    store_nodes.add(node)
    good = bool(store_nodes) and cfg.always_followed_by(cfg.entry, store_nodes) and not reads_old
    obs.append((ok if good else bad)("SAMP-b", s, "set_seed-determines-key", P, s.node,
               "set_seed stores PRNGKey(seed) on every path and ignores the previous key" if good else
               "set_seed does not (on every path) replace the key by PRNGKey(<seed parameter>) independent of the old key"))

    # (4) __init__: key/seed initialised only under the first-initialisation guard
    i = repo.func("Config.__init__")
    cfg = CFG(i.node)
    init_ok = True
    for node in cfg.nodes:
        a = node.ast
        if node.kind == "stmt" and isinstance(a, ast.Assign) and any(isinstance(t, ast.Attribute) and t.attr in ("_key",) for t in a.targets):
            guards = [t for t in cfg.nodes if t.kind == "test" and "_initialized" in src(t.ast) and "hasattr" in src(t.ast)]
            if not guards or not cfg.must_pass_through(node, set(guards)):
                init_ok = False
            else:
                # must be on the branch where the attribute is absent
                t = guards[0]
                neg = isinstance(t.ast, ast.UnaryOp) and isinstance(t.ast.op, ast.Not)
                lab = "T" if neg else "F"
                reach = cfg.reachable([m for m, l in cfg.succ[t] if l == lab])
                if node not in reach:
                    init_ok = False
    obs.append((ok if init_ok else bad)("SAMP-b", i, "init-guarded", P, i.node,
               "Config() re-instantiation does not re-seed" if init_ok else "Config.__init__ (re)writes the key outside the first-initialisation guard: every Config() call re-seeds"))
    # singleton
    nw = cfgc.methods.get("__new__")
    if nw is None:
        obs.append(bad("SAMP-b", "Config.__new__", "singleton", P, None, "Config has no __new__: Config() creates independent key states"))
    else:
        rets = [n for n in walk_no_nested(nw.node) if isinstance(n, ast.Return)]
        ncfg = CFG(nw.node)

        def _is_instance(r: ast.Return) -> bool:
            if r.value is None:
                return False
            if src(r.value) in ("cls._instance", "Config._instance"):
                return True
            if isinstance(r.value, ast.Name):
                # `cls._instance = x` … `return x`: the object just stored as the singleton
                rn = next((nd for nd in ncfg.nodes if nd.kind == "return" and nd.ast is r), None)
                st = {nd for nd in ncfg.nodes if nd.kind == "stmt" and isinstance(nd.ast, ast.Assign) and any(src(t) in ("cls._instance", "Config._instance") for t in nd.ast.targets)
                      and isinstance(nd.ast.value, ast.Name) and nd.ast.value.id == r.value.id}
                if rn is not None and bool(st) and ncfg.must_pass_through(rn, st):
                    return True
                # or: every definition of x that reaches the return is a read of the singleton, or is stored as the singleton before the return
                if rn is None:
                    return False
                defs_ = [d for d in ncfg.reaching_defs(rn, r.value.id)]
                if not defs_ or any(d is ncfg.entry for d in defs_):
                    return False
                for d in defs_:
                    a_ = d.ast
                    if isinstance(a_, ast.Assign) and src(a_.value) in ("cls._instance", "Config._instance"):
                        continue
                    if st and rn not in ncfg.reachable([m for m, _ in ncfg.succ[d]], blocked=st):
                        continue
                    return False
                return True
            return False
        singleton = bool(rets) and all(_is_instance(r) for r in rets)
        obs.append((ok if singleton else bad)("SAMP-b", nw, "singleton", P, nw.node,
                   "__new__ returns the class-level singleton" if singleton else "__new__ does not always return cls._instance"))

    # (5) no other entropy / key construction outside Config
    n_calls = 0
    for fi in repo.scan_functions():
        if not fi.module.name.startswith("photon_weave"):
            continue
        if fi.cls is not None and fi.cls.name == "Config":
            continue
        _, limports, _ = local_bindings(fi.node)
        for n in walk_no_nested(fi.node):
            if isinstance(n, ast.Call):
                n_calls += 1
                full = full_call_name(n, fi, limports)
                if not full:
                    continue
                if full in KEY_MAKERS:
                    obs.append(bad("SAMP-b", fi, f"entropy={full}", P, n, "PRNG key constructed outside Config: draws no longer follow the seeded stream"))
                elif any(full.startswith(p) or full == p.rstrip(".") for p in ENTROPY_PREFIXES):
                    # `random`/`time` must be the stdlib modules, i.e. imported as such
                    head = full.split(".")[0]
                    if head in fi.module.import_alias or head in limports or head in ("numpy",):
                        obs.append(bad("SAMP-b", fi, f"entropy={full}", P, n, "entropy/time source outside the seeded Config key"))
    obs.append(ok("SAMP-b", "package", "no-foreign-entropy-scan", P, None, f"{n_calls} calls outside Config scanned"))
    return obs


def _check_getter(g: FuncInfo, P) -> Ob:
    _, limports, _ = local_bindings(g.node)
    cfg = CFG(g.node)
    split_nodes = {}
    for node in cfg.nodes:
        a = node.ast
        if node.kind == "stmt" and isinstance(a, ast.Assign) and isinstance(a.value, ast.Call):
            full = full_call_name(a.value, g, limports)
            if full == "jax.random.split" and a.value.args and src(a.value.args[0]) == "self._key":
                t = a.targets[0]
                if isinstance(t, (ast.Tuple, ast.List)) and len(t.elts) == 2:
                    stored = [i for i, e in enumerate(t.elts) if src(e) == "self._key"]
                    others = [e for e in t.elts if src(e) != "self._key"]
                    if len(stored) == 1 and len(others) == 1 and isinstance(others[0], ast.Name):
                        split_nodes[node] = others[0].id
                    elif not stored and all(isinstance(e, ast.Name) for e in t.elts):
                        # a, b = split(self._key); self._key = <one of them>; return <the other>
                        split_nodes[node] = ("pair", t.elts[0].id, t.elts[1].id)
                elif isinstance(t, ast.Name):
                    split_nodes[node] = ("array", t.id)
    rets = [n for n in cfg.nodes if n.kind == "return"]
    if not rets:
        return bad("SAMP-b", g, "getter-advances", P, g.node, "random_key has no return")
    for r in rets:
        v = r.ast.value
        if v is None:
            return bad("SAMP-b", g, "getter-advances", P, r.ast, "random_key returns None")
        if "self._key" in src(v) and not isinstance(v, ast.Name):
            return bad("SAMP-b", g, "getter-advances", P, r.ast, "random_key returns the stored key itself: successive reads give the same key")
        okr = False
        for sn, part in split_nodes.items():
            if isinstance(part, str) and isinstance(v, ast.Name) and v.id == part and cfg.must_pass_through(r, {sn}):
                # nothing re-assigns `part` or self._key between (straight-line getter): accept
                okr = True
            if isinstance(part, tuple) and part[0] == "pair":
                stores = [n for n in cfg.nodes if n.kind == "stmt" and isinstance(n.ast, ast.Assign) and src(n.ast.targets[0]) == "self._key"
                          and isinstance(n.ast.value, ast.Name) and n.ast.value.id in part[1:]]
                if len(stores) == 1 and isinstance(v, ast.Name) and v.id in part[1:] and v.id != stores[0].ast.value.id \
                        and cfg.must_pass_through(r, {sn}) and cfg.must_pass_through(r, set(stores)):
                    okr = True
                continue
            if isinstance(part, tuple):
                # keys = split(self._key); self._key = keys[i]; return keys[j], i != j
                arr = part[1]
                stores = [n for n in cfg.nodes if n.kind == "stmt" and isinstance(n.ast, ast.Assign) and src(n.ast.targets[0]) == "self._key"
                          and isinstance(n.ast.value, ast.Subscript) and src(n.ast.value.value) == arr]
                if stores and isinstance(v, ast.Subscript) and src(v.value) == arr and src(v.slice) != src(stores[0].ast.value.slice) \
                        and cfg.must_pass_through(r, {sn}) and cfg.must_pass_through(r, set(stores)):
                    okr = True
        if not okr:
            return bad("SAMP-b", g, "getter-advances", P, r.ast,
                       "random_key does not, on this path, split the stored key, store one half and return the other")
    return ok("SAMP-b", g, "getter-advances", P, g.node, "splits self._key, stores one half, returns the other, on every path")


def _order_free(n, parents, is_set_expr, depth=0) -> bool:
    p = parents.get(id(n))
    if isinstance(p, ast.Call) and isinstance(p.func, ast.Name) and n in p.args:
        if p.func.id in ("len", "bool", "any", "all", "sum", "min", "max", "set", "frozenset", "isinstance"):
            return True
        if p.func.id in ("list", "tuple", "sorted") and depth < 3:
            return _order_free(p, parents, is_set_expr, depth + 1) and not isinstance(parents.get(id(p)), ast.Assign)
    if isinstance(p, ast.Compare) and (n in p.comparators or n is p.left):
        return True
    if isinstance(p, ast.Assign) and n is p.value and depth == 0:
        return True      # the name is then tracked
    if isinstance(p, ast.BinOp) and is_set_expr(p):
        return True
    if isinstance(p, (ast.If, ast.While, ast.BoolOp, ast.UnaryOp, ast.Expr)):
        return True
    if isinstance(p, ast.Attribute) and p.attr in ("add", "discard", "update", "issubset", "issuperset", "isdisjoint", "union", "intersection", "difference", "__contains__", "remove", "clear", "copy"):
        return True
    return False


@rule("SAMP-c")
def samp_c(repo: Repo) -> List[Ob]:
    """no iteration over a set of state objects (hash = uuid4 -> run-dependent order)"""
    obs: List[Ob] = []
    P = ("C14",)
    n_sets = 0
    for fi in repo.scan_functions():
        m = fi.module.name
        if not (".state." in m or m.startswith("photon_weave.extra.einsum_")):
            continue
        set_names = set()
        parents = {}
        for n in ast.walk(fi.node):
            for c in ast.iter_child_nodes(n):
                parents[id(c)] = n

        def is_set_expr(e):
            if isinstance(e, (ast.Set, ast.SetComp)):
                return True
            if isinstance(e, ast.Call) and isinstance(e.func, ast.Name) and e.func.id in ("set", "frozenset"):
                return True
            if isinstance(e, ast.Name) and e.id in set_names:
                return True
            if isinstance(e, ast.BinOp) and isinstance(e.op, (ast.BitOr, ast.BitAnd, ast.Sub, ast.BitXor)):
                return is_set_expr(e.left) or is_set_expr(e.right)
            return False

        for n in walk_no_nested(fi.node):
            if isinstance(n, ast.Assign) and len(n.targets) == 1 and isinstance(n.targets[0], ast.Name) and is_set_expr(n.value):
                set_names.add(n.targets[0].id)
        for n in walk_no_nested(fi.node):
            if not is_set_expr(n) or isinstance(n, ast.Name) and isinstance(n.ctx, ast.Store):
                continue
            if isinstance(n, ast.Name) and not isinstance(n.ctx, ast.Load):
                continue
            n_sets += 1
            p = parents.get(id(n))
            order_free = _order_free(n, parents, is_set_expr)
            if order_free:
                obs.append(ok("SAMP-c", fi, f"set-use:{type(p).__name__}", P, n, "set used in an order-independent way"))
            else:
                how = "iterated" if isinstance(p, (ast.For, ast.comprehension)) else f"passed to {src(p)[:40]}"
                obs.append(bad("SAMP-c", fi, "set-order", P, n,
                               f"a set of (uuid-hashed) objects is {how}: element order differs from run to run and can reach a draw/combine order"))
    obs.append(ok("SAMP-c", "package", "set-scan", P, None, f"{n_sets} set-valued expressions examined"))
    return obs
