"""ROUTE – routing completeness per (class, action, index kind); FLAGS – flag forwarding."""
from __future__ import annotations

import ast
from typing import Dict, FrozenSet, List, Optional, Set, Tuple

from ..cfg import CFG, explore, refine, walk_node
from ..domains import ALL_KINDS, kind_atom
from ..model import AnalysisError, FuncInfo, Repo, method_call, src, walk_no_nested
from ..report import Ob, bad, ok, skip, note
from ..scope import local_bindings, single_def_value, full_call_name
from ..types import Typer
from . import ACTION_PROPS, rule

ACTIONS = ["apply_operation", "apply_kraus", "measure", "measure_POVM", "resize", "trace_out"]
CONTAINER_OF = {"int": ("envelope", "Envelope"), "tuple": ("composite_envelope", "CompositeEnvelope")}
CALLEE_NAME = {"resize": "resize_fock"}
KINDS_OF = {"Fock": ("int", "tuple"), "Polarization": ("int", "tuple"), "CustomState": ("tuple",)}
NEEDS_SELF_ARG = {("int", "resize"): False}   # Envelope.resize_fock(new_dimensions) takes no target


def _container_attr(e: ast.AST, fn: ast.FunctionDef) -> Optional[str]:
    """'envelope' / 'composite_envelope' when e denotes self.<that>, possibly through a local alias"""
    if isinstance(e, ast.Attribute) and src(e.value) == "self" and e.attr in ("envelope", "composite_envelope", "_envelope", "_composite_envelope"):
        return e.attr.lstrip("_")
    if isinstance(e, ast.Name):
        v = single_def_value(fn, e.id)
        if v is not None:
            if isinstance(v, ast.Call) and isinstance(v.func, ast.Name) and v.func.id == "getattr" and len(v.args) >= 2 \
                    and src(v.args[0]) == "self" and isinstance(v.args[1], ast.Constant):
                return str(v.args[1].value).lstrip("_") if str(v.args[1].value).lstrip("_") in ("envelope", "composite_envelope") else None
            return _container_attr(v, fn)
    return None


def _own_state_access(node, fi) -> Optional[str]:
    """does this CFG node touch the subsystem's *own* stored state? -> description"""
    _, limports, _ = local_bindings(fi.node)
    for x in walk_node(node):
        if isinstance(x, ast.Attribute) and x.attr == "state" and src(x.value) == "self" and isinstance(x.ctx, ast.Store):
            return "writes self.state"
        mc = method_call(x)
        if mc and src(mc[0]) == "self" and mc[1] in ("_set_measured",):
            return f"calls self.{mc[1]}()"
        if isinstance(x, ast.Call):
            full = full_call_name(x, fi, limports)
            if full and full.startswith("jax.random.") and full.split(".")[-1] not in ("split", "PRNGKey", "key", "fold_in"):
                return "draws an outcome from self.state"
        if isinstance(x, ast.Return) and x.value is not None and src(x.value) == "self.state":
            return "returns self.state"
    return None


@rule("ROUTE")
def route(repo: Repo) -> List[Ob]:
    obs: List[Ob] = []
    cells = 0
    for K, kinds in KINDS_OF.items():
        repo.cls(K)
        for A in ACTIONS:
            if A == "resize" and K != "Fock":
                continue
            fi = repo.resolve_method(K, A)
            if fi is None:
                raise AnalysisError(f"ROUTE: {K}.{A} does not resolve to a method (anchor vanished)")
            props = ACTION_PROPS.get(A, ("C13",))
            fn = fi.node
            cfg = CFG(fn)
            init: FrozenSet[str] = frozenset(("none",) + tuple(kinds))

            def atom(e, truth, st):
                k = kind_atom(e, "self")
                if k is None:
                    return [st]
                new = st & (k if truth else (ALL_KINDS - k))
                return [new] if new else []

            def transfer(s, lab, d, st):
                if s.kind in ("test", "assert") and lab in ("T", "F"):
                    return refine(s.ast, lab == "T", st, atom)
                return [st]

            seen = explore(cfg, init, transfer)
            want_meth = CALLEE_NAME.get(A, A)
            for k in kinds:
                cells += 1
                cont_attr, cont_cls = CONTAINER_OF[k]
                key = f"{K}/{A}/{k}"
                found_good = None
                wrong = None
                for node in cfg.nodes:
                    sts = seen[node]
                    if not sts:
                        continue
                    for x in walk_node(node):
                        mc = method_call(x)
                        if not mc:
                            continue
                        ca = _container_attr(mc[0], fn)
                        if ca is None:
                            continue
                        under_k = any(st == frozenset({k}) for st in sts)
                        if not under_k:
                            continue
                        if ca == cont_attr and mc[1] == want_meth:
                            passes_self = any(src(a) == "self" for a in x.args) or any(src(kw.value) == "self" for kw in x.keywords)
                            if passes_self or NEEDS_SELF_ARG.get((k, A), True) is False:
                                found_good = (node, x)
                            else:
                                wrong = (x, f"delegates to {cont_cls}.{want_meth} without passing `self` as the target")
                        elif ca != cont_attr and mc[1] in (want_meth, A):
                            wrong = (x, f"index kind {k} is delegated to self.{ca} instead of self.{cont_attr}")
                        elif ca == cont_attr and mc[1] in ACTIONS + ["resize_fock"] and mc[1] != want_meth:
                            wrong = (x, f"index kind {k} is delegated to {cont_cls}.{mc[1]} instead of {cont_cls}.{want_meth}")
                # own-state code reached while the state lives in a container?
                fall = None
                for node in cfg.nodes:
                    if any(k in st for st in seen[node]):
                        acc = _own_state_access(node, fi)
                        if acc:
                            fall = (node, acc)
                            break
                if wrong and not found_good:
                    obs.append(bad("ROUTE", fi, key, props, wrong[0], wrong[1]))
                elif not found_good:
                    n = fall[0].ast if fall else fn
                    obs.append(bad("ROUTE", fi, key, props, n,
                                   f"{K}.{A} has no branch that hands a subsystem stored in its {cont_cls} (index kind {k}) to {cont_cls}.{want_meth}"
                                   + (f"; the own-state code ({fall[1]}) runs on it instead" if fall else "")))
                elif fall:
                    obs.append(bad("ROUTE", fi, key, props, fall[0].ast or fn,
                                   f"after delegating to {cont_cls}.{want_meth} the method falls through: own-state code ({fall[1]}) is reached with index kind {k}"))
                else:
                    obs.append(ok("ROUTE", fi, key, props, found_good[1], f"delegates to {cont_cls}.{want_meth}(…self…) and terminates"))
    if cells != 27:
        raise AnalysisError(f"ROUTE: {cells} cells instead of 27")
    return obs


# ---------------------------------------------------------------------------- FLAGS
FLAG_NAMES = ("destructive", "separate_measurement", "partial")
FLAG_ACTIONS = ("measure", "measure_POVM")


def _param_default(fi: FuncInfo, name: str):
    a = fi.node.args
    pos = a.posonlyargs + a.args
    defaults = [None] * (len(pos) - len(a.defaults)) + list(a.defaults)
    for p, d in zip(pos, defaults):
        if p.arg == name:
            return d
    for p, d in zip(a.kwonlyargs, a.kw_defaults):
        if p.arg == name:
            return d
    return None


def _positional_slot(fi: FuncInfo, name: str) -> Optional[int]:
    a = fi.node.args
    pos = [p.arg for p in a.posonlyargs + a.args]
    if pos and pos[0] in ("self", "cls"):
        pos = pos[1:]
    if name in pos and a.vararg is None:
        return pos.index(name)
    if name in pos and a.vararg is not None:
        return pos.index(name)
    return None


@rule("FLAGS")
def flags(repo: Repo) -> List[Ob]:
    obs: List[Ob] = []
    n_calls = 0
    shared_sites = 0
    for fi in repo.scan_functions():
        if fi.node.name not in FLAG_ACTIONS or fi.cls is None:
            continue
        g_flags = [x for x in FLAG_NAMES if x in fi.params]
        if not g_flags:
            continue
        if fi.qualname == "CustomState.measure":
            # one named exception: a custom state is never destroyed and has no envelope partner, so
            # `destructive`/`separate_measurement` are documented (and, by BOOK-evict, implemented) as
            # having no effect on it – dropping them at the delegation cannot change behaviour
            continue
        props = ("C05", "C04") if fi.node.name == "measure" else ("C09",)
        if fi.node.name == "measure":
            props = ("C05",)
        base_props = props
        typer = Typer(repo, fi)
        cfg = CFG(fi.node)
        is_state_cls = fi.cls.name in ("Fock", "Polarization", "CustomState", "BaseState")
        kinds0 = frozenset({"none", "tuple"}) if fi.cls.name == "CustomState" else ALL_KINDS
        init = (kinds0 if is_state_cls else None, tuple((f, None) for f in g_flags))

        def atom(e, truth, st):
            kinds, fl = st
            if isinstance(e, ast.Name) and e.id in g_flags:
                cur = dict(fl)[e.id]
                if cur is not None and cur != truth:
                    return []
                return [(kinds, tuple((k, (truth if k == e.id else v)) for k, v in fl))]
            if kinds is not None:
                k = kind_atom(e, "self")
                if k is not None:
                    new = kinds & (k if truth else (ALL_KINDS - k))
                    return [(new, fl)] if new else []
            return [st]

        def transfer(s, lab, d, st):
            if s.kind in ("test", "assert") and lab in ("T", "F"):
                return refine(s.ast, lab == "T", st, atom)
            return [st]

        seen = explore(cfg, init, transfer)
        ordinal: Dict[str, int] = {}
        for node in cfg.nodes:
            for x in walk_node(node):
                mc = method_call(x)
                if not mc or mc[1] not in FLAG_ACTIONS:
                    continue
                cands = typer.callees(x)
                cands = [c for c in cands if c.node.name == mc[1]]
                if not cands:
                    continue
                n_calls += 1
                # a receiver that may be of several classes is named by the method alone: which subset of the state classes the typing can
                # narrow it to depends on how the loop over the members is spelled, not on what is called
                cname = cands[0].qualname if len(cands) == 1 else f"*.{mc[1]}"
                ordinal[cname] = ordinal.get(cname, 0) + 1
                if not seen[node]:
                    obs.append(note("FLAGS", fi, f"{cname}#{ordinal[cname]}", props, x, "call is in a branch the index-kind domain proves dead"))
                    continue
                for flag in g_flags:
                    if not all(flag in c.params for c in cands):
                        continue
                    shared_sites += 1
                    key = f"flag={flag}->{cname}#{ordinal[cname]}"
                    props = base_props + (("C20",) if flag == "separate_measurement" else ())   # a lost separate_measurement drags the partner (another block) in
                    if mc[1] == "measure" and "C05" not in props:
                        props = props + ("C05",)      # a projective measurement of the partner inside a POVM call: its flags are C05's flags
                    passed = None
                    for kw in x.keywords:
                        if kw.arg == flag:
                            passed = kw.value
                        if kw.arg is None:      # **kwargs forwarding
                            passed = passed or kw.value
                    if passed is None:
                        slots = {_positional_slot(c, flag) for c in cands}
                        has_star = any(isinstance(a, ast.Starred) for a in x.args)
                        if len(slots) == 1 and None not in slots and not has_star:
                            i = slots.pop()
                            if all(c.node.args.vararg is None for c in cands) and i < len(x.args):
                                passed = x.args[i]
                    if passed is not None:
                        if isinstance(passed, ast.Name) and passed.id == flag:
                            obs.append(ok("FLAGS", fi, key, props, x, f"`{flag}` forwarded"))
                        elif isinstance(passed, ast.Constant):
                            # a constant is right only where the guard pins the flag to it
                            pinned = all(dict(st[1])[flag] == passed.value for st in seen[node])
                            (obs.append(ok("FLAGS", fi, key, props, x, f"`{flag}` pinned to {passed.value} by the guard")) if pinned else
                             obs.append(bad("FLAGS", fi, key, props, x, f"`{flag}` is replaced by the constant {passed.value} when delegating to {cname}", code=f"constant:{passed.value}")))
                        elif isinstance(passed, ast.UnaryOp) and isinstance(passed.op, ast.Not) and src(passed.operand) == flag:
                            obs.append(bad("FLAGS", fi, key, props, x, f"`{flag}` is inverted when delegating to {cname}", code="inverted"))
                        else:
                            obs.append(skip("FLAGS", fi, key, props, x, f"`{flag}` passed as `{src(passed)}`"))
                        continue
                    # not passed: fine only if every reaching state pins the flag to the callee default
                    defaults = set()
                    for c in cands:
                        d = _param_default(c, flag)
                        defaults.add(d.value if isinstance(d, ast.Constant) else "?")
                    pinned = len(defaults) == 1 and "?" not in defaults and all(dict(st[1])[flag] == next(iter(defaults)) for st in seen[node])
                    if pinned:
                        obs.append(ok("FLAGS", fi, key, props, x, f"`{flag}` is pinned to the callee default by the enclosing guard"))
                    else:
                        obs.append(bad("FLAGS", fi, key, props, x,
                                       f"{fi.qualname} receives `{flag}` but calls {cname} without it: the callee runs with its default ({', '.join(map(str, defaults))})", code="dropped"))
    if n_calls < 15 or shared_sites < 15:
        raise AnalysisError(f"FLAGS: only {n_calls} action->action calls / {shared_sites} shared-flag sites found")
    return obs


ENV_ACTIONS = ("apply_operation", "apply_kraus", "measure", "measure_POVM", "trace_out", "resize_fock")


@rule("ROUTE-env")
def route_env(repo: Repo) -> List[Ob]:
    """an envelope hands a request to its composite envelope only when the state lives there: either the guard of the delegation
    establishes that a member's index is a (product space, slot) tuple, or the composite entry point itself copes with subsystems
    that are in none of its product spaces (a branch for `len(product_states) == 0` that does not reject).  Otherwise a combined
    envelope that merely *belongs* to a composite cannot be operated on."""
    obs: List[Ob] = []
    n = 0
    for A in ENV_ACTIONS:
        fi = repo.func(f"Envelope.{A}")
        props = ACTION_PROPS.get(A, ("C13",))
        props = tuple(dict.fromkeys(tuple(props) + (("C10", "C01") if A == "trace_out" else ())))   # trace_out feeds resize guards and cutoffs
        callee = repo.resolve_method("CompositeEnvelope", A)
        k = 0
        for i_ in [x for x in walk_no_nested(fi.node) if isinstance(x, ast.If)]:
            calls = [c for b in i_.body for c in [b] + list(walk_no_nested(b)) if isinstance(c, ast.Call) and method_call(c) and method_call(c)[1] == A
                     and "composite_envelope" in src(method_call(c)[0])]
            if not calls:
                continue
            k += 1
            n += 1
            t = src(i_.test)
            by_index = "tuple" in t and ".index" in t
            copes = False
            rejects = False
            if callee is not None:
                for x in walk_no_nested(callee.node):
                    if isinstance(x, ast.Assert) and "product_states" in src(x.test) and ("> 0" in src(x.test) or ">= 1" in src(x.test)) and not _after_combine(callee.node, x):
                        rejects = True
                    if isinstance(x, ast.If) and "product_states" in src(x.test) and ("== 0" in src(x.test) or src(x.test).startswith("not ")):
                        copes = not any(isinstance(y, (ast.Raise, ast.Assert)) for y in x.body)
            key = f"delegation#{k}"
            if by_index or (copes and not rejects):
                obs.append(ok("ROUTE-env", fi, key, props, calls[0], "delegated only when the state lives in the composite" if by_index else "the composite entry point copes with subsystems outside its product spaces"))
            else:
                obs.append(bad("ROUTE-env", fi, key, props, calls[0],
                               f"Envelope.{A} hands the request to the composite whenever the envelope *belongs* to one (`{t[:60]}`), but CompositeEnvelope.{A} rejects subsystems that are in none of "
                               "its product spaces: a combined envelope inside a composite envelope cannot be served (the call fails with 'No product state found')"))
    if n < 3:
        raise AnalysisError(f"ROUTE-env: {n} envelope -> composite delegations (floor 3)")
    return obs


def _after_combine(fn: ast.AST, node: ast.AST) -> bool:
    """the assertion sits after a self.combine(...) in the same block (it checks the result of combining, not the request)"""
    for blk_owner in ast.walk(fn):
        for fld in ("body", "orelse"):
            blk = getattr(blk_owner, fld, None)
            if isinstance(blk, list) and node in blk:
                before = blk[:blk.index(node)]
                return any(method_call(c) and method_call(c)[1] == "combine" for s in before for c in ast.walk(s) if isinstance(c, ast.Call))
    return False
