"""KRAUS-SUM, KRAUS-LEVEL, KRAUS-VALID, POVM-LEVEL (DESIGN §3)."""
from __future__ import annotations

import ast
from typing import Dict, FrozenSet, List, Optional, Set

from ..cfg import CFG, Node, explore, refine, walk_node
from ..domains import ALL_LEVELS, LevelTracker
from ..model import AnalysisError, FuncInfo, Repo, call_np, method_call, src, walk_no_nested
from ..report import Ob, bad, ok, skip
from ..scope import full_call_name, local_bindings
from . import rule

KRAUS_FUNCS = ["BaseState.apply_kraus", "CustomState.apply_kraus", "Envelope.apply_kraus", "ProductState.apply_kraus",
               "CompositeEnvelope.apply_kraus"]
UPDATING = ["BaseState.apply_kraus", "CustomState.apply_kraus", "Envelope.apply_kraus", "ProductState.apply_kraus"]


def expand_map(repo: Repo, cname: str) -> Dict[int, FrozenSet[int]]:
    """level transformer of <cname>.expand(), derived by running the level domain over its body"""
    fi = repo.resolve_method(cname, "expand")
    if fi is None:
        raise AnalysisError(f"{cname}.expand vanished")
    cfg = CFG(fi.node)
    out = {}
    for l0 in (0, 1, 2):
        lt = LevelTracker(["self"], {"self": frozenset({l0})})
        seen = explore(cfg, lt.init, lt.transfer)
        u: Set[int] = set()
        for st in seen[cfg.exit]:
            u |= LevelTracker.get(st, "self")
        out[l0] = frozenset(u) if u else frozenset({l0})
    return out


class _LT(LevelTracker):
    """LevelTracker whose `self.expand()` uses the derived transformer of the receiver's class"""

    def __init__(self, emap, init):
        super().__init__(["self"], init)
        self.emap = emap

    def _calls(self, e, state):
        for n in [e] + list(walk_no_nested(e)):
            mc = method_call(n)
            if mc and src(mc[0]) == "self" and mc[1] == "expand":
                cur = self.get(state, "self")
                new = set()
                for v in cur:
                    new |= self.emap[v]
                state = self.set(state, "self", frozenset(new))
                return state
        return super()._calls(e, state)


def _is_kraus_application(e: ast.AST, fi: FuncInfo, limports) -> bool:
    for n in [e] + list(walk_no_nested(e)):
        if isinstance(n, ast.Call):
            if call_np(n) == "einsum" and len(n.args) >= 3:
                return True
            if call_np(n) in ("matmul",) or (isinstance(n.func, ast.Name) and n.func.id == "apply_kraus"):
                return True
            full = full_call_name(n, fi, limports)
            if full and full.endswith("ops.apply_kraus"):
                return True
        if isinstance(n, ast.BinOp) and isinstance(n.op, ast.MatMult):
            return True
    return False


@rule("KRAUS-SUM")
def kraus_sum(repo: Repo) -> List[Ob]:
    obs: List[Ob] = []
    P = ("C06",)
    sites = 0
    funcs = [repo.func(q) for q in KRAUS_FUNCS] + [repo.func("ops:apply_kraus")]
    for fi in funcs:
        _, limports, _ = local_bindings(fi.node)
        cfg = None
        k = 0
        for loop in [n for n in walk_no_nested(fi.node) if isinstance(n, ast.For)]:
            it = src(loop.iter)
            if "operators" not in it:
                continue
            # the statement in the loop body that applies the operator
            for st in loop.body:
                app = None
                if isinstance(st, ast.AugAssign) and _is_kraus_application(st.value, fi, limports):
                    app = ("aug", st)
                elif isinstance(st, ast.Assign) and _is_kraus_application(st.value, fi, limports) and len(st.targets) == 1 and isinstance(st.targets[0], ast.Name):
                    app = ("assign", st)
                if app is None:
                    continue
                sites += 1
                k += 1
                key = f"accumulate#{k}"
                kind, s = app
                acc = s.target.id if kind == "aug" and isinstance(s.target, ast.Name) else (s.targets[0].id if kind == "assign" else None)
                if kind == "aug":
                    if not isinstance(s.op, ast.Add):
                        obs.append(bad("KRAUS-SUM", fi, key, P, s, f"Kraus terms are combined with `{type(s.op).__name__}` instead of being summed"))
                        continue
                else:
                    uses_acc = any(isinstance(x, ast.Name) and x.id == acc for x in ast.walk(s.value))
                    is_sum = (isinstance(s.value, ast.BinOp) and isinstance(s.value.op, ast.Add)) or call_np(s.value) == "add"
                    if not (uses_acc and is_sum):
                        obs.append(bad("KRAUS-SUM", fi, key, P, s,
                                       f"`{acc} = …` inside the loop over the Kraus operators overwrites the accumulator: only the last K_i rho K_i^dagger survives instead of the sum"))
                        continue
                # initialisation: zeros(-like) reaching the loop
                cfg = cfg or CFG(fi.node)
                hdr = [n for n in cfg.nodes_of(loop) if n.kind == "iter"][0]
                defs = [d for d in cfg.reaching_defs(hdr, acc) if d.loops == hdr.loops or len(d.loops) <= len(hdr.loops)]
                inits = [d for d in defs if not (d.stmt is not None and any(d.stmt is b or any(d.stmt is x for x in ast.walk(b)) for b in loop.body))]
                good_init = bool(inits) and all(d.kind == "stmt" and isinstance(d.ast, ast.Assign) and call_np(d.ast.value) in ("zeros_like", "zeros") for d in inits)
                if good_init:
                    obs.append(ok("KRAUS-SUM", fi, key, P, s, "accumulator starts at zero and every K_i rho K_i^dagger is added"))
                else:
                    obs.append(bad("KRAUS-SUM", fi, key, P, s, f"accumulator `{acc}` is not initialised with zeros before the loop"))
    # vectorised form:  vec(K rho K^dagger) = (K (x) conj K) vec(rho) for the row-major flattening that reshape/ravel/flatten perform
    # (column-major: conj K (x) K).  The two factors of the kron and the flattening order have to belong together.
    from ..domains import is_conj
    for fi in funcs:
        for c in [x for x in walk_no_nested(fi.node) if isinstance(x, ast.Call) and call_np(x) == "kron" and len(x.args) == 2]:
            a0, a1 = c.args
            c0 = is_conj(a0) is not None or (method_call(a0) and method_call(a0)[1] in ("conj", "conjugate"))
            c1 = is_conj(a1) is not None or (method_call(a1) and method_call(a1)[1] in ("conj", "conjugate"))
            base0 = src(is_conj(a0)) if is_conj(a0) is not None else (src(method_call(a0)[0]) if c0 else src(a0))
            base1 = src(is_conj(a1)) if is_conj(a1) is not None else (src(method_call(a1)[0]) if c1 else src(a1))
            if base0 != base1 or c0 == c1:
                continue           # not a K (x) conj K pair
            sites += 1
            flat = [y for y in walk_no_nested(fi.node) if isinstance(y, ast.Call) and ((method_call(y) and method_call(y)[1] in ("reshape", "flatten", "ravel")) or call_np(y) in ("reshape", "ravel"))]
            col_major = any(any(k.arg == "order" and isinstance(k.value, ast.Constant) and k.value.value == "F" for k in y.keywords) for y in flat)
            mixed = col_major and not all(any(k.arg == "order" for k in y.keywords) for y in flat)
            want_conj_first = col_major
            key = "superoperator-order"
            if mixed:
                obs.append(skip("KRAUS-SUM", fi, key, P, c, "row-major and column-major flattenings are mixed"))
            elif (c0 and want_conj_first) or (c1 and not want_conj_first):
                obs.append(ok("KRAUS-SUM", fi, key, P, c, "the superoperator's factor order matches the flattening order"))
            else:
                obs.append(bad("KRAUS-SUM", fi, key, P, c,
                               f"`{src(c)[:50]}` is applied to a {'column' if col_major else 'row'}-major flattening of rho ({'order=F' if col_major else 'reshape/ravel/flatten default'}): "
                               f"vec(K rho K^dagger) is ({'conj K (x) K' if col_major else 'K (x) conj K'}) vec(rho) there – with the factors the other way round the channel applied is "
                               "conj(K) rho K^T, equal to K rho K^dagger for real operators only"))
    if sites < 5:
        raise AnalysisError(f"KRAUS-SUM: {sites} accumulation sites (floor 5)")
    return obs


def _state_update_nodes(cfg: CFG, fi: FuncInfo) -> List[Node]:
    out = []
    for n in cfg.nodes:
        a = n.ast
        if n.kind == "stmt" and isinstance(a, (ast.Assign, ast.AugAssign)):
            targets = a.targets if isinstance(a, ast.Assign) else [a.target]
            if any(isinstance(t, ast.Attribute) and t.attr == "state" and src(t.value) == "self" for t in targets):
                out.append(n)
    return out


@rule("KRAUS-LEVEL")
def kraus_level(repo: Repo) -> List[Ob]:
    obs: List[Ob] = []
    P = ("C06",)
    for q in UPDATING:
        fi = repo.func(q)
        cname = fi.cls.name
        owner = "Fock" if cname == "BaseState" else cname
        emap = expand_map(repo, owner)
        if cname == "BaseState":
            # union over the concrete subclasses that inherit apply_kraus
            for sub in ("Polarization",):
                m2 = expand_map(repo, sub)
                emap = {k: emap[k] | m2[k] for k in emap}
        init = {"self": frozenset({1, 2})} if cname in ("ProductState", "Envelope") else {}
        lt = _LT(emap, init)
        cfg = CFG(fi.node)
        seen = explore(cfg, lt.init, lt.transfer)
        ups = _state_update_nodes(cfg, fi)
        if not ups:
            raise AnalysisError(f"KRAUS-LEVEL: no state update found in {q}")
        for i, n in enumerate(ups, 1):
            lv: Set[int] = set()
            for st in seen[n]:
                lv |= LevelTracker.get(st, "self")
            if not seen[n]:
                continue
            key = f"update#{i}"
            if lv == {2}:
                obs.append(ok("KRAUS-LEVEL", fi, key, P, n.ast, "channel result is stored at Matrix level on every path"))
            else:
                names = sorted({0: "Label", 1: "Vector", 2: "Matrix"}[x] for x in lv)
                obs.append(bad("KRAUS-LEVEL", fi, key, P, n.ast,
                               f"a Kraus update of self.state is reachable at level {names}: a channel applied to a ket stores sum_i K_i|psi> (not a state) instead of the mixture"))
    # CompositeEnvelope.apply_kraus must hand over to one of the updating entry points on every normal path
    fi = repo.func("CompositeEnvelope.apply_kraus")
    cfg = CFG(fi.node)
    deleg = {n for n in cfg.nodes for x in walk_node(n) if method_call(x) and method_call(x)[1] == "apply_kraus"}
    if not deleg:
        raise AnalysisError("KRAUS-LEVEL: CompositeEnvelope.apply_kraus delegates nowhere")
    (obs.append(ok("KRAUS-LEVEL", fi, "delegates", P, fi.node, "every normal path ends in an apply_kraus of a state / envelope / product state")) if cfg.always_followed_by(cfg.entry, deleg) else
     obs.append(bad("KRAUS-LEVEL", fi, "delegates", P, fi.node, "a normal path through CompositeEnvelope.apply_kraus applies nothing")))
    return obs


@rule("POVM-LEVEL")
def povm_level(repo: Repo) -> List[Ob]:
    """POVM post-states are computed at Matrix level: promotion dominates the first use of self.state"""
    obs: List[Ob] = []
    P = ("C09",)
    for q in ["BaseState.measure_POVM", "CustomState.measure_POVM", "Envelope.measure_POVM", "ProductState.measure_POVM"]:
        fi = repo.func(q)
        cname = fi.cls.name
        owner = "Fock" if cname == "BaseState" else cname
        emap = expand_map(repo, owner)
        if cname == "BaseState":
            m2 = expand_map(repo, "Polarization")
            emap = {k: emap[k] | m2[k] for k in emap}
        init = {"self": frozenset({1, 2})} if cname in ("ProductState",) else {}
        lt = _LT(emap, init)
        cfg = CFG(fi.node)
        seen = explore(cfg, lt.init, lt.transfer)
        ups = _state_update_nodes(cfg, fi)
        if not ups:
            raise AnalysisError(f"POVM-LEVEL: no state update in {q}")
        for i, n in enumerate(ups, 1):
            if not seen[n]:
                continue
            lv: Set[int] = set()
            for st in seen[n]:
                lv |= LevelTracker.get(st, "self")
            key = f"post-state#{i}"
            if cname == "Envelope":
                # Envelope.combine() (called for two uncombined members) re-derives the level from the
                # members; the promotion loop precedes it – accept {Matrix} or top-after-combine
                if lv == {2} or lv == set(ALL_LEVELS):
                    loops = [t for t in cfg.nodes if t.kind == "test" and "expansion_level" in src(t.ast) and "Matrix" in src(t.ast) and isinstance(t.stmt, ast.While)]
                    good = bool(loops) and cfg.must_pass_through(n, set(loops))
                    (obs.append(ok("POVM-LEVEL", fi, key, P, n.ast, "promotion loop to Matrix dominates the post-state")) if good else
                     obs.append(bad("POVM-LEVEL", fi, key, P, n.ast, "no promotion to Matrix dominates the POVM post-state")))
                    continue
            if lv == {2}:
                obs.append(ok("POVM-LEVEL", fi, key, P, n.ast, "post-measurement state stored at Matrix level"))
            else:
                obs.append(bad("POVM-LEVEL", fi, key, P, n.ast, f"POVM post-state may be stored at level set {sorted(lv)} (no promotion to Matrix on some path)"))
    return obs


PUBLIC_KRAUS = ["BaseState.apply_kraus", "CustomState.apply_kraus", "Envelope.apply_kraus", "CompositeEnvelope.apply_kraus"]


@rule("KRAUS-VALID")
def kraus_valid(repo: Repo) -> List[Ob]:
    obs: List[Ob] = []
    P = ("C06", "C17")
    for q in PUBLIC_KRAUS:
        fi = repo.func(q)
        cfg = CFG(fi.node)
        _, limports, _ = local_bindings(fi.node)
        from ..types import Typer
        typer = Typer(repo, fi)

        def is_dim_test(e):
            t = src(e)
            if ".shape" in t and isinstance(e, (ast.Compare, ast.UnaryOp, ast.BoolOp)):
                return True
            # first = next((op for op in operators if op.shape != (d, d)), None) … `if first is not None: raise`
            if isinstance(e, ast.Compare) and len(e.ops) == 1 and isinstance(e.ops[0], (ast.Is, ast.IsNot)) and isinstance(e.left, ast.Name) \
                    and isinstance(e.comparators[0], ast.Constant) and e.comparators[0].value is None:
                from ..model import single_defs as _sd3
                v_ = _sd3(fi.node).get(e.left.id)
                if isinstance(v_, ast.Call) and isinstance(v_.func, ast.Name) and v_.func.id == "next" and v_.args and isinstance(v_.args[0], (ast.GeneratorExp, ast.ListComp)) \
                        and any(".shape" in src(c_) for g_ in v_.args[0].generators for c_ in g_.ifs):
                    return True
            # any(op.shape != (d, d) for op in operators) / not all(op.shape == (d, d) for op in operators)
            inner = e.operand if isinstance(e, ast.UnaryOp) and isinstance(e.op, ast.Not) else e
            if isinstance(inner, ast.Call) and isinstance(inner.func, ast.Name) and inner.func.id in ("any", "all") and len(inner.args) == 1 \
                    and isinstance(inner.args[0], (ast.GeneratorExp, ast.ListComp)) and isinstance(inner.args[0].elt, (ast.Compare, ast.UnaryOp, ast.BoolOp)) \
                    and ".shape" in src(inner.args[0].elt):
                return True
            return False

        def is_ident_test(e):
            return any(isinstance(x, ast.Call) and (src(x.func).split(".")[-1] == "kraus_identity_check") for x in [e] + list(ast.walk(e)))

        def flag_atom(e, truth, st):
            return [st]

        def transfer(s, lab, d, st):
            dim, ident = st
            if s.kind in ("test", "assert") and lab in ("T", "F"):
                if is_dim_test(s.ast):
                    dim = True
                if is_ident_test(s.ast):
                    ident = True
                if isinstance(s.ast, ast.Name) and s.ast.id == "identity_check" and lab == "F":
                    ident = True     # the caller waived the completeness check
            if s.kind == "iter" and lab == "done" and isinstance(s.stmt, ast.For):
                # a per-operator check in `for op in operators:` counts once the loop is done
                # (an empty operator list has nothing to validate)
                for x in ast.walk(s.stmt):
                    if isinstance(x, (ast.If, ast.Assert)) and is_dim_test(x.test):
                        dim = True
            return [(dim, ident)]

        seen = explore(cfg, (False, False), transfer)
        # own updates: self.state writes from a Kraus application, and hand-over to ProductState.apply_kraus
        ups = []
        for n in cfg.nodes:
            a = n.ast
            if n.kind == "stmt" and isinstance(a, (ast.Assign, ast.AugAssign)):
                targets = a.targets if isinstance(a, ast.Assign) else [a.target]
                if any(isinstance(t, ast.Attribute) and t.attr == "state" and src(t.value) == "self" for t in targets):
                    ups.append(n)
            for x in walk_node(n):
                mc = method_call(x)
                if mc and mc[1] == "apply_kraus" and isinstance(mc[0], ast.Name) and typer.classes(mc[0]) == {"ProductState"}:
                    ups.append(n)
        if not ups:
            raise AnalysisError(f"KRAUS-VALID: no update found in {q}")
        dim_bad = [n for n in ups if any(not d for d, _ in seen[n])]
        id_bad = [n for n in ups if any(not i for _, i in seen[n])]
        (obs.append(bad("KRAUS-VALID", fi, "dimension-check", P, dim_bad[0].ast, "a Kraus update is reachable without passing the operator-dimension check")) if dim_bad else
         obs.append(ok("KRAUS-VALID", fi, "dimension-check", P, fi.node, "every update is preceded by the operator-dimension check")))
        (obs.append(bad("KRAUS-VALID", fi, "identity-check", P, id_bad[0].ast, "a Kraus update is reachable without kraus_identity_check (sum K^dagger K = I)")) if id_bad else
         obs.append(ok("KRAUS-VALID", fi, "identity-check", P, fi.node, "every update is preceded by the completeness check")))
    # the check itself: sum of K^dagger K compared with the identity
    kc = repo.func("ops:kraus_identity_check")
    txt = src(kc.node)
    from ..domains import is_dagger
    good = False
    for n in walk_no_nested(kc.node):
        if (isinstance(n, ast.Call) and call_np(n) in ("matmul", "dot") and len(n.args) == 2) or (isinstance(n, ast.BinOp) and isinstance(n.op, ast.MatMult)):
            a, b = (n.args[0], n.args[1]) if isinstance(n, ast.Call) else (n.left, n.right)
            d = is_dagger(a)
            if d is not None and src(d) == src(b):
                good = True
    has_eye = any(call_np(n) in ("eye", "identity") for n in walk_no_nested(kc.node))
    has_cmp = any(call_np(n) in ("allclose", "isclose", "array_equal") for n in walk_no_nested(kc.node))
    (obs.append(ok("KRAUS-VALID", kc, "identity-formula", P, kc.node, "checks sum K^dagger K against the identity")) if good and has_eye and has_cmp else
     obs.append(bad("KRAUS-VALID", kc, "identity-formula", P, kc.node, "kraus_identity_check no longer compares sum_i K_i^dagger K_i with the identity")))
    # the comparison sees the whole (complex) sum: a projection of it (real part, modulus, diagonal, trace) accepts operator
    # sets whose sum differs from the identity in the discarded part
    from ..model import single_defs
    defs = single_defs(kc.node)
    LOSSY = {"real", "imag", "abs", "absolute", "diag", "diagonal", "trace", "angle", "linalg.norm"}
    for k, c in enumerate([n for n in walk_no_nested(kc.node) if isinstance(n, ast.Call) and call_np(n) in ("allclose", "isclose", "array_equal")], 1):
        lossy = None
        for a in c.args[:2]:
            e = defs.get(a.id, a) if isinstance(a, ast.Name) else a
            for x in [e] + list(ast.walk(e)):
                if isinstance(x, ast.Call) and (call_np(x) in LOSSY or (isinstance(x.func, ast.Name) and x.func.id == "abs")):
                    lossy = src(x)[:40]
                if isinstance(x, ast.Attribute) and x.attr in ("real", "imag") and not isinstance(x.value, ast.Name):
                    lossy = src(x)[:40]
                if isinstance(x, ast.Attribute) and x.attr in ("real", "imag") and isinstance(x.value, ast.Name) and x.value.id not in ("jnp", "np"):
                    lossy = src(x)[:40]
        (obs.append(bad("KRAUS-VALID", kc, f"identity-compares-whole-sum#{k}", P, c, f"the completeness test compares `{lossy}` – a projection of sum K^dagger K – with the identity: operator sets whose sum deviates in the discarded part are accepted")) if lossy else
         obs.append(ok("KRAUS-VALID", kc, f"identity-compares-whole-sum#{k}", P, c, "the comparison sees the whole sum")))
    return obs
