"""BLOCK – only the addressed blocks are merged or written (DESIGN §3, property C20)."""
from __future__ import annotations

import ast
from typing import Dict, List, Optional, Set, Tuple

from ..cfg import CFG, Node, explore, refine, resolve_at, walk_node
from ..model import AnalysisError, FuncInfo, Repo, method_call, src, walk_no_nested
from ..model import dotted as dotted_name
from ..report import Ob, bad, note, ok, skip
from ..scope import assignments_to
from . import rule

CE_ACTIONS = ["apply_operation", "apply_kraus", "measure_POVM", "trace_out", "reorder", "resize_fock", "measure", "expand"]
ALL_SPACES = {"self.states", "self.product_states", "self.container.states", "self._containers[self.uid].states",
              "CompositeEnvelope._containers[self.uid].states"}


def _vararg(fn: ast.FunctionDef) -> Optional[str]:
    return fn.args.vararg.arg if fn.args.vararg else None


def _selection_ok(comp: ast.ListComp, params: Set[str]) -> Optional[str]:
    """a selection of product spaces: [p for p in <all spaces> if any/all(<member of p.state_objs relates to the addressed states>)]"""
    if len(comp.generators) != 1:
        return "nested selection"
    g = comp.generators[0]
    if src(g.iter) not in ALL_SPACES:
        return None      # not a selection over all spaces
    if not g.ifs:
        return "selects every product space (no condition)"
    pvar = src(g.target)
    for cond in g.ifs:
        txt = src(cond)
        if isinstance(cond, ast.Constant):
            return "selection condition is a constant"
        # a disjunction selects a space as soon as *one* alternative holds: every alternative has to tie the space to the addressed subsystems
        alts = cond.values if isinstance(cond, ast.BoolOp) and isinstance(cond.op, ast.Or) else [cond]
        for alt in alts:
            ta = src(alt)
            mentions_space = f"{pvar}.state_objs" in ta
            mentions_param = any(isinstance(x, ast.Name) and x.id in params for x in ast.walk(alt))
            has_member = any(isinstance(x, ast.Compare) and isinstance(x.ops[0], (ast.In, ast.NotIn, ast.Is, ast.Eq)) for x in ast.walk(alt))
            if not (mentions_space and mentions_param and has_member):
                return (f"selection condition `{txt[:50]}` does not relate {pvar}.state_objs to the addressed subsystems" if len(alts) == 1 else
                        f"the alternative `{ta[:40]}` of the selection condition selects product spaces without relating {pvar}.state_objs to the addressed subsystems")
    return ""


def _members_of_selected(fn: ast.AST, e: ast.AST, selected: Dict[str, str]) -> bool:
    """the expression enumerates the members of membership-selected product spaces:
    [so for p in SEL for so in p.state_objs]  /  itertools.chain.from_iterable(p.state_objs for p in SEL)  /  chain(*[p.state_objs for p in SEL])"""
    from ..model import single_defs
    defs = single_defs(fn)

    def res(x):
        for _ in range(3):
            if isinstance(x, ast.Name) and x.id in defs:
                x = defs[x.id]
        return x
    e = res(e)
    if isinstance(e, (ast.ListComp, ast.GeneratorExp)) and len(e.generators) == 2:
        g1, g2 = e.generators
        return isinstance(g1.iter, ast.Name) and selected.get(g1.iter.id) == "" and src(g2.iter) == f"{src(g1.target)}.state_objs" and src(e.elt) == src(g2.target) and not g1.ifs and not g2.ifs
    if isinstance(e, ast.Call) and (dotted_name(e.func) or "").endswith("chain.from_iterable") and len(e.args) == 1:
        inner = res(e.args[0])
        if isinstance(inner, (ast.ListComp, ast.GeneratorExp)) and len(inner.generators) == 1:
            g = inner.generators[0]
            return isinstance(g.iter, ast.Name) and selected.get(g.iter.id) == "" and src(inner.elt) == f"{src(g.target)}.state_objs" and not g.ifs
    if isinstance(e, ast.Call) and (dotted_name(e.func) or "").split(".")[-1] == "chain" and len(e.args) == 1 and isinstance(e.args[0], ast.Starred):
        inner = res(e.args[0].value)
        if isinstance(inner, (ast.ListComp, ast.GeneratorExp)) and len(inner.generators) == 1:
            g = inner.generators[0]
            return isinstance(g.iter, ast.Name) and selected.get(g.iter.id) == "" and src(inner.elt) == f"{src(g.target)}.state_objs" and not g.ifs
    return False


@rule("BLOCK")
def block(repo: Repo) -> List[Ob]:
    obs: List[Ob] = []
    P = ("C20",)
    n_combine = n_sel = n_short = 0
    ce = repo.cls("CompositeEnvelope")
    for name in CE_ACTIONS:
        fi = ce.methods.get(name)
        if fi is None:
            raise AnalysisError(f"BLOCK: CompositeEnvelope.{name} vanished")
        props = ("C20", "C03") if name == "apply_operation" else P
        fn = fi.node
        va = _vararg(fn)
        params = set(fi.params) - {"self"}
        # names that are order-preserving copies of the vararg / lists of the addressed states
        addressed: Set[str] = set(params)
        selected_lists: Dict[str, str] = {}
        assigns = sorted([n for n in walk_no_nested(fn) if isinstance(n, ast.Assign) and len(n.targets) == 1 and isinstance(n.targets[0], ast.Name)],
                         key=lambda x: (x.lineno, x.col_offset))
        for _ in range(3):
            for n in assigns:
                t, v = n.targets[0].id, n.value
                if isinstance(v, ast.ListComp) and len(v.generators) == 1:
                    g = v.generators[0]
                    if isinstance(g.iter, ast.Name) and g.iter.id in addressed and not g.ifs and src(v.elt) == src(g.target):
                        addressed.add(t)
                if isinstance(v, ast.Call) and isinstance(v.func, ast.Name) and v.func.id in ("list", "tuple") and v.args and isinstance(v.args[0], ast.Name) and v.args[0].id in addressed:
                    addressed.add(t)
        k_sel = 0
        for n in assigns:
            t, v = n.targets[0].id, n.value
            if isinstance(v, ast.ListComp):
                r = _selection_ok(v, addressed)
                if r is not None:
                    n_sel += 1
                    k_sel += 1
                    selected_lists[t] = r
                    (obs.append(ok("BLOCK", fi, f"selection#{k_sel}", props, n, "product spaces are selected by membership of an addressed subsystem")) if r == "" else
                     obs.append(bad("BLOCK", fi, f"selection#{k_sel}", props, n, f"{r}: bystander product spaces would be merged/written")))
        # (a) arguments of self.combine(*A)
        k = 0
        for n in walk_no_nested(fn):
            mc = method_call(n)
            if not (mc and mc[1] == "combine" and src(mc[0]) == "self"):
                continue
            k += 1
            n_combine += 1
            key = f"combine#{k}"
            verdict = None
            # combine(*chain(A, B, *G)): the chained pieces are judged one by one; a starred piece `*G` inside chain() is the chain over the
            # elements of G (`members = (p.state_objs for p in SELECTED)`)
            flat_args = []
            from ..model import single_defs as _sdefs
            _d = _sdefs(fn)
            for a in n.args:
                inner0 = a.value if isinstance(a, ast.Starred) else a
                # `all_states = list(chain(states, cohabitants))` … combine(*all_states): the once-bound local is read through
                if isinstance(inner0, ast.Name) and inner0.id in _d and inner0.id not in params:
                    v0 = _d[inner0.id]
                    if isinstance(v0, ast.Call) and isinstance(v0.func, ast.Name) and v0.func.id in ("list", "tuple") and len(v0.args) == 1:
                        v0 = v0.args[0]
                    if isinstance(v0, ast.Call) and (dotted_name(v0.func) or "").split(".")[-1] == "chain" and not (dotted_name(v0.func) or "").endswith("from_iterable") and len(v0.args) > 1:
                        inner0 = v0
                if isinstance(inner0, ast.Call) and (dotted_name(inner0.func) or "").split(".")[-1] == "chain" and not inner0.keywords and not (dotted_name(inner0.func) or "").endswith("from_iterable") \
                        and len(inner0.args) > 1:
                    for piece in inner0.args:
                        if isinstance(piece, ast.Starred):
                            flat_args.append(ast.Starred(value=ast.copy_location(ast.Call(func=inner0.func, args=[piece], keywords=[]), piece), ctx=ast.Load()))
                        else:
                            flat_args.append(ast.Starred(value=piece, ctx=ast.Load()))
                else:
                    flat_args.append(a)
            for a in flat_args:
                inner = a.value if isinstance(a, ast.Starred) else a
                if isinstance(inner, ast.Name) and inner.id in params:
                    continue
                if isinstance(inner, ast.Name) and inner.id in addressed:
                    # growth of the list: only by members of *selected* product spaces
                    for m in walk_no_nested(fn):
                        mm = method_call(m)
                        if mm and src(mm[0]) == inner.id and mm[1] in ("extend", "append", "insert") or (isinstance(m, ast.AugAssign) and src(m.target) == inner.id):
                            loop = _enclosing_for(fn, m)
                            if loop is None or not (isinstance(loop.iter, ast.Name) and selected_lists.get(loop.iter.id) == ""):
                                verdict = f"`{inner.id}` is extended outside a loop over a membership-selected list of product spaces"
                            else:
                                arg_txt = src(m.args[0]) if isinstance(m, ast.Call) and m.args else src(m)
                                if f"{src(loop.target)}.state_objs" not in arg_txt:
                                    verdict = f"`{inner.id}` is extended with `{arg_txt[:40]}` instead of the members of the selected product space"
                    continue
                if _members_of_selected(fn, inner, selected_lists):
                    continue
                verdict = f"combine() receives `{src(inner)[:50]}`, which is not derived from the addressed subsystems"
            (obs.append(ok("BLOCK", fi, key, props, n, "combine() receives only the addressed subsystems and the members of the product spaces that hold them")) if verdict is None else
             obs.append(bad("BLOCK", fi, key, props, n, verdict + ": blocks that contain none of the addressed subsystems get merged")))
        # (c) no write inside a loop over *all* product spaces
        for loop in [n for n in walk_no_nested(fn) if isinstance(n, ast.For)]:
            if src(loop.iter) in ALL_SPACES:
                writes = [m for b in loop.body for m in [b] + list(walk_no_nested(b))
                          if (isinstance(m, ast.Attribute) and isinstance(m.ctx, ast.Store) and m.attr in ("state", "state_objs", "expansion_level"))
                          or (method_call(m) and method_call(m)[1] in ("expand", "contract", "measure", "measure_POVM", "apply_operation", "apply_kraus", "reorder", "resize_fock", "combine"))]
                n_loops_all = locals().get("n_loops_all", 0) + 1
                key = f"loop-over-all-spaces#{n_loops_all}"
                (obs.append(bad("BLOCK", fi, key, props, loop, "a loop over *all* product spaces writes/acts on each of them: bystander blocks are modified")) if writes else
                 obs.append(ok("BLOCK", fi, key, props, loop, "loop over all product spaces only inspects them")))
        # (d) single-target short cut
        if name in ("apply_operation", "apply_kraus", "trace_out"):
            n_short += 1
            obs.append(_shortcut(fi, va, composite=True, props=props))
    # inside combine: consumption ranges over the selected spaces / the arguments
    cmb = ce.methods["combine"]
    obs += _combine_internals(cmb)
    # Envelope short cuts
    env = repo.cls("Envelope")
    for name in ("apply_kraus", "measure_POVM", "trace_out", "apply_operation"):
        fi = env.methods.get(name)
        if fi is None:
            raise AnalysisError(f"BLOCK: Envelope.{name} vanished")
        n_short += 1
        obs.append(_shortcut(fi, _vararg(fi.node), composite=False, props=P))
    # (e) brought together: the product space an action is handed to holds *all* addressed subsystems on every path – a combine()/reorder()
    # was executed, or exactly one product space was selected and the test `all(s in <it>.state_objs for s in states)` held, or one subsystem is addressed
    for name, tprops in (("apply_operation", ("C03", "C01", "C20")), ("apply_kraus", ("C06",)), ("measure_POVM", ("C09",)), ("trace_out", ("C02",))):
        fi = ce.methods.get(name)
        if fi is None:
            continue
        va = _vararg(fi.node)
        obs += _together(repo, fi, va, tprops)
    if n_combine < 6 or n_sel < 6 or n_short < 6:
        raise AnalysisError(f"BLOCK: combine calls {n_combine}, selections {n_sel}, short cuts {n_short} (floors 6/6/6)")
    return obs


def _together(repo: Repo, fi: FuncInfo, va: Optional[str], props) -> List[Ob]:
    from ..types import Typer
    obs: List[Ob] = []
    if not va:
        return obs
    cfg = CFG(fi.node)
    typer = Typer(repo, fi)
    sel_names = {a.targets[0].id for a in walk_no_nested(fi.node) if isinstance(a, ast.Assign) and len(a.targets) == 1 and isinstance(a.targets[0], ast.Name)
                 and isinstance(a.value, ast.ListComp) and _selection_ok(a.value, {va}) == ""}

    def atom(e, truth, st):
        n, allin, tog, one = st
        if isinstance(e, ast.Compare) and len(e.ops) == 1 and isinstance(e.comparators[0], ast.Constant) and isinstance(e.comparators[0].value, int) \
                and isinstance(e.left, ast.Call) and isinstance(e.left.func, ast.Name) and e.left.func.id == "len" and len(e.left.args) == 1 and isinstance(e.left.args[0], ast.Name):
            arg, k, op = e.left.args[0].id, e.comparators[0].value, type(e.ops[0])
            tests = {ast.Eq: lambda v: v == k, ast.NotEq: lambda v: v != k, ast.Gt: lambda v: v > k, ast.GtE: lambda v: v >= k, ast.Lt: lambda v: v < k, ast.LtE: lambda v: v <= k}
            if op in tests and arg in sel_names:
                n2 = frozenset(v for v in n if tests[op](v) == truth)
                return [(n2, allin, tog, one)] if n2 else []
            if op in tests and arg == va:
                # len(states) == 1
                vals = {True: (1,), False: (2,), None: (1, 2)}[one]
                keep = [v for v in vals if tests[op](v) == truth]
                if not keep:
                    return []
                return [(n, allin, tog, True if keep == [1] else False if keep == [2] else one)]
        if isinstance(e, ast.Call) and isinstance(e.func, ast.Name) and e.func.id == "all" and len(e.args) == 1 and isinstance(e.args[0], (ast.GeneratorExp, ast.ListComp)):
            g = e.args[0]
            if len(g.generators) == 1 and src(g.generators[0].iter) == va and isinstance(g.elt, ast.Compare) and isinstance(g.elt.ops[0], ast.In) \
                    and src(g.elt.left) == src(g.generators[0].target) and src(g.elt.comparators[0]).endswith(".state_objs"):
                if allin is not None and allin != truth:
                    return []
                return [(n, truth, tog, one)]
        return [st]

    def transfer(s, lab, d, st):
        n, allin, tog, one = st
        if s.kind in ("test", "assert") and lab in ("T", "F"):
            return refine(resolve_at(cfg, s, s.ast, keep=tuple(sel_names | {va})), lab == "T", st, atom)
        for x in walk_node(s):
            mc = method_call(x)
            if mc and src(mc[0]) == "self" and mc[1] in ("combine", "reorder"):
                tog = True
        a = s.ast
        if s.kind == "stmt" and isinstance(a, ast.Assign) and len(a.targets) == 1 and isinstance(a.targets[0], ast.Name) and a.targets[0].id in sel_names:
            n, allin = frozenset({0, 1, 2}), None          # a fresh selection
        return [(n, allin, tog, one)]

    seen = explore(cfg, (frozenset({0, 1, 2}), None, False, None), transfer)
    k = 0
    for node in cfg.nodes:
        for x in walk_node(node):
            mc = method_call(x)
            if not (mc and mc[1] == fi.node.name and src(mc[0]) != "self" and typer.classes(mc[0]) == {"ProductState"} and any(isinstance(a_, ast.Starred) and src(a_.value) == va for a_ in x.args)):
                continue
            k += 1
            badst = [st for st in seen[node] if not (st[2] or st[3] is True or (st[0] == frozenset({1}) and st[1] is True))]
            key = f"together#{k}"
            (obs.append(bad("BLOCK", fi, key, props, x,
                            f"`{src(x)[:50]}` is reachable without the addressed subsystems having been brought into one product space (no combine()/reorder() on the path and no "
                            "test that the single selected space holds all of them): with one operand inside a product space and another still on its own the request fails instead of "
                            "joining them")) if badst else
             obs.append(ok("BLOCK", fi, key, props, x, "on every path the addressed subsystems share the product space the action is handed to")))
    return obs


def _enclosing_for(fn: ast.FunctionDef, node: ast.AST) -> Optional[ast.For]:
    best = None
    for loop in [n for n in walk_no_nested(fn) if isinstance(n, ast.For)]:
        if any(x is node for x in ast.walk(loop)):
            if best is None or any(x is loop for x in ast.walk(best)):
                best = loop
    return best


def _shortcut(fi: FuncInfo, va: Optional[str], composite: bool, props) -> Ob:
    """with exactly one subsystem addressed that is not yet in a product space, no combine() is reachable"""
    cfg = CFG(fi.node)

    def atom(e, truth, st):
        l1, sn, tup = st
        t = src(e)
        if isinstance(e, ast.Compare) and len(e.ops) == 1 and va and src(e.left) == f"len({va})" and isinstance(e.comparators[0], ast.Constant):
            kk, op = e.comparators[0].value, e.ops[0]
            val = None
            if isinstance(op, ast.Eq):
                val = (kk == 1) if truth else (False if kk != 1 else None)
                if kk == 1:
                    val = truth
                elif truth:
                    val = False
                else:
                    val = None
            elif isinstance(op, ast.Gt) and truth and kk >= 1:
                val = False
            elif isinstance(op, ast.NotEq) and kk == 1:
                val = not truth
            if val is not None:
                if l1 is not None and l1 != val:
                    return []
                return [(val, sn, tup)]
            return [st]
        if t == "self.state is None" or t == "self.state is not None":
            val = truth if t.endswith("is None") else (not truth)
            if sn is not None and sn != val:
                return []
            return [(l1, val, tup)]
        if isinstance(e, ast.Call) and isinstance(e.func, ast.Name) and e.func.id == "isinstance" and va and src(e.args[0]) == f"{va}[0].index" and "tuple" in src(e.args[1]):
            if tup is not None and tup != truth:
                return []
            return [(l1, sn, truth)]
        return [st]

    def transfer(s, lab, d, st):
        if s.kind in ("test", "assert") and lab in ("T", "F"):
            # `count = len(states)` … `count == 1`: a local is read through its unique reaching definition
            return refine(resolve_at(cfg, s, s.ast, keep=(va,) if va else ()), lab == "T", st, atom)
        if s.kind == "case" and isinstance(s.stmt, ast.Match) and va and src(s.stmt.subject) == f"len({va})":
            pat = s.ast.pattern
            if isinstance(pat, ast.MatchValue) and isinstance(pat.value, ast.Constant):
                fake = ast.Compare(left=s.stmt.subject, ops=[ast.Eq()], comparators=[pat.value])
                return refine(fake, lab == "case", st, atom)
        return [st]

    seen = explore(cfg, (None, None, None), transfer)
    offending = None
    has_combine = False
    for n in cfg.nodes:
        for x in walk_node(n):
            mc = method_call(x)
            if mc and mc[1] == "combine" and src(mc[0]) == "self":
                has_combine = True
                for (l1, sn, tup) in seen[n]:
                    if l1 is True and (tup is False if composite else True):
                        offending = n
    # the short cut itself must exist when combine() is present: a delegation + return under len==1
    deleg = False
    for n in cfg.nodes:
        if any(l1 is True for (l1, _, _) in seen[n]):
            for x in walk_node(n):
                mc = method_call(x)
                if mc and mc[1] in ("apply_operation", "apply_kraus", "measure_POVM", "trace_out") and src(mc[0]) != "self":
                    deleg = True
                if isinstance(x, ast.Return) and x.value is not None and ".state" in src(x.value):
                    deleg = True
    key = "single-target-shortcut"
    if offending is not None:
        return bad("BLOCK", fi, key, props, offending.ast, "combine() is reachable although exactly one subsystem is addressed and it is not part of a product space: a single-subsystem action enlarges a product space")
    if has_combine and not deleg and fi.node.name != "apply_operation":
        return bad("BLOCK", fi, key, props, fi.node, "no single-subsystem short cut (delegate to the subsystem and return) exists before the combine() path")
    if not has_combine and fi.qualname == "Envelope.apply_operation":
        # must delegate when uncombined
        ok_d = any(method_call(x) and method_call(x)[1] == "apply_operation" and "states[0]" in src(method_call(x)[0]) for x in walk_no_nested(fi.node))
        return ok("BLOCK", fi, key, props, fi.node, "uncombined envelope delegates to the subsystem; never combines") if ok_d else \
            bad("BLOCK", fi, key, props, fi.node, "Envelope.apply_operation no longer delegates an uncombined target to the subsystem")
    return ok("BLOCK", fi, key, props, fi.node, "single-subsystem request is delegated without combine()")


def _combine_internals(fi: FuncInfo) -> List[Ob]:
    obs: List[Ob] = []
    P = ("C20", "C02")
    fn = fi.node
    va = _vararg(fn)
    # selection of existing product spaces
    sel_ok = False
    for loop in [n for n in walk_no_nested(fn) if isinstance(n, ast.For)]:
        if src(loop.iter) == va:
            for inner in [n for n in ast.walk(loop) if isinstance(n, ast.For) and n is not loop and src(n.iter) in ALL_SPACES]:
                for i in [n for n in ast.walk(inner) if isinstance(n, ast.If)]:
                    t = i.test
                    if isinstance(t, ast.Compare) and isinstance(t.ops[0], ast.In) and src(t.left) == src(loop.target) and src(t.comparators[0]) == f"{src(inner.target)}.state_objs":
                        if any(method_call(c) and method_call(c)[1] == "append" and c.args and src(c.args[0]) == src(inner.target) for c in ast.walk(i)):
                            sel_ok = True
    for n in walk_no_nested(fn):
        if isinstance(n, ast.Assign) and isinstance(n.value, ast.ListComp) and _selection_ok(n.value, {va}) == "":
            sel_ok = True
    # comprehension / generator form inside a loop over the arguments: L.extend(ps for ps in <all spaces> if state in ps.state_objs)
    va_vars = {va} | {src(l.target) for l in walk_no_nested(fn) if isinstance(l, ast.For) and src(l.iter) == va and isinstance(l.target, ast.Name)}
    for n in walk_no_nested(fn):
        if isinstance(n, (ast.ListComp, ast.GeneratorExp)) and _selection_ok(n, va_vars) == "":
            sel_ok = True
    # one comprehension over both:  (ps for state in <arguments> for ps in <all spaces> if state in ps.state_objs)
    for n in walk_no_nested(fn):
        if isinstance(n, (ast.ListComp, ast.GeneratorExp, ast.SetComp)) and len(n.generators) == 2:
            ga = next((g for g in n.generators if src(g.iter) == va), None)
            gs = next((g for g in n.generators if src(g.iter) in ALL_SPACES), None)
            if ga is None or gs is None or ga is gs:
                continue
            conds = [c for g in n.generators for c in g.ifs]
            want = f"{src(ga.target)} in {src(gs.target)}.state_objs"
            if src(n.elt) == src(gs.target) and conds and all(src(c) == want for c in conds):
                sel_ok = True
    (obs.append(ok("BLOCK", fi, "existing-spaces-selection", P, fn, "only product spaces holding an argument are collected")) if sel_ok else
     obs.append(bad("BLOCK", fi, "existing-spaces-selection", P, fn, "combine() no longer collects exactly the product spaces that hold one of its arguments")))
    # consumption loops
    sel_names = set()
    for n in walk_no_nested(fn):
        if isinstance(n, ast.Assign) and isinstance(n.targets[0], ast.Name):
            tn = n.targets[0].id
            if tn.startswith("existing") or (isinstance(n.value, ast.ListComp) and _selection_ok(n.value, {va}) == ""):
                sel_names.add(tn)
            v = n.value
            if isinstance(v, ast.ListComp) and len(v.generators) == 1 and src(v.generators[0].iter) == va and not v.generators[0].ifs:
                sel_names.add(tn)
            if isinstance(v, ast.Call) and isinstance(v.func, ast.Name) and v.func.id in ("list", "tuple") and len(v.args) == 1 and src(v.args[0]) == va:
                sel_names.add(tn)          # a plain copy of the argument tuple
            if isinstance(v, ast.Call) and isinstance(v.func, ast.Name) and v.func.id == "list" and len(v.args) == 1 and "dict.fromkeys(" in src(v.args[0]):
                sel_names.add(tn)          # de-duplicated selection
    sel_names.add(va)
    k = 0
    for loop in [n for n in walk_no_nested(fn) if isinstance(n, ast.For)]:
        consumes = [m for m in ast.walk(loop) if (isinstance(m, ast.Assign) and any(isinstance(t, ast.Attribute) and t.attr in ("state", "state_objs") and isinstance(t.ctx, ast.Store) for t in m.targets))
                    or (isinstance(m, ast.Call) and (dotted_name(m.func) or "").endswith("kron"))]
        if not consumes:
            continue
        k += 1
        key = f"consume-loop#{k}"
        it = src(loop.iter)
        itx = loop.iter
        # a copy made in the loop header: `for so in list(<selection>)` / `tuple(…)` / `[x for x in <selection>]`
        if isinstance(itx, ast.Call) and isinstance(itx.func, ast.Name) and itx.func.id in ("list", "tuple") and len(itx.args) == 1 and not itx.keywords and src(itx.args[0]) in sel_names:
            it = src(itx.args[0])
        elif isinstance(itx, ast.ListComp) and len(itx.generators) == 1 and not itx.generators[0].ifs and src(itx.elt) == src(itx.generators[0].target) and src(itx.generators[0].iter) in sel_names:
            it = src(itx.generators[0].iter)
        if it in sel_names:
            obs.append(ok("BLOCK", fi, key, P, loop, f"blocks are consumed only for `{it}`"))
        else:
            obs.append(bad("BLOCK", fi, key, P, loop, f"combine() empties/merges blocks while iterating `{it}`, which is not restricted to the arguments and the product spaces holding them"))
    if k < 2:
        raise AnalysisError("BLOCK: consumption loops of CompositeEnvelope.combine not found")
    # no loop over *all* product spaces acts on them (expansion, contraction, reordering …)
    j = 0
    for loop in [n for n in walk_no_nested(fn) if isinstance(n, ast.For) and src(n.iter) in ALL_SPACES]:
        j += 1
        acts = [m for b in loop.body for m in [b] + list(walk_no_nested(b))
                if (isinstance(m, ast.Attribute) and isinstance(m.ctx, ast.Store) and m.attr in ("state", "state_objs", "expansion_level"))
                or (method_call(m) and method_call(m)[1] in ("expand", "contract", "measure", "measure_POVM", "apply_operation", "apply_kraus", "reorder", "resize_fock"))]
        (obs.append(bad("BLOCK", fi, f"combine-loop-over-all-spaces#{j}", P, loop, "combine() acts on *every* product space of the composite (e.g. expands it), not only on those that hold one of its arguments: bystander blocks change representation")) if acts else
         obs.append(ok("BLOCK", fi, f"combine-loop-over-all-spaces#{j}", P, loop, "loop over all product spaces only inspects them")))
    return obs
