"""Second-round rules: LABEL, BOOK-absorb, VALID, DELEG-ORDER, OUTCOME-SPACE, DIM-FLOOR, PARTNER."""
from __future__ import annotations

import ast
from typing import Dict, List, Optional, Set, Tuple

from ..cfg import CFG, walk_node
from ..model import AnalysisError, FuncInfo, Repo, call_np, dotted, expand_ast, expand_src, method_call, single_defs, src, walk_no_nested
from ..report import Ob, bad, note, ok, skip
from ..symalg import Folder, Mat, Poly, Unfoldable
from . import rule
from .dispatch import match_arms
from .samp import sampler_calls

LABEL_VECTORS = {"H": "[1, 0]", "V": "[0, 1]", "R": "[1/sqrt(2), 1j/sqrt(2)]", "L": "[1/sqrt(2), -1j/sqrt(2)]"}


def _fold_list(e: ast.AST) -> Optional[tuple]:
    try:
        f = Folder({})
        if isinstance(e, ast.Call) and call_np(e) == "array" and e.args:
            e = e.args[0]
        if isinstance(e, (ast.List, ast.Tuple)):
            out = []
            for x in e.elts:
                if isinstance(x, (ast.List, ast.Tuple)) and len(x.elts) == 1:
                    x = x.elts[0]
                out.append(f.fold(x))
            return tuple(out)
    except Unfoldable:
        return None
    return None


@rule("LABEL")
def label(repo: Repo) -> List[Ob]:
    """polarization labels <-> vectors <-> measurement outcomes agree everywhere"""
    obs: List[Ob] = []
    P = ("C07", "C08")
    want = {k: _fold_list(ast.parse(v, mode="eval").body) for k, v in LABEL_VECTORS.items()}
    ex = repo.func("Polarization.expand")
    n = 0
    arms: Dict[str, list] = {}
    for m in [x for x in walk_no_nested(ex.node) if isinstance(x, ast.Match)]:
        for c in m.cases:
            if isinstance(c.pattern, ast.MatchValue):
                lab = (dotted(c.pattern.value) or "").split(".")[-1]
                if lab in want and "PolarizationLabel" in (dotted(c.pattern.value) or ""):
                    arms.setdefault(lab, c.body)
    # if/elif form: `if <state> == PolarizationLabel.H:` / `is`
    for i_ in [x for x in walk_no_nested(ex.node) if isinstance(x, ast.If)]:
        t = i_.test
        if isinstance(t, ast.Compare) and len(t.ops) == 1 and isinstance(t.ops[0], (ast.Eq, ast.Is)):
            for side in (t.left, t.comparators[0]):
                d = dotted(side) or ""
                if "PolarizationLabel." in d and d.split(".")[-1] in want:
                    arms.setdefault(d.split(".")[-1], i_.body)
    for lab, body in arms.items():
        n += 1
        vec = None
        for s_ in body:
            if isinstance(s_, ast.Assign):
                vec = _fold_list(s_.value)
        if vec is None:
            obs.append(skip("LABEL", ex, f"expand:{lab}", P, body[0], "vector literal not folded"))
        elif vec == want[lab]:
            obs.append(ok("LABEL", ex, f"expand:{lab}", P, body[0], f"|{lab}> expands to {LABEL_VECTORS[lab]}"))
        else:
            obs.append(bad("LABEL", ex, f"expand:{lab}", P, body[0], f"label {lab} expands to {vec!r:.80}, not to {LABEL_VECTORS[lab]}"))
    table_name = None
    if n < 4:
        # label -> amplitudes kept in a module-level table {PolarizationLabel.X: [..] | lambda: [..]}
        for st in ex.module.tree.body:
            tgt = st.targets[0] if isinstance(st, ast.Assign) and len(st.targets) == 1 else (st.target if isinstance(st, ast.AnnAssign) else None)
            val = getattr(st, "value", None)
            if isinstance(tgt, ast.Name) and isinstance(val, ast.Dict):
                hits = 0
                for k_, v_ in zip(val.keys, val.values):
                    lab = (dotted(k_) or "").split(".")[-1]
                    if lab in want:
                        vec = _fold_list(v_.body if isinstance(v_, ast.Lambda) else v_)
                        hits += 1
                        n += 1
                        if vec is None:
                            obs.append(skip("LABEL", ex, f"expand:{lab}", P, v_, "vector literal not folded"))
                        elif vec == want[lab]:
                            obs.append(ok("LABEL", ex, f"expand:{lab}", P, v_, f"|{lab}> is tabulated as {LABEL_VECTORS[lab]}"))
                        else:
                            obs.append(bad("LABEL", ex, f"expand:{lab}", P, v_, f"label {lab} is tabulated as {vec!r:.80}, not as {LABEL_VECTORS[lab]}"))
                if hits >= 4:
                    table_name = tgt.id
    if n < 4:
        raise AnalysisError(f"LABEL: {n} label arms in Polarization.expand (floor 4)")
    co = repo.func("Polarization.contract")
    k = 0
    for i in [x for x in walk_no_nested(co.node) if isinstance(x, ast.If)]:
        t = i.test
        if isinstance(t, ast.Call) and call_np(t) == "allclose" and len(t.args) >= 2 and src(t.args[0]) == "self.state":
            lab = None
            for s in i.body:
                if isinstance(s, ast.Assign) and src(s.targets[0]) == "self.state":
                    lab = (dotted(s.value) or "").split(".")[-1]
            vec = _fold_list(t.args[1])
            if lab in want and vec is not None:
                k += 1
                (obs.append(ok("LABEL", co, f"contract:{lab}", P, i, f"{LABEL_VECTORS[lab]} contracts to {lab}")) if vec == want[lab] else
                 obs.append(bad("LABEL", co, f"contract:{lab}", P, i, f"the vector {vec!r:.60} is contracted to label {lab}, whose vector is {LABEL_VECTORS[lab]}: expand(contract(x)) != x")))
    # the recognition loops over labels and compares with the very function expand() builds the vector with:
    #   for lab in <labels>: if allclose(self.state, self._vec(lab)): self.state = lab
    shared = None
    if k < 4:
        ex_orig = ex.orig or ex.node
        builders = {method_call(a.value)[1] for a in walk_no_nested(ex_orig) if isinstance(a, ast.Assign) and src(a.targets[0]) == "self.state" and isinstance(a.value, ast.Call)
                    and method_call(a.value) and src(method_call(a.value)[0]) in ("self", "Polarization") and len(a.value.args) == 1 and src(a.value.args[0]) == "self.state"}
        # … or a module-level function of the label that both sides call (`_label_amplitudes(self.state)` in expand, `_label_amplitudes(label)` behind
        # the vector that contract compares with)
        fn_builders = {c_.func.id for c_ in walk_no_nested(ex_orig) if isinstance(c_, ast.Call) and isinstance(c_.func, ast.Name) and len(c_.args) == 1 and src(c_.args[0]) == "self.state"
                       and c_.func.id.startswith("_")}
        for l_ in [x for x in walk_no_nested(co.node) if isinstance(x, ast.For) and isinstance(x.target, ast.Name)]:
            for i in [x for x in l_.body if isinstance(x, ast.If)]:
                t = i.test
                if isinstance(t, ast.Call) and call_np(t) == "allclose" and len(t.args) >= 2 and src(t.args[0]) == "self.state" \
                        and any(isinstance(c_, ast.Call) and isinstance(c_.func, ast.Name) and c_.func.id in fn_builders and [src(a_) for a_ in c_.args] == [l_.target.id] for c_ in ast.walk(t.args[1])) \
                        and any(isinstance(s_, ast.Assign) and src(s_.targets[0]) == "self.state" and src(s_.value) == l_.target.id for s_ in i.body):
                    shared = next(c_.func.id for c_ in ast.walk(t.args[1]) if isinstance(c_, ast.Call) and isinstance(c_.func, ast.Name) and c_.func.id in fn_builders)
        for l_ in [x for x in walk_no_nested(co.node) if isinstance(x, ast.For) and isinstance(l_t := x.target, ast.Name)]:
            for i in [x for x in l_.body if isinstance(x, ast.If)]:
                t = i.test
                if isinstance(t, ast.Call) and call_np(t) == "allclose" and len(t.args) >= 2 and src(t.args[0]) == "self.state" and isinstance(t.args[1], ast.Call) \
                        and method_call(t.args[1]) and method_call(t.args[1])[1] in builders and [src(a_) for a_ in t.args[1].args] == [l_.target.id] \
                        and any(isinstance(s_, ast.Assign) and src(s_.targets[0]) == "self.state" and src(s_.value) == l_.target.id for s_ in i.body):
                    shared = method_call(t.args[1])[1]
    if k < 4 and shared:
        obs.append(ok("LABEL", co, "contract:table", P, co.node, f"contract() recognises a label by comparing with `{shared}(label)`, the function expand() builds the vector with"))
    elif k < 4 and table_name and table_name in src(co.node) and table_name in src(ex.node):
        obs.append(ok("LABEL", co, "contract:table", P, co.node, f"expand and contract read the same table `{table_name}`"))
    elif k < 4:
        raise AnalysisError(f"LABEL: {k} label recognitions in Polarization.contract (floor 4)")
    # outcome -> label: 0 -> H, 1 -> V at every site
    sites = 0
    for q in ["Polarization.measure", "ProductState.measure"]:
        fi = repo.func(q)
        j = 0
        from .measure import outcome_names
        onames = outcome_names(fi.node)
        for i in [x for x in walk_no_nested(fi.node) if isinstance(x, ast.If)]:
            t = i.test
            if isinstance(t, ast.Compare) and len(t.ops) == 1 and isinstance(t.ops[0], ast.Eq) and isinstance(t.comparators[0], ast.Constant) and t.comparators[0].value in (0, 1) \
                    and ("outcomes[" in src(t.left) or "results[" in src(t.left) or (isinstance(t.left, ast.Name) and t.left.id in onames)):
                def lab_of(body):
                    for s in body:
                        if isinstance(s, ast.Assign) and src(s.targets[0]).endswith(".state") and "PolarizationLabel" in src(s.value):
                            return src(s.value).split(".")[-1]
                    return None
                a = lab_of(i.body)
                b = lab_of(i.orelse[0].body if len(i.orelse) == 1 and isinstance(i.orelse[0], ast.If) else i.orelse)
                if a is None:
                    continue
                j += 1
                sites += 1
                v = t.comparators[0].value
                exp_a, exp_b = ("H", "V") if v == 0 else ("V", "H")
                good = a == exp_a and (b is None or b == exp_b)
                (obs.append(ok("LABEL", fi, f"outcome-label#{j}", ("C05", "C07"), i, "outcome 0 -> H, 1 -> V")) if good else
                 obs.append(bad("LABEL", fi, f"outcome-label#{j}", ("C05", "C07"), i, f"outcome {v} is stored as label {a} (else {b}): a non-destructively measured polarization is left in the *other* basis state")))
        # table form:  X.state = TABLE[<outcome>]  with TABLE = {0: PolarizationLabel.H, 1: PolarizationLabel.V} (module level or local)
        tables = {}
        for st in list(fi.module.tree.body) + [x for x in walk_no_nested(fi.node) if isinstance(x, (ast.Assign, ast.AnnAssign))]:
            tg = st.targets[0] if isinstance(st, ast.Assign) and len(st.targets) == 1 else (st.target if isinstance(st, ast.AnnAssign) else None)
            v = getattr(st, "value", None)
            if isinstance(tg, ast.Name) and isinstance(v, ast.Dict) and v.keys and all(isinstance(k_, ast.Constant) and isinstance(k_.value, int) for k_ in v.keys) \
                    and all("PolarizationLabel" in src(x) for x in v.values):
                tables[tg.id] = {k_.value: src(x).split(".")[-1] for k_, x in zip(v.keys, v.values)}
        from ..model import single_defs as _sd
        _defs = _sd(fi.node)

        def _table_of(v):
            """the {outcome: label} map a value is looked up in:  TABLE[k] / TABLE.get(k) / {0: H, 1: V}[k], also through a once-bound local"""
            if isinstance(v, ast.Name) and v.id in _defs:
                v = _defs[v.id]
            base = None
            if isinstance(v, ast.Subscript):
                base = v.value
            elif isinstance(v, ast.Call) and method_call(v) and method_call(v)[1] == "get" and len(v.args) == 1:
                base = method_call(v)[0]
            if isinstance(base, ast.Name) and base.id in tables:
                return tables[base.id]
            if isinstance(base, ast.Dict) and base.keys and all(isinstance(k_, ast.Constant) and isinstance(k_.value, int) for k_ in base.keys) and all("PolarizationLabel" in src(x) for x in base.values):
                return {k_.value: src(x).split(".")[-1] for k_, x in zip(base.keys, base.values)}
            return None
        for a_ in [x for x in walk_no_nested(fi.node) if isinstance(x, ast.Assign)]:
            if src(a_.targets[0]).endswith(".state") and _table_of(a_.value) is not None:
                j += 1
                sites += 1
                tb = _table_of(a_.value)
                good = tb.get(0) == "H" and tb.get(1) == "V"
                (obs.append(ok("LABEL", fi, f"outcome-label#{j}", ("C05", "C07"), a_, "outcome 0 -> H, 1 -> V (label table)")) if good else
                 obs.append(bad("LABEL", fi, f"outcome-label#{j}", ("C05", "C07"), a_, f"the outcome->label table is {tb}: a non-destructively measured polarization is left in the *other* basis state")))
    if sites < 3:
        raise AnalysisError(f"LABEL: {sites} outcome->label sites (floor 3)")
    return obs


@rule("BOOK-absorb")
def book_absorb(repo: Repo) -> List[Ob]:
    """every block absorbed by CompositeEnvelope.combine is released by its previous owner (so that each
    subsystem is stored in exactly one place)"""
    obs: List[Ob] = []
    P = ("C13", "C02")
    fi = repo.func("CompositeEnvelope.combine")
    from ..types import Typer
    typer = Typer(repo, fi)
    k = 0
    kinds_seen: Set[str] = set()
    for n in walk_no_nested(fi.node):
        if isinstance(n, ast.Assign) and isinstance(n.value, ast.Call) and call_np(n.value) == "kron" and len(n.value.args) == 2:
            blk_src = src(n.value.args[1])
            if isinstance(n.value.args[1], ast.Name):
                # `block = product_state.state` … kron(acc, block): the block is read through the local that names it
                for a_ in walk_no_nested(fi.node):
                    if isinstance(a_, ast.Assign) and len(a_.targets) == 1 and src(a_.targets[0]) == blk_src and src(a_.value).endswith(".state"):
                        blk_src = src(a_.value)
                        break
            owner = blk_src.rsplit(".state", 1)[0]
            from .measure import _enclosing_block, _enclosing_stmt
            blk = _enclosing_block(fi.node, n)
            cands = list(blk or [])
            parent = _enclosing_block(fi.node, _enclosing_stmt(fi.node, blk))
            cands += list(parent or [])
            k += 1
            released = False
            is_ps = typer.classes(ast.parse(owner, mode="eval").body) == {"ProductState"}
            # an untyped owner whose member list is read or cleared beside its block (`X.state` with `X.state_objs`) is a product space:
            # subsystems and envelopes have no state_objs
            is_ps = is_ps or (not typer.classes(ast.parse(owner, mode="eval").body)
                              and any(isinstance(y, ast.Attribute) and y.attr == "state_objs" and src(y.value) == owner for s_ in cands for y in ast.walk(s_)))
            kinds_seen.add("product-space" if is_ps else "envelope" if expand_src(fi.node, ast.parse(owner, mode="eval").body).endswith(".envelope") else "own")
            for s in cands:
                for x in [s] + list(walk_no_nested(s)):
                    if isinstance(x, ast.Assign):
                        t = src(x.targets[0])
                        if is_ps:
                            if t == f"{owner}.state_objs" and isinstance(x.value, ast.List) and not x.value.elts:
                                released = True
                        elif t == f"{owner}.state" and isinstance(x.value, ast.Constant) and x.value.value is None:
                            released = True
            key = f"release#{k}:{owner.split('.')[-1]}"
            (obs.append(ok("BOOK-absorb", fi, key, P, n, f"the absorbed block `{blk_src}` is released by its previous owner")) if released else
             obs.append(bad("BOOK-absorb", fi, key, P, n, f"`{blk_src}` is multiplied into the new product space but its previous owner keeps it: the subsystem's state now lives in two places")))
    # functional form of the product-space absorption: reduce(jnp.kron, (p.state for p in SELECTED), init) with `p.state_objs = []` for every p of SELECTED
    for x in walk_no_nested(fi.node):
        if isinstance(x, ast.Call) and (dotted(x.func) or "").split(".")[-1] == "reduce" and len(x.args) >= 2 and src(x.args[0]).split(".")[-1] == "kron" \
                and isinstance(x.args[1], (ast.GeneratorExp, ast.ListComp)) and len(x.args[1].generators) == 1 and src(x.args[1].elt) == f"{src(x.args[1].generators[0].target)}.state":
            it = src(x.args[1].generators[0].iter)
            k += 1
            kinds_seen.add("product-space")
            rel = any(isinstance(l_, ast.For) and src(l_.iter) == it and any(isinstance(a_, ast.Assign) and src(a_.targets[0]) == f"{src(l_.target)}.state_objs" and isinstance(a_.value, ast.List) and not a_.value.elts
                                                                               for a_ in ast.walk(l_)) for l_ in walk_no_nested(fi.node))
            (obs.append(ok("BOOK-absorb", fi, f"release#{k}:reduce", P, x, f"the product spaces of `{it}` are folded in and each of them is emptied")) if rel else
             obs.append(bad("BOOK-absorb", fi, f"release#{k}:reduce", P, x, f"the blocks of `{it}` are multiplied into the new product space but those product spaces keep their members: the subsystems' state now lives in two places")))
    kinds = kinds_seen
    if k < 3 or len(kinds) < 3:
        raise AnalysisError(f"BOOK-absorb: {k} absorption sites of kinds {sorted(kinds)} (floor: a product-space block, an envelope block and a stand-alone block)")
    # an envelope's stored state is absorbed once per call: inside the loop over the requested subsystems both members of one
    # envelope can appear, and their indices are only refreshed at the end – the absorbing branch must itself exclude a member
    # whose envelope was already taken in this call (it is in the order list / a set of absorbed envelopes by then)
    for loop in [x for x in walk_no_nested(fi.node) if isinstance(x, ast.For)]:
        for br in [y for y in loop.body if isinstance(y, ast.If)]:
            takes = [a for a in ast.walk(br) if isinstance(a, ast.Assign) and len(a.targets) == 1 and src(a.targets[0]).endswith(".envelope.state")
                     and isinstance(a.value, ast.Constant) and a.value.value is None]
            if not takes:
                continue
            lv_ = src(loop.target)
            accs = {method_call(c)[0].id for c in ast.walk(loop) if isinstance(c, ast.Call) and method_call(c) and method_call(c)[1] in ("append", "extend", "add")
                    and isinstance(method_call(c)[0], ast.Name)}
            t = br.test
            once = any(isinstance(g, (ast.GeneratorExp, ast.ListComp)) and isinstance(g.generators[0].iter, ast.Name) and g.generators[0].iter.id in accs
                       and isinstance(g.elt, ast.Compare) and isinstance(g.elt.ops[0], (ast.Is, ast.IsNot)) and lv_ in src(g.elt) for g in ast.walk(t))
            once = once or any(isinstance(c, ast.Compare) and isinstance(c.ops[0], (ast.Is, ast.IsNot)) and ".envelope.state" in src(c) and "None" in src(c) for c in ast.walk(t))
            once = once or any(isinstance(c, ast.Compare) and isinstance(c.ops[0], ast.NotIn) and "id(" in src(c.left) for c in ast.walk(t))
            (obs.append(ok("BOOK-absorb", fi, "envelope-absorbed-once", P + ("C03", "C17"), br, "a member whose envelope was already absorbed in this call is skipped")) if once else
             obs.append(bad("BOOK-absorb", fi, "envelope-absorbed-once", P + ("C03", "C17"), br,
                            "both members of one combined envelope may be requested together: the second one still carries its integer index (indices are refreshed at the end), enters the "
                            "absorbing branch again and fails on the envelope state that was just taken – after the product spaces were emptied and the envelope state dropped")))
    # Envelope.combine: both members are extracted in the branch that builds the joint state
    ec = repo.func("Envelope.combine")
    for br in [x for x in walk_no_nested(ec.node) if isinstance(x, ast.If)]:
        if any(isinstance(y, ast.Call) and call_np(y) == "kron" for b in br.body for y in ast.walk(b)):
            ex = {src(method_call(y)[0]) for b in br.body for y in ast.walk(b) if method_call(y) and method_call(y)[1] == "extract"}
            lvl = "Vector" if "Vector" in src(br.test) else "Matrix"
            (obs.append(ok("BOOK-absorb", ec, f"members-extracted@{lvl}", P, br, "both members hand their state to the envelope")) if {"self.fock", "self.polarization"} <= ex else
             obs.append(bad("BOOK-absorb", ec, f"members-extracted@{lvl}", P, br, f"after combining, {sorted({'self.fock', 'self.polarization'} - ex)} still holds its own state")))
    return obs


@rule("VALID")
def valid(repo: Repo) -> List[Ob]:
    """presence of the request validations the property names (a necessary condition of 'is rejected')"""
    obs: List[Ob] = []
    P = ("C17",)

    import re as _re
    _sfx = _re.compile(r"__h\d+")

    def _p(pred):
        return lambda t: pred(_sfx.sub("", t))       # locals of a spliced helper carry a suffix

    def has_raise_under(fi: FuncInfo, pred) -> bool:
        pred = _p(pred)
        for i in [x for x in walk_no_nested(fi.node) if isinstance(x, ast.If)]:
            if (pred(src(i.test)) or pred(expand_src(fi.node, i.test))) and any(isinstance(y, ast.Raise) for b in i.body for y in [b] + list(walk_no_nested(b))):
                return True
        return False

    def has_assert(fi: FuncInfo, pred) -> bool:
        pred = _p(pred)
        return any(isinstance(x, ast.Assert) and (pred(src(x.test)) or pred(expand_src(fi.node, x.test))) for x in walk_no_nested(fi.node))

    def live_operands(fi: FuncInfo) -> bool:
        """CompositeEnvelope.combine: a loop over the requested subsystems that rejects a destroyed one (level is no longer an
        ExpansionLevel / measured flag) in its stand-alone arm, is not cut short by `break`, and lies on every path to the first
        write of a product space (a late failure inside kron leaves an emptied product space behind)"""
        cfg = CFG(fi.node)
        vararg = fi.node.args.vararg.arg if fi.node.args.vararg else "state_objs"
        headers = set()
        for l in [x for x in walk_no_nested(fi.node) if isinstance(x, ast.For)]:
            if not any(isinstance(y, ast.Name) and y.id == vararg for y in ast.walk(l.iter)) or not isinstance(l.target, ast.Name):
                continue
            if any(isinstance(y, ast.Break) for y in ast.walk(l)):
                continue
            v = l.target.id

            def is_live_test(t: ast.AST, positive: bool) -> bool:
                tx = src(t).replace(" ", "")
                if positive:       # assert <live>
                    return tx == f"isinstance({v}.expansion_level,ExpansionLevel)" or tx == f"not{v}.measured" or tx == f"{v}.expansion_levelisnotNone"
                return tx in (f"{v}.measured", f"notisinstance({v}.expansion_level,ExpansionLevel)", f"{v}.expansion_levelisNone")

            def guarded(stmts) -> bool:
                for st in stmts:
                    if isinstance(st, ast.Assert) and is_live_test(st.test, True):
                        return True
                    if isinstance(st, ast.If) and is_live_test(st.test, False) and any(isinstance(y, ast.Raise) for y in st.body):
                        return True
                return False
            okl = guarded(l.body)
            for st in l.body:
                if isinstance(st, ast.If) and src(st.test).replace(" ", "") == f"{v}.indexisNone" and guarded(st.body):
                    okl = True
            if okl:
                headers |= {nd for nd in cfg.nodes if nd.kind == "iter" and nd.stmt is l}
        if not headers:
            return False
        writes = [nd for nd in cfg.nodes if nd.kind == "stmt" and isinstance(nd.ast, ast.Assign)
                  and any(isinstance(t, ast.Attribute) and t.attr in ("state_objs", "state") for t in nd.ast.targets)]
        writes += [nd for nd in cfg.nodes if nd.kind == "stmt" and any(method_call(x) and method_call(x)[1] == "extract" for x in walk_node(nd))]
        if not writes:
            raise AnalysisError("VALID: no product-space write found in CompositeEnvelope.combine")
        return all(cfg.must_pass_through(w, headers) for w in writes)

    def shape_rejected(fi: FuncInfo) -> bool:
        """a comparison of an operator's `.shape` decides a rejection: in a loop with a raise/assert, or collected by a comprehension /
        generator (any(...), next(...)) whose result is tested before a raise"""
        for l in walk_no_nested(fi.node):
            if isinstance(l, ast.For) and ".shape" in src(l) and any(isinstance(y, (ast.Raise, ast.Assert)) for y in ast.walk(l)):
                return True
        for i in [x for x in walk_no_nested(fi.node) if isinstance(x, ast.If) and any(isinstance(y, ast.Raise) for b in x.body for y in [b] + list(walk_no_nested(b)))]:
            if ".shape" in expand_src(fi.node, i.test, depth=4):
                return True
        for a in [x for x in walk_no_nested(fi.node) if isinstance(x, ast.Assert)]:
            if ".shape" in expand_src(fi.node, a.test, depth=4) and any(isinstance(y, (ast.GeneratorExp, ast.ListComp)) for y in ast.walk(expand_ast(fi.node, a.test, 4))):
                return True
        return False

    checks = [
        ("CompositeEnvelope.combine", "destroyed-operand", live_operands,
         "a destroyed subsystem is no longer rejected before the product spaces are rewritten: the call fails later, inside the assembly, with the absorbed product spaces already emptied"),
        ("Operation.__init__", "required-parameters", lambda f: any(isinstance(l, ast.For) and "required_params" in src(l.iter) and any(isinstance(y, ast.Raise) for y in ast.walk(l)) for l in walk_no_nested(f.node)),
         "a missing required parameter is no longer rejected at construction"),
        ("Envelope.apply_operation", "operation-type-vs-target:fock", lambda f: has_raise_under(f, lambda t: "Fock" in t and "isinstance" in t and "not" in t) or has_raise_under(f, lambda t: "FockOperationType" in t),
         "a Fock operation applied to a non-Fock member is no longer rejected"),
        ("Envelope.apply_operation", "operation-type-vs-target:polarization", lambda f: has_raise_under(f, lambda t: "PolarizationOperationType" in t) or has_raise_under(f, lambda t: "Polarization" in t and "not isinstance" in t),
         "a polarization operation applied to a non-polarization member is no longer rejected"),
        ("Envelope.measure_POVM", "members-only", lambda f: has_raise_under(f, lambda t: "self.polarization" in t and "self.fock" in t), "subsystems outside the envelope are no longer rejected"),
        ("Envelope.apply_kraus", "members-only", lambda f: has_raise_under(f, lambda t: "self.polarization" in t and "self.fock" in t), "subsystems outside the envelope are no longer rejected"),
        ("Envelope.measure_POVM", "at-most-two", lambda f: has_raise_under(f, lambda t: "len(states" in t and ("2" in t or "3" in t) and "==" not in t), "more than two targets are no longer rejected"),
        ("Envelope.apply_kraus", "at-most-two", lambda f: has_raise_under(f, lambda t: "len(states" in t and ("2" in t or "3" in t) and "==" not in t), "more than two targets are no longer rejected"),
        ("Envelope.measure", "destroyed-envelope", lambda f: has_raise_under(f, lambda t: "self.measured" in t), "measuring a destroyed envelope is no longer rejected"),
        ("Envelope.measure_POVM", "destroyed-envelope", lambda f: has_raise_under(f, lambda t: "self.measured" in t), "a POVM on a destroyed envelope is no longer rejected"),
        ("Envelope.combine", "destroyed-member", lambda f: any(isinstance(l, ast.For) and any(isinstance(y, ast.Raise) for y in ast.walk(l)) and "measured" in src(l) for l in walk_no_nested(f.node))
         or has_raise_under(f, lambda t: "measured" in t and ("any(" in t or " or " in t)), "combining an envelope with a destroyed member is no longer rejected"),
        ("CompositeEnvelope.resize_fock", "fock-only", lambda f: has_raise_under(f, lambda t: "isinstance(" in t and "Fock" in t), "resizing a non-Fock subsystem is no longer rejected"),
        ("CompositeEnvelope.resize_fock", "member-only", lambda f: has_raise_under(f, lambda t: "self.state_objs" in t), "resizing a Fock space of another composite is no longer rejected"),
        ("CompositeEnvelope.apply_kraus", "unique-targets", lambda f: has_raise_under(f, lambda t: "len(states)" in t and "set(states)" in t), "duplicate targets are no longer rejected"),
        ("CompositeEnvelope.measure_POVM", "operator-dimensions", shape_rejected, "POVM operators of the wrong size are no longer rejected"),
        ("CustomState.measure_POVM", "operator-dimensions", shape_rejected, "POVM operators of the wrong size are no longer rejected"),
        ("ProductState.apply_operation", "operand-count", lambda f: has_assert(f, lambda t: "len(states)" in t and "expected_base_state_types" in t), "a composite operation with the wrong number of operands is no longer rejected"),
        ("ProductState.apply_operation", "operand-types", lambda f: has_assert(f, lambda t: "isinstance(s" in t and "expected_base_state_types[i]" in t), "operands of the wrong kind are no longer rejected (k-th type vs k-th operand)"),
        ("ProductState.apply_operation", "single-target-type:fock", lambda f: has_assert(f, lambda t: t.replace(" ", "") == "isinstance(states[0],Fock)"), "a Fock operation on a non-Fock product-space member is no longer rejected"),
        ("ProductState.apply_operation", "single-target-type:polarization", lambda f: has_assert(f, lambda t: t.replace(" ", "") == "isinstance(states[0],Polarization)"), "a polarization operation on another kind of member is no longer rejected"),
        ("ProductState.apply_operation", "single-target-type:custom", lambda f: has_assert(f, lambda t: t.replace(" ", "") == "isinstance(states[0],CustomState)"), "a custom-state operation on another kind of member is no longer rejected"),
        ("Fock.apply_operation", "operation-type", lambda f: has_assert(f, lambda t: "FockOperationType" in t), "a non-Fock operation applied to a Fock space is no longer rejected"),
        ("Polarization.apply_operation", "operation-type", lambda f: has_assert(f, lambda t: "PolarizationOperationType" in t), "a non-polarization operation applied to a polarization is no longer rejected"),
        ("CustomState.apply_operation", "operation-type", lambda f: has_assert(f, lambda t: "CustomStateOperationType" in t), "a foreign operation applied to a custom state is no longer rejected"),
        ("CustomState.apply_operation", "operator-dimensions", lambda f: has_assert(f, lambda t: ".shape" in t and "self.dimensions" in t and "operator" in t), "a custom operator of the wrong size is no longer rejected"),
        ("Fock.resize", "positive-dimension", lambda f: any(isinstance(i, ast.If) and "new_dimensions < 1" in src(i.test).replace("<= 0", "< 1") and any(isinstance(b, ast.Return) for b in i.body) for i in walk_no_nested(f.node)), "a non-positive dimension is no longer refused"),
    ]
    for q, key, pred, msg in checks:
        fi = repo.func(q)
        # the per-position operand-type test is also what makes the k-th factor meet a subsystem of the k-th declared kind (C03) and what
        # "which operand types it accepts" (C15) rests on
        PK = P + (("C03", "C15") if key == "operand-types" else ())
        (obs.append(ok("VALID", fi, key, PK, fi.node, "validation present")) if pred(fi) else
         obs.append(bad("VALID", fi, key, PK, fi.node, msg)))
    return obs


@rule("DELEG-ORDER")
def deleg_order(repo: Repo) -> List[Ob]:
    """containers hand the requested subsystems to the product space / member in the order given"""
    obs: List[Ob] = []
    table = {"apply_operation": ("C01", "C03"), "apply_kraus": ("C06",), "measure_POVM": ("C09",), "trace_out": ("C02",)}
    n = 0
    for meth, props in table.items():
        fi = repo.func(f"CompositeEnvelope.{meth}")
        va = fi.node.args.vararg.arg if fi.node.args.vararg else None
        if va is None:
            raise AnalysisError(f"DELEG-ORDER: CompositeEnvelope.{meth} has no varargs")
        from ..types import Typer
        typer = Typer(repo, fi)
        k = 0
        for x in walk_no_nested(fi.node):
            mc = method_call(x)
            if not mc:
                continue
            recv, m = src(mc[0]), mc[1]
            if (m == meth and recv != "self" and typer.classes(mc[0]) == {"ProductState"}) or (m == "reorder" and recv == "self"):
                k += 1
                n += 1
                star = [a for a in x.args if isinstance(a, ast.Starred)]
                good = len(star) == 1 and src(star[0].value) == va and x.args[-1] is star[0]
                key = f"{m}#{k}"
                (obs.append(ok("DELEG-ORDER", fi, key, props, x, f"`*{va}` is passed on unchanged")) if good else
                 obs.append(bad("DELEG-ORDER", fi, key, props, x, f"`{src(x)[:60]}` does not pass the requested subsystems `*{va}` on in the order given")))
    if n < len(table):
        raise AnalysisError(f"DELEG-ORDER: {n} delegation sites (floor: one per container method)")
    return obs


def _sample_space_ok(a: ast.AST) -> Optional[bool]:
    if call_np(a) == "arange" and len(a.args) == 1 and not a.keywords:
        return True
    if call_np(a) == "arange":
        return False
    if call_np(a) == "array" and a.args:
        ti = src(a.args[0]).replace(" ", "")
        if ti.startswith("list(range(") and "," not in ti[len("list(range("):]:
            return True
        if ti == "[0,1]" or ti.startswith("len("):
            return True
        if ti.startswith("list(range(") or ti.startswith("["):
            return False
    return None


@rule("OUTCOME-SPACE")
def outcome_space(repo: Repo) -> List[Ob]:
    """the sample space handed to the sampler is 0..n-1 with n the length of the probability vector"""
    obs: List[Ob] = []
    n = 0
    cfgs: Dict[str, CFG] = {}
    for fi in repo.scan_functions():
        if not fi.module.name.startswith("photon_weave.state"):
            continue
        calls = sampler_calls(fi)
        props = ("C09",) if fi.node.name == "measure_POVM" else ("C04",)
        for i, (c, full) in enumerate(calls, 1):
            if not full.endswith(".choice"):
                continue
            n += 1
            a = next((kw.value for kw in c.keywords if kw.arg == "a"), c.args[1] if len(c.args) > 1 else None)
            key = f"sample-space#{i}"
            if a is None:
                obs.append(skip("OUTCOME-SPACE", fi, key, props, c, "no sample-space argument"))
                continue
            alts = [a]
            if isinstance(a, ast.Name):
                # a named sample space: judge every definition that reaches the draw
                ocfg = cfgs.setdefault(fi.qualname, CFG(fi.node))
                at = ocfg.node_containing(c)
                defs_ = [d for d in (ocfg.reaching_defs(at, a.id) if at is not None else []) if d is not ocfg.entry and isinstance(d.ast, ast.Assign)]
                if defs_:
                    alts = [d.ast.value for d in defs_]
            # `jnp.array(list(TABLE))` over a module-level {0: …, 1: …} table: its keys in insertion order
            def _keys_as_list(a_):
                if call_np(a_) == "array" and a_.args and isinstance(a_.args[0], ast.Call) and isinstance(a_.args[0].func, ast.Name) and a_.args[0].func.id == "list" \
                        and len(a_.args[0].args) == 1 and isinstance(a_.args[0].args[0], ast.Name):
                    nm = a_.args[0].args[0].id
                    for st_ in fi.module.tree.body:
                        tg_ = st_.targets[0] if isinstance(st_, ast.Assign) and len(st_.targets) == 1 else (st_.target if isinstance(st_, ast.AnnAssign) else None)
                        v_ = getattr(st_, "value", None)
                        if isinstance(tg_, ast.Name) and tg_.id == nm and isinstance(v_, ast.Dict) and v_.keys and all(isinstance(k_, ast.Constant) and isinstance(k_.value, int) for k_ in v_.keys):
                            lst = ast.List(elts=[ast.Constant(value=k_.value) for k_ in v_.keys], ctx=ast.Load())
                            return ast.copy_location(ast.Call(func=a_.func, args=[lst], keywords=[]), a_)
                return a_
            alts = [_keys_as_list(a_) for a_ in alts]
            verdicts = []
            for a in alts:
                verdicts.append(_sample_space_ok(a))
            t = src(alts[0]).replace(" ", "")
            good = None if any(v is None for v in verdicts) else all(verdicts)
            if good is None:
                obs.append(skip("OUTCOME-SPACE", fi, key, props, c, f"sample space `{t[:40]}` not recognised"))
            elif good:
                obs.append(ok("OUTCOME-SPACE", fi, key, props, c, "outcomes are labelled 0..n-1"))
            else:
                obs.append(bad("OUTCOME-SPACE", fi, key, props, c, f"the sampler draws from `{t[:50]}`, which is not 0..n-1: reported outcomes are shifted/relabelled against the probability vector"))
            continue
            t = src(a).replace(" ", "")
            good = None
            if call_np(a) == "arange" and len(a.args) == 1 and not a.keywords:
                good = True
            elif call_np(a) == "arange":
                good = False
            elif call_np(a) == "array" and a.args:
                inner = a.args[0]
                ti = src(inner).replace(" ", "")
                if ti.startswith("list(range(") and "," not in ti[len("list(range("):]:
                    good = True
                elif ti == "[0,1]":
                    good = True
                elif ti.startswith("len("):
                    good = True
                elif ti.startswith("list(range(") or ti.startswith("["):
                    good = False
            if good is None:
                obs.append(skip("OUTCOME-SPACE", fi, key, props, c, f"sample space `{t[:40]}` not recognised"))
            elif good:
                obs.append(ok("OUTCOME-SPACE", fi, key, props, c, "outcomes are labelled 0..n-1"))
            else:
                obs.append(bad("OUTCOME-SPACE", fi, key, props, c, f"the sampler draws from `{t[:50]}`, which is not 0..n-1: reported outcomes are shifted/relabelled against the probability vector"))
    if n < 15:
        raise AnalysisError(f"OUTCOME-SPACE: {n} sampler sites (floor 15)")
    return obs


@rule("DIM-FLOOR")
def dim_floor(repo: Repo) -> List[Ob]:
    """an estimated cutoff is never smaller than the highest occupied level + 1"""
    obs: List[Ob] = []
    P = ("C10", "C12")          # … and the operator is then built for fewer levels than the target keeps ("at the dimension of the target")
    fcd = repo.cls("FockOperationType").methods["compute_dimensions"]
    arms, _ = match_arms(fcd, "FockOperationType")
    n = 0

    def X(e: ast.AST) -> str:
        return expand_src(fcd.node, e).replace(" ", "")
    for mem in ("Displace", "Squeeze", "Expresion"):
        arm = arms.get(mem)
        if arm is None:
            continue
        n += 1
        good = False
        est = {src(x.targets[0]) for b in arm.body for x in [b] + list(walk_no_nested(b))
               if isinstance(x, ast.Assign) and isinstance(x.value, ast.Call) and method_call(x.value) and method_call(x.value)[1] == "compute_dimensions"}
        for i in [x for b in arm.body for x in [b] + list(walk_no_nested(b)) if isinstance(x, ast.If)]:
            t = i.test
            if isinstance(t, ast.Compare) and len(t.ops) == 1:
                l, r = src(t.left).replace(" ", ""), src(t.comparators[0]).replace(" ", "")
                lx, rx = X(t.left), X(t.comparators[0])          # read through once-bound names (`floor = num_quanta + 1`)
                op = type(t.ops[0])
                var = None
                if l in est and ((op is ast.Lt and rx == "num_quanta+1") or (op is ast.LtE and rx == "num_quanta")):
                    var = l
                if r in est and ((op is ast.Gt and lx == "num_quanta+1") or (op is ast.GtE and lx == "num_quanta")):
                    var = r
                if var and any(isinstance(st, ast.Assign) and src(st.targets[0]) == var and X(st.value) == "num_quanta+1" for st in i.body):
                    good = True
                # result variable form:  if est < floor: r = floor  else: r = est
                if var and i.orelse and any(isinstance(st, ast.Assign) and X(st.value) == "num_quanta+1" for st in i.body) \
                        and any(isinstance(st, ast.Assign) and src(st.value) == var for st in i.orelse) \
                        and {src(st.targets[0]) for st in i.body if isinstance(st, ast.Assign)} == {src(st.targets[0]) for st in i.orelse if isinstance(st, ast.Assign)}:
                    good = True
        for b in arm.body:
            if isinstance(b, ast.Return) and "max(" in src(b.value) and "num_quanta+1" in X(b.value):
                good = True
        for x_ in [y for b in arm.body for y in ast.walk(b) if isinstance(y, ast.IfExp) and isinstance(y.test, ast.Compare) and len(y.test.ops) == 1]:
            l_, r_ = X(x_.test.left), X(x_.test.comparators[0])
            if isinstance(x_.test.ops[0], ast.Lt) and r_ == "num_quanta+1" and X(x_.body) == "num_quanta+1" and src(x_.orelse).replace(" ", "") == src(x_.test.left).replace(" ", ""):
                good = True
        (obs.append(ok("DIM-FLOOR", fcd, f"floor:{mem}", P, arm.body[0], "estimated dimension is raised to num_quanta + 1 when smaller")) if good else
         obs.append(bad("DIM-FLOOR", fcd, f"floor:{mem}", P, arm.body[0], f"{mem}: the estimated dimension can be smaller than the highest occupied level + 1: the resize before the operation would have to cut population (and is refused), leaving operator and state sizes inconsistent")))
    if n < 3:
        raise AnalysisError("DIM-FLOOR: estimated-dimension arms not found")
    return obs


@rule("PARTNER")
def partner(repo: Repo) -> List[Ob]:
    """the envelope partner of a Fock is its polarization and vice versa, wherever a partner is looked up"""
    obs: List[Ob] = []
    n = 0
    for q, props in (("CompositeEnvelope.measure", ("C05", "C04")), ("BaseState.measure_POVM", ("C09",))):
        fi = repo.func(q)
        k = 0
        for x in walk_no_nested(fi.node):
            # if isinstance(s, Fock): os = s.envelope.polarization
            if isinstance(x, ast.If) and isinstance(x.test, ast.Call) and src(x.test.func) == "isinstance" and len(x.test.args) == 2:
                cls = src(x.test.args[1])
                for s in x.body:
                    if isinstance(s, ast.Assign) and isinstance(s.value, ast.Attribute) and ".envelope." in src(s.value):
                        k += 1
                        n += 1
                        got = s.value.attr
                        want = {"Fock": "polarization", "Polarization": "fock"}.get(cls)
                        if want is None:
                            continue
                        (obs.append(ok("PARTNER", fi, f"partner#{k}", props, s, f"partner of a {cls} is the envelope's {want}")) if got == want else
                         obs.append(bad("PARTNER", fi, f"partner#{k}", props, s, f"the partner of a {cls} is looked up as the envelope's {got}: the subsystem is paired with itself and its real partner is skipped")))
            # conditional expression form:  a if isinstance(s, Polarization) else b
            xt = expand_ast(fi.node, x.test) if isinstance(x, ast.IfExp) else None     # a named predicate is read through its definition
            if isinstance(x, ast.IfExp) and isinstance(xt, ast.Call) and src(xt.func) == "isinstance" and len(xt.args) == 2 \
                    and isinstance(x.body, ast.Attribute) and isinstance(x.orelse, ast.Attribute) and x.body.attr in ("fock", "polarization") \
                    and (".envelope." in src(x.body) or expand_src(fi.node, x.body.value).endswith("envelope")):
                k += 1
                n += 1
                cls = src(xt.args[1])
                want_t, want_f = {"Polarization": ("fock", "polarization"), "Fock": ("polarization", "fock")}.get(cls, (None, None))
                if want_t is None:
                    continue
                good = x.body.attr == want_t and x.orelse.attr == want_f
                (obs.append(ok("PARTNER", fi, f"partner#{k}", props, x, f"partner lookup: {cls} -> {want_t}, otherwise {want_f}")) if good else
                 obs.append(bad("PARTNER", fi, f"partner#{k}", props, x, f"`{src(x)[:70]}` pairs a {cls} with the envelope's {x.body.attr}")))
    if n < 4:
        raise AnalysisError(f"PARTNER: {n} partner look-ups (floor 4)")
    return obs


@rule("DIM-NORM")
def dim_norm(repo: Repo) -> List[Ob]:
    """the traced-out state handed to the dimension estimator is normalised first (its cumulative-weight
    threshold is meaningless otherwise)"""
    from ..cfg import CFG
    from ..domains import is_norm2, is_trace
    obs: List[Ob] = []
    P = ("C10",)
    fi = repo.cls("FockOperationType").methods["compute_dimensions"]
    cfg = CFG(fi.node)
    norm_nodes = set()
    for n in cfg.nodes:
        a = n.ast
        if n.kind == "stmt" and isinstance(a, (ast.Assign, ast.AugAssign)):
            tgt = a.targets[0] if isinstance(a, ast.Assign) else a.target
            if src(tgt) == "state":
                for x in ast.walk(a.value):
                    if (isinstance(x, ast.BinOp) and isinstance(x.op, ast.Div) and (is_norm2(x.right) is not None or is_trace(x.right) is not None)) \
                            or (isinstance(a, ast.AugAssign) and isinstance(a.op, ast.Div) and (is_norm2(a.value) is not None or is_trace(a.value) is not None)):
                        norm_nodes.add(n)
    uses = [n for n in cfg.nodes for x in walk_node(n) if isinstance(x, ast.Call) and (dotted(x.func) or "").endswith("FockDimensions")]
    if not uses:
        raise AnalysisError("DIM-NORM: no FockDimensions(...) construction in FockOperationType.compute_dimensions")
    for i, u in enumerate(uses, 1):
        good = bool(norm_nodes) and cfg.must_pass_through(u, norm_nodes)
        (obs.append(ok("DIM-NORM", fi, f"estimator-input#{i}", P, u.ast, "the estimator receives a normalised state on every path")) if good else
         obs.append(bad("DIM-NORM", fi, f"estimator-input#{i}", P, u.ast, "the dimension estimator can receive an un-normalised traced-out state: its threshold test stops too early (or never) and the automatic cutoff is wrong")))
    # the trial operation the estimator iterates is the operation that is going to be applied: same type, the caller's parameters as given
    from ..cfg import resolve_at
    kwname = fi.node.args.kwarg.arg if fi.node.args.kwarg is not None else None
    from .dispatch import match_arms
    est_arms, _m = match_arms(fi, "FockOperationType")
    for i, u in enumerate(uses, 1):
        for x in walk_node(u):
            if not (isinstance(x, ast.Call) and (dotted(x.func) or "").endswith("FockDimensions")):
                continue
            op_arg = x.args[1] if len(x.args) >= 2 else next((k.value for k in x.keywords if k.arg == "operation"), None)
            key = f"estimator-operation#{i}"
            if op_arg is None or kwname is None:
                obs.append(skip("DIM-NORM", fi, key, P, x, "cannot find the operation handed to the estimator"))
                continue
            oc = resolve_at(cfg, u, op_arg, depth=3, keep=(kwname,))
            if not (isinstance(oc, ast.Call) and (dotted(oc.func) or "").split(".")[-1] == "Operation" and oc.args):
                obs.append(skip("DIM-NORM", fi, key, P, x, f"`{src(op_arg)[:50]}` is not an Operation(...) construction that can be read here"))
                continue
            why = None
            t_ = resolve_at(cfg, u, oc.args[0], depth=3, keep=(kwname,))
            if not (isinstance(t_, ast.Name) and t_.id == "self"):
                mem = t_.attr if isinstance(t_, ast.Attribute) and src(t_.value) == "FockOperationType" else None
                arm_of = [m_ for m_, a_ in est_arms.items() if any(getattr(y, "lineno", -1) == x.lineno and isinstance(y, ast.Call) and src(y) == src(x) for b_ in a_.body for y in ast.walk(b_))]
                if mem is None:
                    why = f"the trial operation's type `{src(t_)[:40]}` is neither `self` nor a member of FockOperationType"
                elif arm_of and mem not in arm_of:
                    why = f"the arm of {'/'.join(arm_of)} sizes the space with a trial {mem} operation"
            for k in oc.keywords:
                v = resolve_at(cfg, u, k.value, depth=3, keep=(kwname,))
                if k.arg is None:
                    if not (isinstance(v, ast.Name) and v.id == kwname):
                        why = f"`**{src(k.value)[:40]}` = `{src(v)[:60]}` is not the caller's keyword dictionary"
                    elif any(d is not cfg.entry for d in cfg.reaching_defs(u, kwname)):
                        why = f"`{kwname}` is re-bound before the trial operation is built"
                else:
                    if not (isinstance(v, ast.Subscript) and src(v.value) == kwname and isinstance(v.slice, ast.Constant) and v.slice.value == k.arg):
                        why = f"parameter `{k.arg}={src(v)[:40]}` is not the caller's value of that parameter"
            if not any(k.arg is None for k in oc.keywords) and why is None and not oc.keywords:
                why = "the trial operation is built without the caller's parameters"
            # kwargs rewritten in place before the construction
            for n_ in cfg.nodes:
                for y in walk_node(n_):
                    if ((isinstance(y, ast.Subscript) and isinstance(y.ctx, (ast.Store, ast.Del)) and src(y.value) == kwname)
                            or (isinstance(y, ast.Call) and method_call(y) and src(method_call(y)[0]) == kwname and method_call(y)[1] in ("update", "pop", "setdefault", "clear", "popitem"))) \
                            and u in cfg.reachable([n_]):
                        why = why or f"`{src(y)[:40]}` rewrites the caller's parameters before the trial operation is built"
            if why:
                obs.append(bad("DIM-NORM", fi, key, P, x, why + ": the estimator sizes the space for a different operator than the one that is applied (e.g. |alpha| instead of alpha: "
                               "a displacement back towards the vacuum and one away from it need very different cutoffs)"))
            else:
                obs.append(ok("DIM-NORM", fi, key, P, x, f"trial operation built from `**{kwname}` as given"))
    # the normaliser agrees with the representation: the traced-out state is a ket (d,1) or a density matrix (d,d); the estimator
    # accumulates |amplitude|^2 resp. diagonal entries up to the threshold, so a ket must have norm 1 and a matrix trace 1
    def under_shape_test(stmt: ast.AST) -> bool:
        for i_ in walk_no_nested(fi.node):
            if isinstance(i_, ast.If) and any(k in src(i_.test) for k in (".shape", ".ndim", "isinstance")) and any(stmt is y for b in i_.body + i_.orelse for y in [b] + list(ast.walk(b))):
                return True
            if isinstance(i_, ast.IfExp) and any(k in src(i_.test) for k in (".shape", ".ndim")) and any(stmt is y for y in ast.walk(i_)):
                return True
        return False
    kinds = []
    for n in sorted(norm_nodes, key=lambda x: x.lineno):
        a = n.ast
        for x in ast.walk(a.value):
            den = x.right if (isinstance(x, ast.BinOp) and isinstance(x.op, ast.Div)) else None
            if den is None and isinstance(a, ast.AugAssign) and x is a.value:
                den = a.value
            if den is None:
                continue
            if is_trace(den) is not None:
                kinds.append(("trace", x if isinstance(x, ast.BinOp) else a, n))
            elif is_norm2(den) is not None:
                kinds.append(("norm", x if isinstance(x, ast.BinOp) else a, n))
    has_trace = any(k == "trace" for k, _, _ in kinds)
    bare_norm = [(e, n) for k, e, n in kinds if k == "norm" and not under_shape_test(e) and not under_shape_test(n.ast)]
    if kinds:
        if not has_trace or bare_norm:
            at = (bare_norm[0][1].ast if bare_norm else kinds[0][2].ast)
            obs.append(bad("DIM-NORM", fi, "normaliser-by-representation", P, at,
                           "the traced-out state is divided by its Frobenius norm whatever its representation: for a density matrix (mixed input) the diagonal then sums to Tr/||rho||_F > 1, "
                           "the cumulative-weight test stops early and the automatic cutoff drops part of the state"))
        else:
            obs.append(ok("DIM-NORM", fi, "normaliser-by-representation", P, kinds[0][2].ast, "kets are normalised by their norm, density matrices by their trace"))
    return obs


ROUTED_METHODS = {"contract", "expand", "measure", "measure_POVM", "apply_kraus", "apply_operation", "resize", "trace_out", "extract"}


@rule("DETACH")
def detach(repo: Repo) -> List[Ob]:
    """a member that is handed its own state back (`X.state = <array>`) is detached (`X.index = None`) before any routed
    method is called on it: while the index still points into the container, X.contract()/expand()/measure()… act on the
    container's state, not on the array X was just given"""
    obs: List[Ob] = []
    n = 0
    for cname in ("Envelope", "ProductState", "CompositeEnvelope"):
        for mname, fi in repo.cls(cname).methods.items():
            if fi.qualname in getattr(repo, "absorbed", ()):
                continue
            hands = [a for a in walk_no_nested(fi.node) if isinstance(a, ast.Assign) and len(a.targets) == 1 and isinstance(a.targets[0], ast.Attribute)
                     and a.targets[0].attr == "state" and src(a.targets[0].value) != "self"
                     and not (isinstance(a.value, ast.Constant) and a.value.value is None)]
            if not hands:
                continue
            cfg = CFG(fi.node)
            props = tuple(dict.fromkeys({"measure": ("C05",), "measure_POVM": ("C09",), "apply_kraus": ("C06",), "trace_out": ("C02",)}.get(mname, ()) + ("C07", "C13")))
            by_owner: Dict[str, List[ast.Assign]] = {}
            for a in hands:
                by_owner.setdefault(src(a.targets[0].value), []).append(a)
            for owner, assigns in sorted(by_owner.items()):
                resets = {nd for nd in cfg.nodes if nd.kind == "stmt" and isinstance(nd.ast, ast.Assign)
                          and any(isinstance(t, ast.Attribute) and t.attr == "index" and src(t.value) == owner for t in nd.ast.targets)
                          and isinstance(nd.ast.value, ast.Constant) and nd.ast.value.value is None}
                resets |= {nd for nd in cfg.nodes if any(method_call(x) and method_call(x)[1] in ("set_index", "_set_measured") and src(method_call(x)[0]) == owner and not x.args
                                                         for x in walk_node(nd))}
                if not resets:
                    continue          # the member stays inside the container (its `.state` is a label/placeholder write): not a detachment
                n += 1
                starts = [nd for nd in cfg.nodes if nd.kind == "stmt" and any(nd.ast is a for a in assigns)]
                reach = cfg.reachable([m for s in starts for m, _ in cfg.succ[s]], blocked=resets)
                early = [(nd, x) for nd in reach for x in walk_node(nd)
                         if method_call(x) and method_call(x)[1] in ROUTED_METHODS and src(method_call(x)[0]) == owner]
                key = f"detach:{owner}"
                if early:
                    nd, x = sorted(early, key=lambda t: t[0].lineno)[0]
                    obs.append(bad("DETACH", fi, key, props, x,
                                   f"`{src(x)[:50]}` is called on `{owner}` after it was given its own state but before `{owner}.index = None`: the call is routed to the container "
                                   f"(which contracts/expands/measures *its* state and re-tags its members), leaving `{owner}` with data that does not match its level"))
                else:
                    obs.append(ok("DETACH", fi, key, props, assigns[0], f"`{owner}` is detached before any routed method is called on it"))
    if n < 4:
        raise AnalysisError(f"DETACH: {n} detachment sites (floor 4)")
    return obs


@rule("BOOK-extract")
def book_extract(repo: Repo) -> List[Ob]:
    """sibling agreement of the hand-over method: X.extract(index) records the index it is given and gives up the
    subsystem's own copy of the state (otherwise the state lives both in the subsystem and in the product space)"""
    obs: List[Ob] = []
    P = ("C13", "C02")
    n = 0
    for cname in ("Fock", "Polarization", "CustomState"):
        fi = repo.func(f"{cname}.extract")
        n += 1
        params = [p for p in fi.params if p != "self"]
        cfg = CFG(fi.node)
        idx = [nd for nd in cfg.nodes if nd.kind == "stmt" and isinstance(nd.ast, ast.Assign) and any(src(t) in ("self.index", "self._index") for t in nd.ast.targets)]
        st = [nd for nd in cfg.nodes if nd.kind == "stmt" and isinstance(nd.ast, ast.Assign) and any(src(t) in ("self.state", "self._state") for t in nd.ast.targets)]
        good_idx = bool(idx) and bool(params) and all(src(nd.ast.value) == params[0] for nd in idx) and not cfg.reachable([cfg.entry], blocked=set(idx)) & {cfg.exit}
        good_st = bool(st) and all(isinstance(nd.ast.value, ast.Constant) and nd.ast.value.value is None for nd in st) and not cfg.reachable([cfg.entry], blocked=set(st)) & {cfg.exit}
        (obs.append(ok("BOOK-extract", fi, "records-index", P, fi.node, "the index handed over is recorded on every path")) if good_idx else
         obs.append(bad("BOOK-extract", fi, "records-index", P, fi.node, f"{cname}.extract does not store its argument in self.index on every path: the member keeps routing to its old place")))
        (obs.append(ok("BOOK-extract", fi, "releases-state", P, fi.node, "the subsystem's own state is released on every path")) if good_st else
         obs.append(bad("BOOK-extract", fi, "releases-state", P, fi.node, f"{cname}.extract does not reset self.state to None on every path: the state now lives in the subsystem and in the product space")))
    return obs


@rule("EST-TAIL")
def est_tail(repo: Repo) -> List[Ob]:
    """the dimension estimator decides from phase-independent quantities: the tail guard compares a *modulus* of the last
    amplitude / diagonal entry with its bound, the accumulated weight is |amplitude|^2 (ket) or the diagonal entry (density
    matrix), and the returned cutoff contains the level at which the threshold was reached (`i + k`, k >= 1).
    Necessary for 'every displacement/squeezing parameter of any phase': a signed or complex comparison passes for some phases only.
    Read over `_compute_dimensions` and the private methods it calls (as written), keyed by what is computed, not where."""
    from ..domains import is_abs, is_abs2
    from ..model import single_defs
    obs: List[Ob] = []
    P = ("C10",)
    fi = repo.func("FockDimensions._compute_dimensions")
    cls = repo.cls("FockDimensions")
    closure, todo = [], [fi]
    while todo:
        f = todo.pop()
        if f in closure:
            continue
        closure.append(f)
        for x in ast.walk(getattr(f, "orig", f.node)):
            mc = method_call(x)
            if mc and src(mc[0]) == "self" and mc[1].startswith("_") and mc[1] in cls.methods and mc[1] not in ("_increase_dimensions", "_initial_estimate", "_compute_dimensions"):
                todo.append(cls.methods[mc[1]])

    def n_matmul(v: ast.AST) -> int:
        k = 0
        for x in ast.walk(v):
            if isinstance(x, ast.BinOp) and isinstance(x.op, ast.MatMult):
                k += 1
            if isinstance(x, ast.Call) and call_np(x) in ("dot", "matmul"):
                k += 1
            if isinstance(x, ast.Call) and call_np(x) == "einsum":
                k += max(len(x.args) - 2, 0)
        return k

    def _scan(closure, as_written):
        obs: List[Ob] = []
        found = {"Vector": 0, "Matrix": 0}
        wcount: Dict[str, int] = {}
        n_ret = 0
        for f in closure:
            fn = getattr(f, "orig", f.node) if as_written else f.node
            defs = single_defs(fn)
            parents = {id(c): p for p in ast.walk(fn) for c in ast.iter_child_nodes(p)}
            results = []
            for blk_owner in [fn] + [x for x in walk_no_nested(fn) if isinstance(x, (ast.If, ast.For, ast.While, ast.With, ast.Try))]:
                for fld in ("body", "orelse"):
                    blk = getattr(blk_owner, fld, None)
                    if not isinstance(blk, list):
                        continue
                    for a in blk:
                        if isinstance(a, ast.Assign) and len(a.targets) == 1 and isinstance(a.targets[0], ast.Name) and n_matmul(a.value) >= 1 and "state" in src(a.value):
                            region = {id(y) for st in blk[blk.index(a):] for y in ast.walk(st)}
                            results.append((a.targets[0].id, "Matrix" if n_matmul(a.value) >= 2 else "Vector", region))
            for rname, kind, region in results:
                found[kind] += 1

                def _offsets(sl: ast.AST) -> Set[int]:
                    """trailing levels a subscript reads: r[-1] -> {1}, r[-2:] -> {1, 2}, r[-1, -1] -> {1}, r[-2:, 0] -> {1, 2}"""
                    first = sl.elts[0] if isinstance(sl, ast.Tuple) and sl.elts else sl
                    def neg(e):
                        return e.operand.value if isinstance(e, ast.UnaryOp) and isinstance(e.op, ast.USub) and isinstance(e.operand, ast.Constant) and isinstance(e.operand.value, int) else None
                    if neg(first) is not None:
                        return {neg(first)}
                    if isinstance(first, ast.Slice) and first.lower is not None and neg(first.lower) is not None and first.upper is None and first.step is None:
                        return set(range(1, neg(first.lower) + 1))
                    return set()

                def _base_is_result(v: ast.AST) -> bool:
                    # the trial result itself, or its diagonal
                    if src(v) == rname:
                        return True
                    return isinstance(v, ast.Call) and call_np(v) in ("diag", "diagonal") and v.args and src(v.args[0]) == rname

                def is_tail(sub: ast.Subscript) -> bool:
                    return _base_is_result(sub.value) and bool(_offsets(sub.slice))

                def outer_sub(x: ast.AST) -> ast.AST:
                    while isinstance(parents.get(id(x)), ast.Subscript) and parents[id(x)].value is x:
                        x = parents[id(x)]
                    return x

                def wrapped(x: ast.AST, pred) -> bool:
                    """some enclosing expression of x (through once-bound names that carry it) satisfies pred"""
                    seen = 0
                    while x is not None and seen < 40:
                        seen += 1
                        if isinstance(x, ast.expr) and pred(x):
                            return True
                        p_ = parents.get(id(x))
                        if isinstance(p_, ast.Assign) and len(p_.targets) == 1 and isinstance(p_.targets[0], ast.Name) and p_.value is x:
                            # follow the use sites of the name (a name bound in both level branches – `tail = …` – shares its uses: the predicate has
                            # to hold at every one of them)
                            uses = [u for u in ast.walk(fn) if isinstance(u, ast.Name) and u.id == p_.targets[0].id and isinstance(u.ctx, ast.Load)]
                            return bool(uses) and all(wrapped(u, pred) for u in uses)
                        if isinstance(p_, (ast.stmt, ast.comprehension)) or p_ is None:
                            return False
                        x = p_
                    return False

                # (a) tail guard
                tails = [outer_sub(x) for x in ast.walk(fn) if id(x) in region and isinstance(x, ast.Subscript) and is_tail(x)]
                guarded = False
                for t in tails:
                    # the comparison the tail value ends up in
                    modulus = wrapped(t, lambda e: is_abs(e) is not None or is_abs2(e) is not None or (kind == "Matrix" and isinstance(e, ast.Attribute) and e.attr == "real"))
                    cmp_reach = wrapped(t, lambda e: isinstance(e, ast.Compare))
                    if not cmp_reach:
                        continue
                    guarded = True
                    (obs.append(ok("EST-TAIL", fi, f"tail-guard@{kind}", P, t, "the tail guard compares a modulus")) if modulus else
                     obs.append(bad("EST-TAIL", fi, f"tail-guard@{kind}", P, t,
                                    f"the tail guard compares `{src(t)}` itself with its bound: a negative or complex last amplitude passes the guard whatever its size, so the estimate depends on the phase of the parameter")))
                if not guarded:
                    obs.append(bad("EST-TAIL", fi, f"tail-guard@{kind}", P, fn, "the estimate is accepted without looking at the last level of the trial space: weight pushed against the cutoff goes unnoticed"))
                else:
                    # the trial operator is unitary on the truncated space, so the accumulated weight always reaches the threshold: the tail guard is the
                    # only convergence test.  Squeezing conserves the photon-number parity – every second level stays exactly empty – so a guard that reads
                    # the last level alone is blind whenever that level has the wrong parity
                    covered: Set[int] = set()
                    for t in tails:
                        if wrapped(t, lambda e: isinstance(e, ast.Compare)):
                            inner = t
                            while isinstance(inner, ast.Subscript) and not _base_is_result(inner.value):
                                inner = inner.value
                            if isinstance(inner, ast.Subscript):
                                covered |= _offsets(inner.slice)
                    (obs.append(ok("EST-TAIL", fi, f"tail-window@{kind}", P, tails[0], "the tail guard reads the last two levels (both parities)")) if {1, 2} <= covered else
                     obs.append(bad("EST-TAIL", fi, f"tail-window@{kind}", P, tails[0],
                                    "the tail guard reads the last level only: a parity-conserving operator (squeezing) leaves every second level exactly empty, so with a trial space whose last level has the "
                                    "other parity the guard passes however much weight sits against the cutoff – the squeezed vacuum with zeta = 1 is accepted at 7 levels (infidelity 6e-2 against a threshold of 1e-6)")))
                # (b) accumulated weights: every other read of an entry of the result
                reads = [outer_sub(x) for x in ast.walk(fn) if id(x) in region and isinstance(x, ast.Subscript) and src(x.value) == rname and not is_tail(x)]
                for r in reads:
                    wcount[kind] = wcount.get(kind, 0) + 1
                    pred = (lambda e: is_abs2(e) is not None) if kind == "Vector" else (lambda e: is_abs(e) is not None or (isinstance(e, ast.Attribute) and e.attr == "real") or call_np(e) == "real")
                    what = "|amplitude|^2" if kind == "Vector" else "the (modulus / real part of the) diagonal entry"
                    (obs.append(ok("EST-TAIL", fi, f"weight@{kind}#{wcount[kind]}", P, r, f"accumulated weight is {what}")) if wrapped(r, pred) else
                     obs.append(bad("EST-TAIL", fi, f"weight@{kind}#{wcount[kind]}", P, r, f"the accumulated weight read from `{src(r)}` is not {what}")))
            # (c) accepting returns inside the accumulation loops
            for l in [x for x in walk_no_nested(fn) if isinstance(x, ast.For)]:
                for r in [y for y in walk_no_nested(l) if isinstance(y, ast.Return) and y.value is not None]:
                    v = r.value
                    if (isinstance(v, ast.UnaryOp) and isinstance(v.op, ast.USub)) or (isinstance(v, ast.Constant) and isinstance(v.value, int) and v.value < 0):
                        continue
                    n_ret += 1
                    good = isinstance(v, ast.BinOp) and isinstance(v.op, ast.Add) and isinstance(v.right, ast.Constant) and isinstance(v.right.value, int) and v.right.value >= 1
                    (obs.append(ok("EST-TAIL", fi, f"cutoff-covers#{n_ret}", P, r, "cutoff = level reached + k, k >= 1")) if good else
                     obs.append(bad("EST-TAIL", fi, f"cutoff-covers#{n_ret}", P, r, f"`return {src(v)}`: the cutoff does not contain the level at which the threshold was reached")))
        return obs, found, wcount, n_ret
    # as written (the function and the private methods it calls); when the trial result is handed to a helper as an argument expression the
    # assignment only exists in the tree with the helpers spliced in: that tree is read instead
    sub_obs, found, wcount, n_ret = _scan(closure, True)
    if not found["Vector"] or not found["Matrix"]:
        sub_obs, found, wcount, n_ret = _scan([fi], False)
    obs += sub_obs
    if not found["Vector"] or not found["Matrix"]:
        raise AnalysisError(f"EST-TAIL: trial results found {found} (expected the ket and the density-matrix application)")
    if not n_ret:
        raise AnalysisError("EST-TAIL: no accepting return in the accumulation loops")
    if not wcount.get("Vector") or not wcount.get("Matrix"):
        raise AnalysisError(f"EST-TAIL: accumulated weights found {wcount}")
    return obs


@rule("LABEL-EXACT")
def label_exact(repo: Repo) -> List[Ob]:
    """Vector -> Label contraction keeps the state only if the *whole* ket is a basis vector.  Testing one amplitude against 1
    is sound with exact equality only (1 - |a_k| is second order in the other amplitudes: a tolerance t on a_k lets amplitudes up
    to sqrt(2t) be thrown away); a tolerant comparison has to be against the full basis vector."""
    obs: List[Ob] = []
    P = ("C07", "C08")
    n = 0
    for q in ("Fock.contract", "BaseState.contract", "CustomState.contract", "Polarization.contract"):
        fi = repo.func(q)
        lab = [a for a in walk_no_nested(fi.node) if isinstance(a, ast.Assign) and any(isinstance(t, ast.Attribute) and t.attr == "expansion_level" for t in a.targets)
               and src(a.value).endswith("ExpansionLevel.Label")]
        if not lab:
            raise AnalysisError(f"LABEL-EXACT: {q} never assigns ExpansionLevel.Label")
        n += 1
        bad_site = None
        sites = 0
        for c in walk_no_nested(fi.node):
            if isinstance(c, ast.Call) and call_np(c) in ("isclose", "allclose") and len(c.args) >= 2:
                # operands are read through once-bound locals (`amplitudes = jnp.abs(self.state[:, 0])` … isclose(amplitudes[k], 1.0))
                xargs = [expand_ast(fi.node, a, 4) for a in c.args[:2]]
                if not any("state" in src(a) for a in xargs):
                    continue
                other = [a for a in xargs if "state" not in src(a)]
                if not other:
                    continue
                sites += 1
                o = other[0]
                scalar = isinstance(o, ast.Constant) or (isinstance(o, ast.UnaryOp) and isinstance(o.operand, ast.Constant)) \
                    or (isinstance(o, ast.Call) and isinstance(o.func, ast.Name) and o.func.id in ("float", "int", "complex"))
                # purity tests `isclose(purity, 1)` are not about self.state: only calls whose operand is the stored ket count
                is_purity = any(is_trace_like(x) for a in xargs for x in ast.walk(a))
                if scalar and not is_purity and any(isinstance(x, ast.Attribute) and x.attr == "state" and src(x.value) == "self" for a in xargs for x in ast.walk(a)):
                    bad_site = c
            if isinstance(c, ast.Compare) and len(c.ops) == 1 and isinstance(c.ops[0], (ast.Lt, ast.LtE)) and any(
                    isinstance(x, ast.Attribute) and x.attr == "state" and src(x.value) == "self" for x in ast.walk(c.left)) and "1" in src(c.left) and is_abs_like(c.left):
                sites += 1
                bad_site = c
        (obs.append(bad("LABEL-EXACT", fi, "label-criterion", P, bad_site,
                        f"`{src(bad_site)[:60]}` accepts a ket as a basis state when one amplitude is *close to* 1: the other amplitudes (up to the square root of the tolerance) are discarded, "
                        "so a weakly excited state is replaced by a label and results depend on the contraction setting")) if bad_site is not None else
         obs.append(ok("LABEL-EXACT", fi, "label-criterion", P, lab[0], "a ket becomes a label only through an exact entry test or a comparison with the full basis vector")))
    return obs


def is_trace_like(x: ast.AST) -> bool:
    from ..domains import is_trace
    return is_trace(x) is not None


def is_abs_like(e: ast.AST) -> bool:
    from ..domains import is_abs
    return any(is_abs(x) is not None for x in [e] + list(ast.walk(e)))


# which operation types renormalise is part of the public contract C07 quantifies over ("non-unitary operators through the
# operation types that renormalise").  Frozen from the confirmed tree as *values* (not source text); the rule is monotone:
# a type that renormalises must keep doing so – switching renormalisation *on* for another type is not reported.
RENORMALISING = {
    "FockOperationType": {"Creation", "Annihilation", "Squeeze"},
    "PolarizationOperationType": {"I", "X", "Y", "Z", "H", "S", "T", "SX", "RX", "RY", "RZ", "U3", "Custom"},
    "CustomStateOperationType": {"Expresion", "Custom"},
    "CompositeOperationType": {"NonPolarizingBeamSplitter", "CXPolarization", "SwapPolarization", "CSwapPolarization", "CZPolarization", "Expression"},
}


@rule("RENORM-TABLE")
def renorm_table(repo: Repo) -> List[Ob]:
    from .dispatch import enum_members
    obs: List[Ob] = []
    n = 0
    for en, want in RENORMALISING.items():
        ci = repo.cls(en)
        init = ci.methods.get("__init__")
        pos = 0
        if init is not None:
            ps = [p for p in init.params if p != "self"]
            if "renormalize" in ps:
                pos = ps.index("renormalize")
        members = enum_members(ci)
        for mem in sorted(want):
            tup = members.get(mem)
            if tup is None:
                continue          # a vanished member is DISPATCH's business
            n += 1
            v = tup.elts[pos] if pos < len(tup.elts) else None
            good = isinstance(v, ast.Constant) and v.value is True
            (obs.append(ok("RENORM-TABLE", ci.methods.get("__init__") or f"{en}", f"renormalises:{en}.{mem}", ("C07", "C01"), tup, "the type renormalises")) if good else
             obs.append(bad("RENORM-TABLE", ci.methods.get("__init__") or f"{en}", f"renormalises:{en}.{mem}", ("C07", "C01"), tup,
                            f"{en}.{mem} no longer renormalises (flag `{src(v) if v is not None else '?'}`): a non-unitary operator applied through this type leaves a state that is not unit norm / unit trace")))
    if n < 20:
        raise AnalysisError(f"RENORM-TABLE: {n} renormalising members found (floor 20)")
    return obs


@rule("PHASE-GLOBAL")
def phase_global(repo: Repo) -> List[Ob]:
    """the phase removed when a pure density matrix is contracted to a ket is one *global* phase: the factor multiplied into the
    ket is built from a single entry (`angle(state[k])`), never from the whole vector (that would strip the relative phases)"""
    obs: List[Ob] = []
    P = ("C08", "C07")
    n = 0
    for q in ("Fock.contract", "BaseState.contract", "CustomState.contract", "Polarization.contract", "Envelope.contract", "ProductState.contract"):
        fi = repo.func(q)
        defs = single_defs(fi.node)
        k = 0
        for c in [x for x in walk_no_nested(fi.node) if isinstance(x, ast.Call) and call_np(x) == "angle" and x.args]:
            k += 1
            n += 1
            a = c.args[0]
            a = defs.get(a.id, a) if isinstance(a, ast.Name) else a
            scalar = (isinstance(a, ast.Subscript) and not any(isinstance(y, ast.Slice) for y in ast.walk(a.slice))) \
                or (isinstance(a, ast.Call) and method_call(a) and method_call(a)[1] == "item") \
                or (isinstance(a, ast.Call) and call_np(a) in ("trace", "vdot", "sum"))
            (obs.append(ok("PHASE-GLOBAL", fi, f"phase#{k}", P, c, "the removed phase is that of a single entry (a global phase)")) if scalar else
             obs.append(bad("PHASE-GLOBAL", fi, f"phase#{k}", P, c,
                            f"`{src(c)[:50]}` takes the phase of every component: multiplying the ket by e^(-i angle) strips the relative phases, the contracted vector is (|psi_0|, |psi_1|, …)")))
    if n < 5:
        raise AnalysisError(f"PHASE-GLOBAL: {n} phase normalisations found (floor 5)")
    return obs
