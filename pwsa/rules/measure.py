"""SAMP-e (Born form), SAMP-f (POVM probability vs post-state), COLLAPSE, MEASURE-SET, PAIR."""
from __future__ import annotations

import ast
import itertools
from typing import Dict, FrozenSet, List, Optional, Set, Tuple

from ..cfg import CFG, Node, explore, walk_node
from ..domains import is_abs, is_abs2, is_conj, is_dagger, is_norm2, is_trace, strip_real, strip_shape
from ..model import AnalysisError, FuncInfo, Repo, call_np, dotted, expand_ast, expand_src, method_call, src, walk_no_nested
from ..report import Ob, bad, note, ok, skip
from ..scope import assignments_to, full_call_name, local_bindings, resolve_alias
from . import rule
from .esc import Incomplete, spec, summarise
from .samp import key_arg, sampler_calls
from .struct import self_levels

PROJECTIVE = ["Fock.measure", "Polarization.measure", "CustomState.measure", "Envelope.measure", "ProductState.measure"]
POVM = ["BaseState.measure_POVM", "CustomState.measure_POVM", "Envelope.measure_POVM", "ProductState.measure_POVM"]


def p_arg(call: ast.Call) -> Optional[ast.expr]:
    for kw in call.keywords:
        if kw.arg == "p":
            return kw.value
    if len(call.args) >= 5:
        return call.args[4]
    return None


class Slice:
    """backward slice of an expression as a chain of primitives, outermost first"""

    def __init__(self, repo: Repo, fi: FuncInfo, cfg: CFG):
        self.repo, self.fi, self.cfg = repo, fi, cfg
        self.chain: List[Tuple[str, str]] = []
        self.unknown: Optional[str] = None
        self.forks = []          # [(defining CFG node, Slice of the continuation)] when the slice splits by branch

    def add(self, prim: str, detail: str = ""):
        self.chain.append((prim, detail))

    def follow(self, e: ast.AST, at: Node, depth: int = 0) -> None:
        if depth > 40:
            self.unknown = "slice too deep"
            return
        # wrappers --------------------------------------------------------
        mc = method_call(e)
        if mc and mc[1] in ("flatten", "ravel", "reshape", "astype", "squeeze", "copy"):
            self.add("SHAPE")
            return self.follow(mc[0], at, depth + 1)
        n = call_np(e)
        if n in ("array", "asarray", "ravel", "reshape", "squeeze") and e.args:
            a = e.args[0]
            if isinstance(a, (ast.List, ast.Tuple)):
                self.add("ARRAY", str(len(a.elts)))
                # every element must have the same form: follow the first, require the others to match textually modulo indices
                forms = []
                for el in a.elts:
                    sub = Slice(self.repo, self.fi, self.cfg)
                    sub.follow(el, at, depth + 1)
                    forms.append((tuple(p for p, _ in sub.chain), sub.unknown))
                if len(set(forms)) != 1:
                    self.unknown = "array elements of different forms"
                    return
                self.chain += [(p, "") for p in forms[0][0]]
                self.unknown = forms[0][1]
                return
            self.add("SHAPE")
            return self.follow(a, at, depth + 1)
        if isinstance(e, ast.Attribute) and e.attr == "real":
            self.add("REAL")
            return self.follow(e.value, at, depth + 1)
        if n == "real" and e.args:
            self.add("REAL")
            return self.follow(e.args[0], at, depth + 1)
        # normalisation by the sum
        if isinstance(e, ast.BinOp) and isinstance(e.op, ast.Div):
            d = e.right
            if (call_np(d) == "sum" or (isinstance(d, ast.Call) and isinstance(d.func, ast.Name) and d.func.id == "sum")) and d.args:
                self.add("DIVSUM")
                return self.follow(e.left, at, depth + 1)
            self.unknown = f"division by `{src(d)[:30]}`"
            return
        a2 = is_abs2(e)
        if a2 is not None:
            self.add("ABS2")
            return self.follow(a2, at, depth + 1)
        if isinstance(e, ast.BinOp) and isinstance(e.op, ast.Pow) and isinstance(e.right, ast.Constant) and e.right.value == 2:
            # (shape-neutral(abs(x)))**2 handled by is_abs2; anything else squared
            inner = strip_shape(e.left)
            if is_abs(inner) is not None:
                self.add("ABS2")
                return self.follow(is_abs(inner), at, depth + 1)
            self.add("SQUARE")
            return self.follow(e.left, at, depth + 1)
        ab = is_abs(e)
        if ab is not None:
            self.add("ABS")
            return self.follow(ab, at, depth + 1)
        if n in ("diag", "diagonal") and e.args:
            self.add("DIAG")
            return self.follow(e.args[0], at, depth + 1)
        if n == "sum" and e.args:
            has_axis = len(e.args) > 1 or any(k.arg == "axis" for k in e.keywords)
            self.add("REDUCE", "sum")
            return self.follow(e.args[0], at, depth + 1)
        if mc and mc[1] == "sum":
            self.add("REDUCE", "sum")
            return self.follow(mc[0], at, depth + 1)
        if n == "einsum" and len(e.args) == 2:
            s = e.args[0]
            kind = self.classify_einsum(s, e, at)
            self.add(*kind)
            return self.follow(e.args[1], at, depth + 1)
        if n in ("take",) and e.args:
            self.add("INDEX")
            return self.follow(e.args[0], at, depth + 1)
        if isinstance(e, ast.Subscript):
            self.add("INDEX")
            return self.follow(e.value, at, depth + 1)
        if isinstance(e, ast.Attribute) and e.attr == "state":
            self.add("STATE", src(e))
            return
        if isinstance(e, ast.Name):
            defs = self.cfg.reaching_defs(at, e.id)
            defs = [d for d in defs if d is not self.cfg.entry]
            if not defs:
                self.unknown = f"`{e.id}` has no local definition"
                return
            if len(defs) > 1:
                # several reaching definitions: accept if all are plain re-derivations of the stored state
                if all(self._derives_state(d, e.id) for d in defs):
                    self.add("STATE", e.id + " (conditioned tensor)")
                    return
                # alternatives selected by a branch (e.g. on the member's tensor position): all must have the same form
                subs = []
                for d in defs:
                    sub = Slice(self.repo, self.fi, self.cfg)
                    sub.follow_def(d, e.id, depth + 1)
                    subs.append(sub)
                forms = {(tuple(p for p, _ in sub.chain), sub.unknown) for sub in subs}
                if len(forms) != 1:
                    # alternatives of different forms (one per branch): the slice forks here; each continuation is judged
                    # on its own, at the representation level that holds where that definition is made
                    self.forks = [(d, sub) for d, sub in zip(defs, subs)]
                    return
                for i, (prim, _) in enumerate(subs[0].chain):
                    self.chain.append((prim, "|".join(sorted({sub.chain[i][1] for sub in subs if sub.chain[i][1]}))))
                self.unknown = subs[0].unknown
                return
            d = defs[0]
            a = d.ast
            if isinstance(a, ast.AugAssign) and isinstance(a.op, ast.Div):
                dd = a.value
                if (call_np(dd) == "sum" or (isinstance(dd, ast.Call) and isinstance(dd.func, ast.Name) and dd.func.id == "sum")):
                    self.add("DIVSUM")
                    # value before the augmented assignment
                    prev = [x for x in self.cfg.reaching_defs(d, e.id) if x is not self.cfg.entry]
                    if len(prev) != 1:
                        self.unknown = "normalised value has several definitions"
                        return
                    return self.follow_def(prev[0], e.id, depth + 1)
                self.unknown = "augmented division by something else than the sum"
                return
            return self.follow_def(d, e.id, depth + 1)
        self.unknown = f"`{src(e)[:40]}`"

    def follow_def(self, d: Node, name: str, depth: int) -> None:
        a = d.ast
        if d.kind == "stmt" and isinstance(a, (ast.Assign, ast.AnnAssign)) and a.value is not None:
            tgt = a.targets[0] if isinstance(a, ast.Assign) else a.target
            if isinstance(tgt, ast.Name):
                if self._derives_state(d, name) and any(isinstance(x, ast.Attribute) and x.attr == "state" and src(x.value) == "self" for x in ast.walk(a.value)):
                    self.add("STATE", name + " (tensor view of the stored state)")
                    return
                return self.follow(a.value, d, depth)
        self.unknown = f"definition of `{name}` is not a plain assignment"

    def _derives_state(self, d: Node, name: str, depth: int = 0) -> bool:
        """the definition makes `name` a reshaped / sliced / re-assembled view of the stored state"""
        a = d.ast
        if not (d.kind == "stmt" and isinstance(a, ast.Assign)):
            return False
        v = a.value
        names = {x.id for x in ast.walk(v) if isinstance(x, ast.Name)}

        def only_views(v) -> bool:
            for x in ast.walk(v):
                if is_abs(x) is not None or call_np(x) in ("sum", "diag", "diagonal", "real", "trace", "square", "abs", "linalg.norm"):
                    return False
                if isinstance(x, ast.Attribute) and x.attr in ("real", "imag"):
                    return False
                if isinstance(x, ast.BinOp) and isinstance(x.op, (ast.Pow, ast.Div)):
                    return False
            return True
        if any(isinstance(x, ast.Attribute) and x.attr == "state" and src(x.value) == "self" for x in ast.walk(v)):
            return only_views(v)
        if name in names:
            return only_views(v)
        return False

    def classify_einsum(self, s: ast.AST, call: ast.Call, at: Node) -> Tuple[str, str]:
        """literal: partial trace / amplitude sum; generated: refer to the generator's summary"""
        lit = None
        if isinstance(s, ast.Constant) and isinstance(s.value, str):
            lit = s.value
        elif isinstance(s, ast.Name):
            defs = [d for d in self.cfg.reaching_defs(at, s.id) if d is not self.cfg.entry]
            if len(defs) == 1 and isinstance(defs[0].ast, ast.Assign):
                v = defs[0].ast.value
                if isinstance(v, ast.Constant) and isinstance(v.value, str):
                    lit = v.value
                elif isinstance(v, ast.Call):
                    d = dotted(v.func) or ""
                    full = resolve_alias(d, self.fi)
                    if full.startswith("photon_weave.extra.einsum_"):
                        return ("GEN", full.split(".")[-1])
        if lit is None:
            return ("EINSUM?", src(s)[:30])
        lit = lit.replace(" ", "")
        if "->" not in lit or "," in lit:
            return ("EINSUM?", lit)
        l, r = lit.split("->")
        rep = [c for c in set(l) if l.count(c) == 2 and c not in r]
        single_dropped = [c for c in l if l.count(c) == 1 and c not in r]
        if single_dropped:
            return ("REDUCE", f"einsum {lit} sums over {''.join(single_dropped)}")
        if rep:
            opn = call.args[1].id if len(call.args) > 1 and isinstance(call.args[1], ast.Name) else "?"
            return ("PTRACE-LIT", f"{lit}@{opn}")
        return ("SHAPE", lit)


def _tensor_layout(fi: FuncInfo, cfg: CFG, at: Node, name: str) -> Optional[str]:
    """'interleaved' (r0,c0,r1,c1) / 'blocked' (r0,r1,c0,c1) of a 4-axis density tensor, from its definition"""
    for d in cfg.reaching_defs(at, name):
        if d is cfg.entry or not isinstance(d.ast, ast.Assign):
            continue
        t = src(d.ast.value)
        if ".reshape(" in t and ".transpose([0, 2, 1, 3])" in t.replace("(0, 2, 1, 3)", "[0, 2, 1, 3]"):
            return "interleaved"
        if ".reshape(" in t and "transpose" not in t:
            return "blocked"
    return None


def _ptrace_literal_ok(lit: str, layout: Optional[str]) -> Optional[bool]:
    l, r = lit.replace(" ", "").split("->")
    if len(l) != 4 or layout is None:
        return None
    pairs = [(0, 1), (2, 3)] if layout == "interleaved" else [(0, 2), (1, 3)]
    rep = [c for c in set(l) if l.count(c) == 2]
    for c in rep:
        pos = tuple(i for i, x in enumerate(l) if x == c)
        if pos not in pairs:
            return False
    kept = [i for i, x in enumerate(l) if x in r]
    # kept letters must be one (row, col) pair, in (row, col) order
    if tuple(kept) not in pairs or r != "".join(l[i] for i in kept):
        return False
    return True


def _judge_born(fi: FuncInfo, cfg: CFG, node: Node, lvl: str, sl: "Slice", gen_ok) -> Tuple[str, str, str]:
    """(ok|bad|skip, reason, slice text) for one probability expression at one representation level"""
    chain = [x for x, _ in sl.chain]
    det = " ".join(f"{a}" + (f"<{b}>" if b and a in ("GEN", "PTRACE-LIT", "REDUCE") else "") for a, b in sl.chain)
    if sl.unknown or "EINSUM?" in chain or not chain or chain[-1] != "STATE":
        return ("skip", f"slice of p= not understood ({sl.unknown or 'ends at ' + (chain[-1] if chain else '?')})", det)
    core = [x for x in chain if x not in ("SHAPE", "DIVSUM", "ARRAY")]
    verdict = None
    if lvl == "Vector":
        # REDUCE/GEN(vector marginal)* ABS2 INDEX* STATE
        if "ABS2" not in core:
            verdict = "amplitudes are not modulus-squared" + (" (only |.|, no square)" if "ABS" in core else "")
        else:
            i = core.index("ABS2")
            inner = core[i + 1:]
            outer = core[:i]
            if any(x in ("REDUCE", "GEN") for x in inner):
                verdict = "the modulus-square is applied *after* the amplitudes of the other subsystems were summed (|sum a|^2 instead of sum |a|^2): interference between bystander components corrupts the marginal"
            elif any(x not in ("REDUCE", "GEN", "REAL", "INDEX") for x in outer):
                verdict = f"unexpected primitive outside |.|^2: {outer}"
            elif any(x not in ("INDEX", "STATE") for x in inner):
                verdict = f"unexpected primitive inside |.|^2: {inner}"
    elif lvl == "Matrix":
        # (REAL|ABS) DIAG PTRACE* STATE
        if "DIAG" not in core:
            verdict = "probabilities are not the diagonal of the (reduced) density matrix"
        elif "ABS2" in core or "SQUARE" in core:
            verdict = "diagonal entries of a density matrix are squared"
        else:
            for (prim, detail) in sl.chain:
                if prim == "PTRACE-LIT":
                    for one_full in detail.split("|"):
                        one, _, opn = one_full.partition("@")
                        lay = _tensor_layout(fi, cfg, node, opn) if opn and opn != "?" else None
                        okp = _ptrace_literal_ok(one, lay)
                        if okp is False:
                            verdict = f"`{one}` does not trace the (row, column) pair of one subsystem under the tensor's {lay} layout"
                if prim == "GEN":
                    if gen_ok.get(detail) is False:
                        verdict = (f"the marginal is computed with ESC.{detail}, whose summary is not a partial trace "
                                   "(row and column indices of the unmeasured members are summed independently: coherences leak into the probabilities)")
                    elif gen_ok.get(detail) is None:
                        verdict = None
                if prim == "REDUCE":
                    verdict = f"a plain sum ({detail}) is applied to a density tensor instead of a partial trace"
    else:
        return ("skip", "representation level at the draw is undetermined", det)
    return ("bad", verdict, det) if verdict else ("ok", "", det)


@rule("SAMP-e")
def samp_e(repo: Repo) -> List[Ob]:
    obs: List[Ob] = []
    P = ("C04",)
    sites = 0
    gen_ok: Dict[str, Optional[bool]] = {}
    for g in ("measure_vector", "measure_matrix"):
        try:
            got = summarise(repo.func(f"einsum_constructor:{g}"), repo)
            gen_ok[g] = (got == spec("measure_matrix")) if g == "measure_matrix" else None
            gen_ok[g + ":got"] = got
        except Incomplete:
            gen_ok[g] = None
    for q in PROJECTIVE:
        fi = repo.func(q)
        calls = sampler_calls(fi)
        if not calls:
            raise AnalysisError(f"SAMP-e: no sampler call in {q}")
        cfg, lv = self_levels(fi)
        cnt: Dict[str, int] = {}
        for c, full in calls:
            sites += 1
            node = cfg.node_containing(c)
            levels = set(lv.get(node, frozenset())) - {0}
            lvl = "Vector" if levels == {1} else "Matrix" if levels == {2} else "level?"
            cnt[lvl] = cnt.get(lvl, 0) + 1
            key = f"born@{lvl}#{cnt[lvl]}"
            p = p_arg(c)
            if p is None:
                obs.append(bad("SAMP-e", fi, key, P, c, "outcome is drawn without a probability vector (uniform draw)"))
                continue
            sl = Slice(repo, fi, cfg)
            sl.follow(p, node)
            cases = []

            def flatten(prefix, slc, level):
                if not slc.forks:
                    whole = Slice(repo, fi, cfg)
                    whole.chain = prefix + slc.chain
                    whole.unknown = slc.unknown
                    cases.append((level, whole))
                    return
                for d, sub in slc.forks:
                    dl = set(lv.get(d, frozenset())) - {0}
                    l2 = "Vector" if dl == {1} else "Matrix" if dl == {2} else level
                    flatten(prefix + slc.chain, sub, l2)
            flatten([], sl, lvl)
            results = [_judge_born(fi, cfg, node, l_, s_, gen_ok) for l_, s_ in cases]
            dets = "; ".join(f"{l_}: {r[2]}" for (l_, _), r in zip(cases, results)) if len(cases) > 1 else results[0][2]
            if any(r[0] == "skip" for r in results):
                why = next(r[1] for r in results if r[0] == "skip")
                obs.append(skip("SAMP-e", fi, key, P, c, f"{why}: {dets}"))
            elif any(r[0] == "bad" for r in results):
                verdict = next(r[1] for r in results if r[0] == "bad")
                obs.append(bad("SAMP-e", fi, key, P, c, f"{verdict}  [slice: {dets}]", code=dets))
            else:
                obs.append(ok("SAMP-e", fi, key, P, c, f"Born form: {dets}"))
    if sites < len(PROJECTIVE):
        raise AnalysisError(f"SAMP-e: {sites} projective sampler sites (floor: one per measuring function)")
    return obs


def _layout_for_literal(fi: FuncInfo, cfg: CFG, at: Node, lit: str) -> Optional[str]:
    # the traced tensor is the local `ps` in every literal partial trace of this repository
    return _tensor_layout(fi, cfg, at, "ps") or _layout_any(fi)


def _layout_any(fi: FuncInfo) -> Optional[str]:
    return None


# ------------------------------------------------------------------------------------ SAMP-f
@rule("SAMP-f")
def samp_f(repo: Repo) -> List[Ob]:
    """POVM: p_i = Tr(M_i rho M_i^dagger) – the probability expression must contain the operator twice,
    once conjugated, i.e. be the trace of the same sandwich used for the post-measurement state"""
    obs: List[Ob] = []
    P = ("C09",)
    sites = 0
    for q in POVM:
        fi = repo.func(q)
        fn = fi.node
        calls = sampler_calls(fi)
        if not calls:
            raise AnalysisError(f"SAMP-f: no sampler in {q}")
        # per-operator probability expressions: comprehension elements or appended values inside `for op in operators`
        exprs: List[Tuple[ast.AST, str, ast.AST]] = []   # (expression, loop variable, loop node)
        for n in walk_no_nested(fn):
            if isinstance(n, ast.ListComp) and len(n.generators) == 1 and "operators" in src(n.generators[0].iter):
                if any(is_trace(x) is not None for x in [n.elt] + list(ast.walk(n.elt))):
                    exprs.append((n.elt, src(n.generators[0].target), n))
            if isinstance(n, ast.For) and "operators" in src(n.iter):
                inloop = {a_.targets[0].id: a_.value for a_ in ast.walk(n) if isinstance(a_, ast.Assign) and len(a_.targets) == 1 and isinstance(a_.targets[0], ast.Name)}
                for x in ast.walk(n):
                    mc = method_call(x)
                    if mc and mc[1] == "append" and x.args:
                        val = x.args[0]
                        if isinstance(val, ast.Name) and val.id in inloop:
                            val = inloop[val.id]            # `w = float(trace(…).real)` … probs.append(w): the value named in the same iteration
                        if any(is_trace(y) is not None for y in [val] + list(ast.walk(val))):
                            exprs.append((val, src(n.target), n))
        if not exprs:
            obs.append(skip("SAMP-f", fi, "povm-probability", P, fn, "per-operator probability expression not found"))
            continue
        for i, (e, var, loop) in enumerate(exprs, 1):
            sites += 1
            # inline local names defined inside the loop body
            def inline(x, depth=0):
                out = [x]
                if depth > 4:
                    return out
                for nm in [y for y in ast.walk(x) if isinstance(y, ast.Name) and isinstance(y.ctx, ast.Load)]:
                    if isinstance(loop, ast.For):
                        for s in ast.walk(loop):
                            if isinstance(s, ast.Assign) and isinstance(s.targets[0], ast.Name) and s.targets[0].id == nm.id and s.targets[0].id != var and s.lineno <= getattr(x, "lineno", 10**9):
                                out += inline(s.value, depth + 1)
                return out
            parts = inline(e)
            occ = 0
            conj_occ = 0
            for part in parts:
                for y in ast.walk(part):
                    if isinstance(y, ast.Name) and y.id == var and isinstance(y.ctx, ast.Load):
                        occ += 1
                for y in ast.walk(part):
                    c = is_conj(y)
                    if c is not None and any(isinstance(z, ast.Name) and z.id == var for z in ast.walk(c)):
                        conj_occ += 1
            # `op = op.reshape(...)` re-binding inside the loop counts as a use of itself, not of the formula
            rebind = sum(1 for s in ast.walk(loop) if isinstance(s, ast.Assign) and isinstance(s.targets[0], ast.Name) and s.targets[0].id == var) if isinstance(loop, ast.For) else 0
            key = f"povm-probability#{i}"
            rebind = 0
            if occ - rebind >= 2 and conj_occ >= 1:
                obs.append(ok("SAMP-f", fi, key, P, e, "p_i = Tr(M_i rho M_i^dagger): the operator occurs twice, once conjugated"))
            else:
                obs.append(bad("SAMP-f", fi, key, P, e,
                               f"the outcome probability is computed as `{src(e)[:60]}` with the operator occurring {max(occ - rebind, 0)}x ({conj_occ}x conjugated): this is Tr(M rho), "
                               "not Tr(M rho M^dagger) – it disagrees with the post-measurement state M rho M^dagger / p the same function stores (and with the envelope/composite entry points)"))
    if sites < 4:
        raise AnalysisError(f"SAMP-f: {sites} POVM probability expressions (floor 4)")
    return obs


# ------------------------------------------------------------------------------------ COLLAPSE
def outcome_names(fn: ast.FunctionDef) -> Set[str]:
    """locals that hold a drawn outcome: assigned from a sampler call or from `outcomes[...]`"""
    out: Set[str] = {"choice", "outcome"}
    for _ in range(2):
        for x in walk_no_nested(fn):
            if isinstance(x, ast.Assign) and isinstance(x.targets[0], ast.Name):
                t = src(x.value)
                if "random.choice(" in t or any(isinstance(y, ast.Subscript) and src(y.value) in ("outcomes", "results") for y in ast.walk(x.value)) \
                        or any(isinstance(y, ast.Name) and y.id in out and y.id not in ("choice", "outcome") for y in ast.walk(x.value)):
                    out.add(x.targets[0].id)
    return out


def _depends_on_outcome(e: ast.AST, fi: FuncInfo, cfg: CFG, at: Node, depth: int = 0) -> bool:
    drawn = outcome_names(fi.node) | {"result"}        # whatever the local that receives the sampler's result is called
    for x in [e] + list(ast.walk(e)):
        if isinstance(x, ast.Subscript) and src(x.value) in ("outcomes", "results"):
            return True
        if isinstance(x, ast.Name) and x.id in drawn:
            return True
    if depth < 6:
        for x in ast.walk(e):
            if isinstance(x, ast.Name) and isinstance(x.ctx, ast.Load):
                # element stores `x[...] = <outcome>` make x outcome-dependent (flow-insensitive, may-dependence)
                for st in walk_no_nested(fi.node):
                    if isinstance(st, ast.Assign) and isinstance(st.targets[0], ast.Subscript) and src(st.targets[0].value) == x.id and x.id not in ("outcomes", "results"):
                        if any(isinstance(y, ast.Subscript) and src(y.value) in ("outcomes", "results") for y in ast.walk(st.value)) or any(isinstance(y, ast.Name) and y.id in ("choice", "outcome") for y in ast.walk(st.value)):
                            return True
                for d in cfg.reaching_defs(at, x.id):
                    if d is cfg.entry or not isinstance(d.ast, (ast.Assign, ast.AugAssign)):
                        continue
                    if _depends_on_outcome(d.ast.value, fi, cfg, d, depth + 1):
                        return True
                    # `t /= norm(t)`: the updated value also depends on what t held before
                    if isinstance(d.ast, ast.AugAssign) and isinstance(d.ast.target, ast.Name) and _depends_on_outcome(ast.Name(id=d.ast.target.id, ctx=ast.Load()), fi, cfg, d, depth + 1):
                        return True
            if isinstance(x, ast.Attribute) and isinstance(x.ctx, ast.Load) and isinstance(x.value, ast.Name) and x.value.id == "self" and x.attr == "state":
                for d in cfg.reaching_defs(at, "@self.state"):
                    if d is cfg.entry or not isinstance(d.ast, (ast.Assign, ast.AugAssign)):
                        continue
                    if _depends_on_outcome(d.ast.value, fi, cfg, d, depth + 1):
                        return True
    return False


def _is_basis_value(e: ast.AST) -> bool:
    """a label or a basis vector/matrix built from zeros(...).at[...].set(1)"""
    t = src(e)
    if isinstance(e, ast.Subscript) and src(e.value) in ("outcomes", "results"):
        return True
    if isinstance(e, ast.Attribute) and "PolarizationLabel" in t:
        return True
    if ".at[" in t and ("zeros" in t):
        return True
    if isinstance(e, ast.Constant) and e.value is None:
        return True
    return False


def _shape_of(v: ast.AST) -> str:
    """the essential literal of a survivor expression: its einsum string, or the primitive and the member whose outcome/axis it uses"""
    for x in [v] + list(ast.walk(v)):
        if isinstance(x, ast.Call) and call_np(x) == "einsum" and x.args and isinstance(x.args[0], ast.Constant):
            return "einsum " + str(x.args[0].value).replace(" ", "")
    for x in [v] + list(ast.walk(v)):
        if isinstance(x, ast.Call) and call_np(x) in ("take", "sum", "trace"):
            mem = sorted({"fock" if ".fock" in src(a) else "polarization" if ".polarization" in src(a) else "" for a in x.args[1:]} - {""})
            return call_np(x) + "(" + ",".join(mem) + ")"
    return type(v).__name__


@rule("COLLAPSE")
def collapse(repo: Repo) -> List[Ob]:
    """every member state written by a measurement function is conditioned on the drawn outcome(s) and,
    when it is an array taken out of the joint state, renormalised"""
    obs: List[Ob] = []
    P = ("C05", "C07")
    sites = 0
    fi = repo.func("Envelope.measure")
    cfg, lv = self_levels(fi)
    cnt: Dict[str, int] = {}
    for n in cfg.nodes:
        a = n.ast
        if not (n.kind == "stmt" and isinstance(a, ast.Assign)):
            continue
        for t in a.targets:
            if isinstance(t, ast.Attribute) and t.attr == "state" and src(t.value) in ("self.fock", "self.polarization"):
                sites += 1
                levels = set(lv.get(n, frozenset())) - {0}
                lvl = "Vector" if levels == {1} else "Matrix" if levels == {2} else "any"
                who = src(t.value).split(".")[-1]
                k = f"{who}@{lvl}"
                cnt[k] = cnt.get(k, 0) + 1
                key = f"survivor:{k}#{cnt[k]}"
                v = a.value
                if _is_basis_value(v):
                    (obs.append(ok("COLLAPSE", fi, key, P, a, "member is set to the basis state of its outcome")) if _depends_on_outcome(v, fi, cfg, n) else
                     obs.append(bad("COLLAPSE", fi, key, P, a, "member is set to a fixed basis state that does not depend on the drawn outcome", code="fixed-basis:" + src(v)[:40])))
                    continue
                cond = _depends_on_outcome(v, fi, cfg, n)
                normed = any(isinstance(x, ast.BinOp) and isinstance(x.op, ast.Div) and (is_norm2(x.right) is not None or is_trace(x.right) is not None) for x in [v] + list(ast.walk(v)))
                # normalisation in a following statement of the same block
                if not normed:
                    for m in cfg.reachable([n]):
                        b = m.ast
                        if m.kind == "stmt" and isinstance(b, (ast.Assign, ast.AugAssign)) and src(b.targets[0] if isinstance(b, ast.Assign) else b.target) == src(t):
                            if any((is_norm2(x) is not None or is_trace(x) is not None) for x in ast.walk(b.value)) and m is not n:
                                normed = True
                if cond and normed:
                    obs.append(ok("COLLAPSE", fi, key, P, a, "survivor is conditioned on the outcome and renormalised"))
                elif cond:
                    obs.append(bad("COLLAPSE", fi, key, P, a, f"the state left in `{src(t.value)}` is conditioned on the outcome but never renormalised: it is stored with norm/trace < 1",
                                   code="unnormalised:" + _shape_of(v)))
                else:
                    obs.append(bad("COLLAPSE", fi, key, P, a,
                                   f"the state written to `{src(t.value)}` after the measurement (`{src(v)[:50]}`) does not depend on any drawn outcome: it is the unconditioned marginal of the *pre-measurement* state, not the projection on the outcome",
                                   code="unconditioned:" + _shape_of(v)))
    if sites < 8:
        raise AnalysisError(f"COLLAPSE: {sites} member-state writes in Envelope.measure (floor 8)")
    # Envelope.measure_POVM: the member that survives a one-member POVM is reduced from the *post-measurement* state
    mp = repo.func("Envelope.measure_POVM")
    cfgp = CFG(mp.node)
    kk = 0
    for n in cfgp.nodes:
        a = n.ast
        if n.kind == "stmt" and isinstance(a, ast.Assign):
            for t in a.targets:
                if isinstance(t, ast.Attribute) and t.attr == "state" and src(t.value) != "self":
                    kk += 1
                    cond = _depends_on_outcome(a.value, mp, cfgp, n)
                    (obs.append(ok("COLLAPSE", mp, f"povm-survivor#{kk}", ("C09", "C05"), a, "survivor is reduced from the post-measurement state")) if cond else
                     obs.append(bad("COLLAPSE", mp, f"povm-survivor#{kk}", ("C09", "C05"), a,
                                    f"`{src(t)}` is reduced from a tensor that does not depend on the drawn outcome (the pre-measurement state): the surviving member ignores the measurement result")))
    if kk < 1:
        raise AnalysisError("COLLAPSE: survivor write of Envelope.measure_POVM not found")
    # every POVM post-state is built from operators[<drawn outcome>]
    for q in POVM:
        f2 = repo.func(q)
        c2 = CFG(f2.node)
        j = 0
        for n in c2.nodes:
            a = n.ast
            if n.kind == "stmt" and isinstance(a, ast.Assign) and any(src(t) == "self.state" for t in a.targets):
                if not any(call_np(x) in ("einsum", "matmul") for x in ast.walk(a.value)):
                    continue
                j += 1
                cond = _depends_on_outcome(a.value, f2, c2, n)
                (obs.append(ok("COLLAPSE", f2, f"povm-post-state#{j}", ("C09",), a, "post-measurement state uses the operator of the drawn outcome")) if cond else
                 obs.append(bad("COLLAPSE", f2, f"povm-post-state#{j}", ("C09",), a, "the post-measurement state does not depend on the drawn outcome")))
    # … and it is written on every path that leaves the function normally after the draw: the subsystems that survive (bystanders of a
    # product space, the partner in an envelope) are conditioned on the reported outcome whatever happens to the measured ones.  A path on
    # which the holder itself is destroyed (`self._set_measured()`) has nothing left to condition.
    from .samp import sampler_calls
    for q in POVM:
        f2 = repo.func(q)
        c2 = CFG(f2.node)
        writes = {n for n in c2.nodes if n.kind == "stmt" and isinstance(n.ast, ast.Assign) and any(src(t) == "self.state" for t in n.ast.targets)
                  and any(call_np(x) in ("einsum", "matmul") or (isinstance(x, ast.BinOp) and isinstance(x.op, ast.MatMult)) for x in ast.walk(n.ast.value))}
        # a post-state first built in a local and then stored (`ps = einsum(…); self.state = ps / trace(ps)`)
        writes |= {n for n in c2.nodes if n.kind == "stmt" and isinstance(n.ast, ast.Assign) and any(src(t) == "self.state" for t in n.ast.targets)
                   and _depends_on_outcome(n.ast.value, f2, c2, n)}
        gone = {n for n in c2.nodes for x in walk_node(n) if method_call(x) and method_call(x)[1] == "_set_measured" and src(method_call(x)[0]) == "self"}
        draws = [c2.node_containing(c) for c, _ in sampler_calls(f2)]
        draws = [d for d in draws if d is not None]
        if not draws or not writes:
            continue
        for j, d in enumerate(draws, 1):
            good = c2.always_followed_by(d, writes | gone)
            (obs.append(ok("COLLAPSE", f2, f"povm-post-state-always#{j}", ("C09", "C05"), d.ast, "the post-measurement state is stored on every path after the draw")) if good else
             obs.append(bad("COLLAPSE", f2, f"povm-post-state-always#{j}", ("C09", "C05"), d.ast,
                            "after the outcome is drawn a normal return is reachable without storing M_k rho M_k^dagger / p_k: the subsystems that survive (bystanders of the product space, "
                            "the partner in the envelope) keep the pre-measurement state instead of the state conditioned on the reported outcome")))
    # ProductState.measure: remaining tensor sliced by the outcome, then normalised
    ps = repo.func("ProductState.measure")
    cfg, lv = self_levels(ps)
    k = 0
    for n in cfg.nodes:
        a = n.ast
        if n.kind == "stmt" and isinstance(a, ast.Assign) and any(src(t) == "self.state" for t in a.targets):
            if isinstance(a.value, ast.Call) and call_np(a.value) == "array":
                continue       # the emptied product space placeholder [[1]]
            k += 1
            levels = set(lv.get(n, frozenset())) - {0}
            lvl = "Vector" if levels == {1} else "Matrix" if levels == {2} else "any"
            key = f"remaining-space@{lvl}"
            cond = _depends_on_outcome(a.value, ps, cfg, n)
            normed = False
            v0 = a.value
            if isinstance(v0, ast.BinOp) and isinstance(v0.op, ast.Div):
                # written already normalised:  self.state = t / norm(t)
                den = is_norm2(v0.right) if is_norm2(v0.right) is not None else is_trace(v0.right)
                if den is not None and src(den) == src(v0.left):
                    normed = True
            if isinstance(v0, ast.Name):
                # normalised in a local first:  t /= norm(t);  self.state = t
                ds = cfg.reaching_defs(n, v0.id)
                def _normalising(d):
                    if d is cfg.entry or d.kind != "stmt":
                        return False
                    b_ = d.ast
                    if isinstance(b_, ast.AugAssign) and isinstance(b_.op, ast.Div) and src(b_.target) == v0.id:
                        den_ = is_norm2(b_.value) if is_norm2(b_.value) is not None else is_trace(b_.value)
                        return den_ is not None and src(den_) == v0.id
                    if isinstance(b_, ast.Assign) and isinstance(b_.value, ast.BinOp) and isinstance(b_.value.op, ast.Div):
                        den_ = is_norm2(b_.value.right) if is_norm2(b_.value.right) is not None else is_trace(b_.value.right)
                        return den_ is not None and src(den_) == src(b_.value.left)
                    return False
                if ds and all(_normalising(d) for d in ds):
                    normed = True
            for m in cfg.reachable([n]):
                b = m.ast
                if m.kind == "stmt" and isinstance(b, (ast.AugAssign, ast.Assign)) and m is not n:
                    tt = b.target if isinstance(b, ast.AugAssign) else b.targets[0]
                    if src(tt) == "self.state" and any((is_norm2(x) is not None or is_trace(x) is not None) for x in ast.walk(b.value)):
                        normed = True
            (obs.append(ok("COLLAPSE", ps, key, P, a, "remaining product state is sliced by the outcomes and renormalised")) if cond and normed else
             obs.append(bad("COLLAPSE", ps, key, P, a, "remaining product state is " + ("not conditioned on the drawn outcomes" if not cond else "not renormalised after the projection"))))
    if k < 2:
        raise AnalysisError("COLLAPSE: post-measurement writes of ProductState.measure not found")
    # sequential conditioning: the tensor is sliced by the drawn outcome inside the per-subsystem loop
    for loop in [x for x in walk_no_nested(ps.node) if isinstance(x, ast.For) and "states" in src(x.iter)]:
        onames = outcome_names(ps.node)
        idx = [x for x in ast.walk(loop) if isinstance(x, ast.Assign) and isinstance(x.targets[0], ast.Subscript) and isinstance(x.targets[0].value, ast.Name)
               and src(x.targets[0].value) not in ("outcomes", "results")
               and ("outcomes" in src(x.value) or any(isinstance(y, ast.Name) and y.id in onames for y in ast.walk(x.value)))]
        idx_names = {x.targets[0].value.id for x in idx}
        sl = [x for x in ast.walk(loop) if isinstance(x, ast.Assign) and isinstance(x.targets[0], ast.Name) and isinstance(x.value, ast.Subscript)
              and src(x.value.value) == x.targets[0].id and any(isinstance(y, ast.Name) and y.id in idx_names for y in ast.walk(x.value.slice))]
        good = bool(sl) and bool(idx)
        lvl = "Vector" if "measure_vector" in src(loop) else "Matrix"
        # the axis that is sliced is the measured member's *current* position: the member list shrinks inside the loop, so the
        # position has to be looked up in that list in the same iteration (a position computed before the loop goes stale)
        shrinking = {src(method_call(c)[0]) for c in ast.walk(loop) if isinstance(c, ast.Call) and method_call(c) and method_call(c)[1] == "remove" and c.args and src(c.args[0]) == src(loop.target).split(",")[-1].strip(" ()")}
        lvar = src(loop.target).split(",")[-1].strip(" ()")
        if good and shrinking:
            from ..model import single_defs
            inloop = {x.targets[0].id: x.value for x in ast.walk(loop) if isinstance(x, ast.Assign) and len(x.targets) == 1 and isinstance(x.targets[0], ast.Name)}
            stale = None
            for x in idx:
                pos = x.targets[0].slice
                for _ in range(3):
                    if isinstance(pos, ast.Name) and pos.id in inloop:
                        pos = inloop[pos.id]
                live = any(isinstance(c, ast.Call) and method_call(c) and method_call(c)[1] == "index" and src(method_call(c)[0]) in shrinking and c.args and src(c.args[0]) == lvar for c in ast.walk(pos))
                live = live or any(isinstance(y, ast.Name) and y.id in inloop and any(isinstance(c, ast.Call) and method_call(c) and method_call(c)[1] == "index" and src(method_call(c)[0]) in shrinking
                                                                                          for c in ast.walk(inloop[y.id])) for y in ast.walk(pos))
                if not live:
                    stale = x
            if stale is not None:
                obs.append(bad("COLLAPSE", ps, f"sequential-conditioning@{lvl}", ("C04", "C05"), stale,
                               f"`{src(stale)[:60]}`: the sliced axis is not looked up in the shrinking member list `{sorted(shrinking)[0]}` inside the loop – after the first measured member is removed "
                               "the remaining positions shift, so a position computed beforehand addresses another subsystem's axis unless the members are measured in tensor order"))
                continue
        (obs.append(ok("COLLAPSE", ps, f"sequential-conditioning@{lvl}", ("C04", "C05"), loop, "the tensor is sliced by each drawn outcome before the next subsystem's marginal is computed")) if good else
         obs.append(bad("COLLAPSE", ps, f"sequential-conditioning@{lvl}", ("C04", "C05"), loop, "the joint tensor is not sliced by the drawn outcome inside the loop: later subsystems are sampled from the unconditioned state")))
    return obs


# ------------------------------------------------------------------------------------ MEASURE-SET
def _eval_guard(e: ast.AST, env: Dict[str, object]) -> Optional[bool]:
    if isinstance(e, ast.Call) and isinstance(e.func, ast.Name) and e.func.id == "bool" and len(e.args) == 1 and not e.keywords:
        return _eval_guard(e.args[0], env)
    if isinstance(e, ast.BoolOp):
        vals = [_eval_guard(v, env) for v in e.values]
        if any(v is None for v in vals):
            return None
        return all(vals) if isinstance(e.op, ast.And) else any(vals)
    if isinstance(e, ast.UnaryOp) and isinstance(e.op, ast.Not):
        v = _eval_guard(e.operand, env)
        return None if v is None else (not v)
    if isinstance(e, ast.Name):
        return env.get(e.id) if isinstance(env.get(e.id), bool) else None
    if isinstance(e, ast.Compare) and len(e.ops) == 1:
        l, op, r = e.left, e.ops[0], e.comparators[0]
        if isinstance(op, (ast.In, ast.NotIn)) and src(r) == "states":
            m = {"self.fock": "fock", "self.polarization": "polarization"}.get(src(l))
            if m is None:
                return None
            v = m in env["states"]
            return v if isinstance(op, ast.In) else (not v)
        if src(l) == "len(states)" and isinstance(r, ast.Constant):
            n = len(env["states"])
            return {ast.Eq: n == r.value, ast.NotEq: n != r.value, ast.Gt: n > r.value, ast.GtE: n >= r.value, ast.Lt: n < r.value, ast.LtE: n <= r.value}.get(type(op))
    return None


@rule("MEASURE-SET")
def measure_set(repo: Repo) -> List[Ob]:
    obs: List[Ob] = []
    P = ("C05", "C04")
    fi = repo.func("Envelope.measure")
    guards: List[Tuple[str, ast.If]] = []
    import re as _re2
    _drawn = {_re2.sub(r"__h\d+", "", n_) for n_ in outcome_names(fi.node)} | outcome_names(fi.node)      # whatever the local that receives a draw is called
    for n in walk_no_nested(fi.node):
        if isinstance(n, ast.If):
            tgt = None
            for b in n.body:
                for x in [b] + list(walk_no_nested(b)):
                    if isinstance(x, ast.Assign) and isinstance(x.targets[0], ast.Subscript) and isinstance(x.targets[0].value, ast.Name) \
                            and isinstance(x.value, ast.Name) and x.value.id in _drawn and src(x.targets[0].slice).split(".")[-1] in ("fock", "polarization"):
                        tgt = src(x.targets[0].slice).split(".")[-1]
            test = n.test
            if isinstance(test, ast.Name):
                # a predicate hoisted into a local: use its (single) definition
                from ..scope import single_def_value
                v = single_def_value(fi.node, test.id)
                if v is not None:
                    test = v
            if tgt and any(isinstance(y, ast.Name) and y.id in ("states", "separate_measurement") for y in ast.walk(test)):
                guards.append((tgt, n, test))
    if len(guards) < 4:
        raise AnalysisError(f"MEASURE-SET: {len(guards)} sampling guards in Envelope.measure (floor 4)")
    cases = [(sep, st) for sep in (False, True) for st in ((), ("fock",), ("polarization",), ("fock", "polarization"), ("polarization", "fock"))]
    gi: Dict[str, int] = {}
    for who, g, gtest in guards:
        gi[who] = gi.get(who, 0) + 1
        key = f"sampling-guard:{who}#{gi[who]}"
        wrong = []
        unknown = False
        for sep, st in cases:
            v = _eval_guard(gtest, {"separate_measurement": sep, "states": st})
            if v is None:
                unknown = True
                break
            other = "polarization" if who == "fock" else "fock"
            want = not (sep and st == (other,))
            if v != want:
                wrong.append(f"separate_measurement={sep}, states=({', '.join(st)}) -> {'measured' if v else 'not measured'}")
        if unknown:
            obs.append(skip("MEASURE-SET", fi, key, P, g, "guard uses atoms outside the decision table"))
        elif wrong:
            obs.append(bad("MEASURE-SET", fi, key, P, g, f"{who} is sampled for the wrong requests: {'; '.join(wrong[:3])} (contract: both members are measured unless separate_measurement names exactly the other one)"))
        else:
            obs.append(ok("MEASURE-SET", fi, key, P, g, f"{who} sampled exactly when the contract says so (10 abstract cases)"))
    # CompositeEnvelope.measure: an envelope is retired only when both members were measured
    ce = repo.func("CompositeEnvelope.measure")
    cfg = CFG(ce.node)
    from ..cfg import refine

    def atom(e, truth, st):
        if isinstance(e, ast.Name) and e.id == "separate_measurement":
            if st is not None and st != truth:
                return []
            return [truth]
        return [st]

    def transfer(s, lab, d, st):
        if s.kind in ("test", "assert") and lab in ("T", "F"):
            return refine(s.ast, lab == "T", st, atom)
        return [st]

    seen = explore(cfg, None, transfer)
    k = 0
    for n in cfg.nodes:
        for x in walk_node(n):
            mc = method_call(x)
            if mc and mc[1] == "_set_measured" and src(mc[0]).endswith(".envelope"):
                k += 1
                under_sep = any(st is True for st in seen[n])
                (obs.append(bad("MEASURE-SET", ce, f"retire-envelope#{k}", ("C05",), x,
                                "the envelope of every listed member is retired whenever the measurement is destructive, also under separate_measurement=True where its partner was *not* measured: "
                                "the envelope of the surviving partner reports `measured` and refuses further use")) if under_sep else
                 obs.append(ok("MEASURE-SET", ce, f"retire-envelope#{k}", ("C05",), x, "an envelope is retired only when its partner was measured as well")))
    if k < 1:
        raise AnalysisError("MEASURE-SET: envelope retirement in CompositeEnvelope.measure not found")
    # partner completion: without separate_measurement the envelope partner joins the list
    partner = any(isinstance(n, ast.If) and "separate_measurement" in src(n.test) and any(method_call(x) and method_call(x)[1] == "append" for b in n.body for x in ast.walk(b))
                  for n in walk_no_nested(ce.node))
    (obs.append(ok("MEASURE-SET", ce, "partner-joins", ("C05", "C04"), ce.node, "without separate_measurement the envelope partner of every listed member is measured as well")) if partner else
     obs.append(bad("MEASURE-SET", ce, "partner-joins", ("C05", "C04"), ce.node, "the envelope partner is no longer added to the measured set when separate_measurement is False")))
    return obs


# ------------------------------------------------------------------------------------ PAIR
import re as _re
_SPLICE_SFX = _re.compile(r"__h\d+")


def _list_name(fn: ast.AST, e: ast.AST) -> Optional[str]:
    """the local list an expression denotes, through once-bound names and cast(...)/list(...) wrappers"""
    from ..model import single_defs
    defs = single_defs(fn)
    for _ in range(6):
        if isinstance(e, ast.Name) and e.id in defs and not isinstance(defs[e.id], (ast.List, ast.ListComp)):
            e = defs[e.id]
        elif isinstance(e, ast.Call) and isinstance(e.func, ast.Name) and e.func.id in ("cast", "list") and e.args:
            e = e.args[-1]
        else:
            break
    return e.id if isinstance(e, ast.Name) else None


@rule("PAIR")
def pair(repo: Repo) -> List[Ob]:
    """tensor order and bookkeeping order are the same order"""
    obs: List[Ob] = []
    P = ("C02", "C03")
    n_pairs = 0
    # Envelope.combine: kron(fock, polarization) with fock.extract(0), polarization.extract(1)
    fi = repo.func("Envelope.combine")
    for br in [n for n in walk_no_nested(fi.node) if isinstance(n, ast.If)]:
        krons = [x for b in br.body for x in [b] + list(walk_no_nested(b)) if isinstance(x, ast.Call) and call_np(x) == "kron" and len(x.args) == 2]
        if not krons:
            continue
        n_pairs += 1
        k = krons[0]
        order = [src(a).replace(".state", "") for a in k.args]
        ext = {}
        for b in br.body:
            for x in [b] + list(walk_no_nested(b)):
                mc = method_call(x)
                if mc and mc[1] == "extract" and x.args and isinstance(x.args[0], ast.Constant):
                    ext[src(mc[0])] = x.args[0].value
        lvl = "Vector" if "Vector" in src(br.test) else "Matrix"
        good = len(order) == 2 and ext.get(order[0]) == 0 and ext.get(order[1]) == 1
        (obs.append(ok("PAIR", fi, f"kron-order@{lvl}", P, k, "first kron factor gets tensor position 0, second position 1")) if good else
         obs.append(bad("PAIR", fi, f"kron-order@{lvl}", P, k, f"kron({', '.join(order)}) but indices {ext}: the member order recorded in the indices is not the tensor order")))
    # CompositeEnvelope.combine: kron(acc, X) paired with state_order.extend/append of X's members
    ce = repo.func("CompositeEnvelope.combine")
    from ..types import Typer
    _typer = Typer(repo, ce)
    acc_name = None
    for n in walk_no_nested(ce.node):
        if isinstance(n, ast.Assign) and isinstance(n.value, ast.Call) and call_np(n.value) == "kron" and len(n.value.args) == 2 and isinstance(n.targets[0], ast.Name):
            acc_name = n.targets[0].id
    if acc_name is None:
        raise AnalysisError("PAIR: kron accumulation in CompositeEnvelope.combine not found")

    def _family(name: str) -> Set[str]:
        """the locals whose value reaches `name` through plain copies (`b = a`, `b, d = a, c`): pieces of a split method hand the accumulator on"""
        fam = {name}
        for _ in range(6):
            for a_ in walk_no_nested(ce.node):
                if isinstance(a_, ast.Assign) and len(a_.targets) == 1:
                    t_, v_ = a_.targets[0], a_.value
                    if isinstance(t_, ast.Name) and isinstance(v_, ast.Name) and t_.id in fam:
                        fam.add(v_.id)
                    if isinstance(t_, ast.Tuple) and isinstance(v_, ast.Tuple) and len(t_.elts) == len(v_.elts):
                        for e_, w_ in zip(t_.elts, v_.elts):
                            if isinstance(e_, ast.Name) and isinstance(w_, ast.Name) and e_.id in fam:
                                fam.add(w_.id)
        return fam
    order_name = None
    acc_family: Set[str] = {acc_name}
    order_family: Set[str] = set()
    for n in walk_no_nested(ce.node):
        if isinstance(n, ast.Call) and dotted(n.func) == "ProductState":
            kw = {k.arg: k.value for k in n.keywords}
            if "state" in kw and "state_objs" in kw:
                order_name = src(kw["state_objs"])
                order_family = _family(order_name) if isinstance(kw["state_objs"], ast.Name) else {order_name}
                sfam = _family(src(kw["state"])) if isinstance(kw["state"], ast.Name) else {src(kw["state"])}
                if acc_name in sfam:
                    acc_family = sfam
                (obs.append(ok("PAIR", ce, "product-state-built-from", P, n, "ProductState(state=<accumulated kron>, state_objs=<accumulated order>)")) if acc_name in sfam else
                 obs.append(bad("PAIR", ce, "product-state-built-from", P, n, f"the new ProductState stores `{src(kw['state'])}` instead of the accumulated tensor `{acc_name}`")))
    if order_name is None:
        raise AnalysisError("PAIR: ProductState construction in CompositeEnvelope.combine not found")

    def blocks(stmts):
        for s in stmts:
            yield stmts
            for f in ("body", "orelse"):
                sub = getattr(s, f, None)
                if isinstance(sub, list) and sub and isinstance(sub[0], ast.stmt):
                    yield from blocks(sub)
            return
    seen_blocks = set()
    slot_lists: Set[str] = set()
    i = 0
    for n in walk_no_nested(ce.node):
        if isinstance(n, ast.Assign) and isinstance(n.value, ast.Call) and call_np(n.value) == "kron" and len(n.value.args) == 2 and src(n.targets[0]) in acc_family:
            i += 1
            n_pairs += 1
            a0, a1 = n.value.args
            key = f"kron-extend#{i}"
            if src(a0) != src(n.targets[0]):
                obs.append(bad("PAIR", ce, key, P, n, f"the new factor is multiplied on the *left* (kron({src(a0)[:30]}, {src(a1)[:30]})) while its members are appended at the *end* of the order list"))
                continue
            a1x = expand_ast(ce.node, a1)          # `own_state = so.state` … kron(acc, own_state): the snapshot is read through
            owner = (src(a1x) if src(a1x).endswith(".state") else src(a1)).rsplit(".state", 1)[0]
            # find the enclosing statement list and look for the order update after this statement
            blk = _enclosing_block(ce.node, n)
            upd = None
            for s in blk:
                for x in [s] + list(walk_no_nested(s)):
                    mc = method_call(x)
                    if mc and src(mc[0]) in order_family and mc[1] in ("extend", "append") and x.args:
                        upd = (mc[1], x.args[0])
            if upd is None:
                # an if/else over the level may hold the kron; the update follows the if in the parent block
                parent = _enclosing_block(ce.node, _enclosing_stmt(ce.node, blk))
                for s in parent or []:
                    for x in [s] + list(walk_no_nested(s)):
                        mc = method_call(x)
                        if mc and src(mc[0]) in order_family and mc[1] in ("extend", "append") and x.args:
                            upd = (mc[1], x.args[0])
            if upd is None:
                obs.append(bad("PAIR", ce, key, P, n, f"`{acc_name}` absorbs `{src(a1)[:40]}` but `{order_name}` is not extended in the same block"))
                continue
            how, arg = upd
            t = src(arg)
            good = False
            owner_x = expand_src(ce.node, ast.parse(owner, mode="eval").body)       # `envelope = so.envelope` read through
            if _typer.classes(ast.parse(owner, mode="eval").body) == {"ProductState"} or (how == "extend" and t == f"{owner}.state_objs"):
                good = how == "extend" and t == f"{owner}.state_objs"
            elif owner_x.endswith(".envelope"):
                ln = _list_name(ce.node, arg)
                good = how == "extend" and ln is not None
                if ln is not None:
                    slot_lists.add(ln)
            else:
                good = how == "append" and t == owner
            (obs.append(ok("PAIR", ce, key, P, n, f"kron with `{src(a1)[:30]}` is paired with {order_name}.{how}({t[:30]})")) if good else
             obs.append(bad("PAIR", ce, key, P, n, f"kron with `{src(a1)[:30]}` is paired with {order_name}.{how}({t[:40]}): the recorded members are not those of the absorbed block")))
    # envelope block: indices list is filled by fock.index / polarization.index
    idx_ok = 0
    slot_lists.add("indices")
    for n in walk_no_nested(ce.node):
        if isinstance(n, ast.Assign) and isinstance(n.targets[0], ast.Subscript) and _SPLICE_SFX.sub("", src(n.targets[0].value)) in {_SPLICE_SFX.sub("", x) for x in slot_lists}:
            sl, val = src(n.targets[0].slice), src(n.value)
            if sl.endswith(".fock.index") and val.endswith(".fock") or sl.endswith(".polarization.index") and val.endswith(".polarization"):
                idx_ok += 1
            else:
                obs.append(bad("PAIR", ce, "envelope-member-order", P, n, f"indices[{sl}] = {val}: the member stored at that tensor position is another one"))
    if idx_ok >= 2:
        obs.append(ok("PAIR", ce, "envelope-member-order", P, ce.node, "members of an absorbed envelope are listed at their tensor positions"))
    elif not any(o.rule == "PAIR" and o.key == "envelope-member-order" and o.status == "violation" for o in obs):
        obs.append(bad("PAIR", ce, "envelope-member-order", P, ce.node,
                       "the members of an absorbed envelope are no longer recorded at their tensor positions (`indices[<member>.index] = <member>`): "
                       "an envelope stored as (polarization, fock) is listed as (fock, polarization)"))
    # Envelope.reorder: transposition and index swap in the same branch
    ro = repo.func("Envelope.reorder")
    rcfg, rlv = self_levels(ro)
    swaps = {nd for nd in rcfg.nodes if nd.kind == "stmt" and isinstance(nd.ast, ast.Assign) and isinstance(nd.ast.targets[0], ast.Tuple)
             and {src(e) for e in nd.ast.targets[0].elts} == {"self.fock.index", "self.polarization.index"}
             and isinstance(nd.ast.value, ast.Tuple) and [src(e) for e in nd.ast.value.elts] == [src(e) for e in reversed(nd.ast.targets[0].elts)]}
    for tn in sorted([nd for nd in rcfg.nodes for x in walk_node(nd) if isinstance(x, ast.Call) and (call_np(x) == "transpose" or (method_call(x) and method_call(x)[1] == "transpose"))], key=lambda nd: nd.lineno):
        tr = next(x for x in walk_node(tn) if isinstance(x, ast.Call) and (call_np(x) == "transpose" or (method_call(x) and method_call(x)[1] == "transpose")))
        levels = set(rlv.get(tn, frozenset())) - {0}
        if levels not in ({1}, {2}):
            continue
        n_pairs += 1
        lvl = "Vector" if levels == {1} else "Matrix"
        perm = src(tr.args[-1]) if tr.args else ""
        want = "(1, 0)" if lvl == "Vector" else "(1, 0, 3, 2)"
        # the two member indices are exchanged on every path that leaves the transposition
        swap = bool(swaps) and rcfg.always_followed_by(tn, swaps)
        good = perm.replace("[", "(").replace("]", ")") == want and swap
        (obs.append(ok("PAIR", ro, f"transpose-swap@{lvl}", P, tr, "axes are exchanged and the two indices swapped on every path")) if good else
         obs.append(bad("PAIR", ro, f"transpose-swap@{lvl}", P, tr, f"permutation {perm} / index swap present={swap}: tensor axes and member indices are not exchanged together (expected {want} with a swap)")))
    # ProductState.reorder: state_objs replaced by the list the string was generated for
    pr = repo.func("ProductState.reorder")
    pcfg = CFG(pr.node)
    cnt: Dict[str, int] = {}
    for gn in sorted([nd for nd in pcfg.nodes for x in walk_node(nd) if isinstance(x, ast.Call) and (dotted(x.func) or "").split(".")[-1].startswith("reorder_")], key=lambda nd: nd.lineno):
        g = next(x for x in walk_node(gn) if isinstance(x, ast.Call) and (dotted(x.func) or "").split(".")[-1].startswith("reorder_"))
        n_pairs += 1
        lvl = "Vector" if (dotted(g.func) or "").endswith("vector") else "Matrix"
        cnt[lvl] = cnt.get(lvl, 0) + 1
        key = f"order-update@{lvl}" + (f"#{cnt[lvl]}" if cnt[lvl] > 1 else "")
        # every path from the generator call to the end of the function replaces the member list by the order the string was built for
        upd = {nd for nd in pcfg.nodes if nd.kind == "stmt" and isinstance(nd.ast, ast.Assign) and any(src(t) == "self.state_objs" for t in nd.ast.targets)
               and len(g.args) == 2 and src(nd.ast.value) == src(g.args[1])}
        other = {nd for nd in pcfg.nodes if nd.kind == "stmt" and isinstance(nd.ast, ast.Assign) and any(src(t) == "self.state_objs" for t in nd.ast.targets)} - upd
        good = bool(upd) and pcfg.always_followed_by(gn, upd) and not (pcfg.reachable([m for m, _ in pcfg.succ[gn]]) & other)
        (obs.append(ok("PAIR", pr, key, P, g, "member list is replaced by the order the tensor was permuted to")) if good else
         obs.append(bad("PAIR", pr, key, P, g, "the tensor is permuted to one order while self.state_objs is set to another (or not updated)")))
    refresh = any(method_call(x) and method_call(x)[1] == "update_all_indices" for x in walk_no_nested(pr.node))
    (obs.append(ok("PAIR", pr, "indices-refreshed", ("C02", "C13"), pr.node, "indices are refreshed after reordering")) if refresh else
     obs.append(bad("PAIR", pr, "indices-refreshed", ("C02", "C13"), pr.node, "ProductState.reorder no longer refreshes the member indices")))
    if n_pairs < 7:
        raise AnalysisError(f"PAIR: {n_pairs} pairings (floor 7)")
    return obs


def _enclosing_block(fn: ast.AST, stmt: Optional[ast.AST]) -> Optional[List[ast.stmt]]:
    if stmt is None:
        return None
    for n in ast.walk(fn):
        for f in ("body", "orelse", "finalbody"):
            sub = getattr(n, f, None)
            if isinstance(sub, list) and any(s is stmt for s in sub):
                return sub
    return None


def _enclosing_stmt(fn: ast.AST, block: Optional[List[ast.stmt]]) -> Optional[ast.AST]:
    if block is None:
        return None
    for n in ast.walk(fn):
        for f in ("body", "orelse", "finalbody"):
            if getattr(n, f, None) is block:
                return n
    return None
