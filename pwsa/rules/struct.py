"""NORM, ZERO, OUTER, TAG (+PURITY), CONTRACT-ONLY, SANDWICH (+LIT), DISCARD (DESIGN §3)."""
from __future__ import annotations

import ast
from typing import Dict, FrozenSet, List, Optional, Set, Tuple

from ..cfg import CFG, Node, explore, walk_node
from ..domains import (ALL_LEVELS, LevelTracker, is_abs, is_conj, is_dagger, is_norm2, is_trace, level_atom,
                       level_const, level_receiver, strip_shape, strip_T)
from ..model import AnalysisError, FuncInfo, Repo, call_np, dotted, method_call, np_name, src, walk_no_nested
from ..report import Ob, bad, note, ok, skip
from ..scope import single_def_value
from . import ACTION_PROPS, props_of, rule

class _StateModules:
    """the modules that hold the state classes: everything under photon_weave.state except the two leaf modules without state code –
    a class moved into a new file of that package (product_state.py, …) is still scanned"""
    NOT = {"expansion_levels", "exceptions", "__init__", "temporal_profile"}

    def __contains__(self, name) -> bool:
        return isinstance(name, str) and name.startswith("photon_weave.state.") and name.split(".")[-1] not in self.NOT

    def __iter__(self):
        return iter(("photon_weave.state.fock", "photon_weave.state.polarization", "photon_weave.state.custom_state",
                     "photon_weave.state.base_state", "photon_weave.state.envelope", "photon_weave.state.composite_envelope"))


STATE_MODULES = _StateModules()
APPLY_BODIES = ["Fock.apply_operation", "Polarization.apply_operation", "CustomState.apply_operation",
                "Envelope.apply_operation", "ProductState.apply_operation"]
MATRIX_ONLY_FUNCS = {"measure_POVM", "apply_kraus"}   # promotion itself is checked by KRAUS-LEVEL / POVM-LEVEL


def is_math_module(name: str) -> bool:
    """the constructors' modules: photon_weave._math.ops and whatever it is split into"""
    return name.startswith("photon_weave._math.") or name == "photon_weave._math"


def is_generator_module(name: str) -> bool:
    """the einsum-string generators: photon_weave.extra.einsum_constructor and whatever it is split into (not the interpreter)"""
    return name.startswith("photon_weave.extra.") and "interpreter" not in name


def state_functions(repo: Repo) -> List[FuncInfo]:
    return [f for f in repo.scan_functions() if f.module.name in STATE_MODULES]


def self_levels(fi: FuncInfo, cfg: Optional[CFG] = None) -> Tuple[CFG, Dict[Node, FrozenSet[int]]]:
    """possible levels of `self` at every CFG node (union over paths); {} for unreachable nodes"""
    cfg = cfg or CFG(fi.node)
    init = {}
    if fi.cls is not None and fi.cls.name in ("ProductState", "Envelope"):
        init["self"] = frozenset({1, 2})          # a product space is a ket or a density matrix
    lt = LevelTracker(["self"], init)
    seen = explore(cfg, lt.init, lt.transfer)
    out: Dict[Node, FrozenSet[int]] = {}
    for n, sts in seen.items():
        u: Set[int] = set()
        for st in sts:
            u |= LevelTracker.get(st, "self")
        out[n] = frozenset(u)
    return cfg, out


def _denominator_kind(e: ast.AST, fn: ast.FunctionDef) -> Optional[Tuple[str, ast.AST]]:
    """('NORM2'|'TRACE', operand) for a normaliser expression, following one local alias"""
    e2 = e
    if isinstance(e, ast.Name):
        v = single_def_value(fn, e.id)
        if v is not None:
            e2 = v
    x = is_norm2(e2)
    if x is not None:
        return "NORM2", x
    x = is_trace(e2)
    if x is not None:
        return "TRACE", x
    return None


def _value_root(e: ast.AST) -> str:
    """the value an expression is a re-shaped view of: strips reshape/flatten/ravel/transpose/.T/astype/squeeze wrappers"""
    while True:
        mc = method_call(e)
        if mc and mc[1] in ("reshape", "flatten", "ravel", "transpose", "astype", "squeeze", "copy", "conj"):
            e = mc[0]
        elif isinstance(e, ast.Attribute) and e.attr in ("T", "real"):
            e = e.value
        elif isinstance(e, ast.Call) and call_np(e) in ("reshape", "ravel", "transpose", "squeeze", "asarray", "array") and e.args:
            e = e.args[0]
        else:
            return src(e)


def _divisions(fn: ast.FunctionDef):
    """(node, denominator) for every `a / d` and `a /= d`"""
    for n in walk_no_nested(fn):
        if isinstance(n, ast.BinOp) and isinstance(n.op, ast.Div):
            yield n, n.right
        elif isinstance(n, ast.AugAssign) and isinstance(n.op, ast.Div):
            yield n, n.value
        elif isinstance(n, ast.Call) and call_np(n) in ("divide", "true_divide") and len(n.args) == 2:
            yield n, n.args[1]


@rule("NORM")
def norm(repo: Repo) -> List[Ob]:
    obs: List[Ob] = []
    n_sites = 0
    for fi in state_functions(repo):
        divs = [(n, d, _denominator_kind(d, fi.node)) for n, d in _divisions(fi.node)]
        divs = [(n, d, k) for n, d, k in divs if k is not None]
        if not divs:
            continue
        name = fi.node.name
        base_props = ACTION_PROPS.get(name, ("C07",))
        props = tuple(dict.fromkeys({"apply_operation": ("C01", "C07"), "measure": ("C05", "C07"),
                                     "measure_POVM": ("C09", "C07"), "apply_kraus": ("C06", "C07")}.get(name, base_props + ("C07",))))
        cfg, lv = self_levels(fi)
        ord_: Dict[str, int] = {}
        for n, d, (kind, operand) in sorted(divs, key=lambda t: (t[0].lineno, t[0].col_offset)):
            n_sites += 1
            node = cfg.node_containing(n)
            levels = set(lv.get(node, frozenset())) - {0} if node is not None else set()
            if name in MATRIX_ONLY_FUNCS:
                levels = {2}
            lvl = "Vector" if levels == {1} else "Matrix" if levels == {2} else None
            tag = f"{lvl or 'level?'}"
            ord_[tag] = ord_.get(tag, 0) + 1
            key = f"normaliser@{tag}#{ord_[tag]}"
            # the normaliser is computed from the value it divides (not from the state before the operation, which has norm/trace 1)
            numer = n.left if isinstance(n, ast.BinOp) else (n.target if isinstance(n, ast.AugAssign) else (n.args[0] if isinstance(n, ast.Call) else None))
            if numer is not None and _value_root(numer) != _value_root(operand):
                obs.append(bad("NORM", fi, key, props, n,
                               f"`{src(n)[:70]}` divides `{src(numer)[:30]}` by the {'trace' if kind == 'TRACE' else 'norm'} of another value (`{src(operand)[:30]}`): "
                               "the result is not renormalised (the other value already has unit norm/trace)"))
                continue
            if lvl is None:
                obs.append(skip("NORM", fi, key, props, n, f"{kind} normaliser at undetermined level {sorted(levels)}"))
            elif lvl == "Vector" and kind == "NORM2":
                obs.append(ok("NORM", fi, key, props, n, "ket normalised by its 2-norm"))
            elif lvl == "Matrix" and kind == "TRACE":
                obs.append(ok("NORM", fi, key, props, n, "density matrix normalised by its trace"))
            elif lvl == "Matrix":
                obs.append(bad("NORM", fi, key, props, n, "a density matrix is renormalised by its Frobenius norm instead of its trace (unit trace only for pure states)"))
            else:
                obs.append(bad("NORM", fi, key, props, n, "a ket is renormalised by a trace instead of its 2-norm"))
    if n_sites < 12:
        raise AnalysisError(f"NORM: only {n_sites} normalisation sites found (floor 12)")
    return obs


# ----------------------------------------------------------------------------- apply bodies: RENORM + ZERO
def _level_branches(fi: FuncInfo) -> List[Tuple[str, ast.If]]:
    """the `if self.expansion_level == L:` statements of an apply body -> [(level name, If)]"""
    out = []
    for n in walk_no_nested(fi.node):
        if isinstance(n, ast.If):
            a = level_atom(n.test)
            if a and a[0] == "self" and a[1] in (frozenset({1}), frozenset({2})):
                out.append(("Vector" if a[1] == frozenset({1}) else "Matrix", n))
    return out


def _branch_stmts(i: ast.If) -> List[ast.stmt]:
    return i.body


def _applied_names(body: List[ast.stmt]) -> Set[str]:
    """targets assigned from an einsum/matmul application inside the branch"""
    out: Set[str] = set()
    for s in body:
        for n in [s] + list(walk_no_nested(s)):
            if isinstance(n, ast.Assign) and any(call_np(c) in ("einsum", "matmul", "dot", "tensordot") or (isinstance(c, ast.BinOp) and isinstance(c.op, ast.MatMult))
                                                  for c in [n.value] + list(walk_no_nested(n.value))):
                for t in n.targets:
                    out.add(src(t))
    return out


@rule("RENORM")
def renorm(repo: Repo) -> List[Ob]:
    """sibling clause of NORM: every committing level branch of the five apply bodies renormalises
    under `if operation.renormalize:`; ZERO: and rejects an all-zero result of the *applied* value"""
    obs: List[Ob] = []
    total = 0
    cfgs: Dict[str, CFG] = {}
    for q in APPLY_BODIES:
        fi = repo.func(q)
        branches = _level_branches(fi)
        if len(branches) < 2:
            raise AnalysisError(f"RENORM: {q} has {len(branches)} level branches (expected Vector and Matrix)")
        for lvl, br in branches:
            total += 1
            body = _branch_stmts(br)
            has_renorm = False
            for n in [x for s in body for x in [s] + list(walk_no_nested(s))]:
                if isinstance(n, ast.If) and any(isinstance(t, ast.Attribute) and t.attr in ("renormalize", "_renormalize") for t in ast.walk(n.test)):
                    for m in [x for s in n.body for x in [s] + list(walk_no_nested(s))]:
                        if (isinstance(m, ast.BinOp) and isinstance(m.op, ast.Div)) or (isinstance(m, ast.AugAssign) and isinstance(m.op, ast.Div)):
                            dk = _denominator_kind(m.right if isinstance(m, ast.BinOp) else m.value, fi.node)
                            if dk:
                                has_renorm = True
            (obs.append(ok("RENORM", fi, f"renormalise@{lvl}", ("C01", "C07"), br, "branch renormalises when operation.renormalize")) if has_renorm else
             obs.append(bad("RENORM", fi, f"renormalise@{lvl}", ("C01", "C07"), br,
                            f"the {lvl} branch commits the applied state without `if operation.renormalize: <normalise>` (its sibling branches have it)")))
            # ZERO
            applied = _applied_names(body)
            has_zero = False
            ztests = []
            for n in [x for s in body for x in [s] + list(walk_no_nested(s))]:
                if isinstance(n, ast.If) and (any(isinstance(b, ast.Raise) for b in n.body) or any(isinstance(b, ast.Raise) for b in n.orelse)):
                    names = {src(t) for t in ast.walk(n.test) if isinstance(t, (ast.Name, ast.Attribute))}
                    if names & applied:
                        has_zero = True
                        ztests.append(n)
            if not has_zero:
                obs.append(bad("ZERO", fi, f"zero-test@{lvl}", ("C07", "C17"), br,
                               f"the {lvl} branch has no `if <applied value is all zero>: raise` (annihilating the vacuum would store a null state)"))
                continue
            # path form: no route from the application to a write of the stored state goes round the test
            cfg = cfgs.setdefault(q, CFG(fi.node))
            inside = {id(x) for s in body for x in [s] + list(ast.walk(s))}
            a_nodes = [nd for nd in cfg.nodes if nd.kind == "stmt" and isinstance(nd.ast, ast.Assign) and id(nd.ast) in inside
                       and any(src(t) in applied for t in nd.ast.targets)
                       and any(call_np(c) in ("einsum", "matmul", "dot", "tensordot") or (isinstance(c, ast.BinOp) and isinstance(c.op, ast.MatMult))
                               for c in [nd.ast.value] + list(walk_no_nested(nd.ast.value)))]
            z_nodes = {nd for nd in cfg.nodes if nd.kind == "test" and any(nd.stmt is z for z in ztests)}
            commits = [nd for nd in cfg.nodes if nd.kind == "stmt" and isinstance(nd.ast, (ast.Assign, ast.AugAssign)) and id(nd.ast) in inside
                       and any(isinstance(t, ast.Attribute) and t.attr == "state" for t in (nd.ast.targets if isinstance(nd.ast, ast.Assign) else [nd.ast.target]))
                       and nd not in a_nodes]
            if not a_nodes or not z_nodes:
                obs.append(ok("ZERO", fi, f"zero-test@{lvl}", ("C07", "C17"), br, "all-zero result of the applied value is rejected"))
                continue
            last = a_nodes[-1]
            reach = cfg.reachable([m for m, _ in cfg.succ[last]], blocked=z_nodes)
            around = [c for c in commits if c in reach]
            (obs.append(bad("ZERO", fi, f"zero-test@{lvl}", ("C07", "C17"), around[0].ast,
                            f"the {lvl} branch can store the applied value (`{src(around[0].ast)[:60]}`) on a path that does not evaluate the all-zero test: "
                            "annihilating the vacuum is not rejected there and a null state is stored")) if around else
             obs.append(ok("ZERO", fi, f"zero-test@{lvl}", ("C07", "C17"), br, "every path from the application to the store evaluates the all-zero test")))
    if total < 10:
        raise AnalysisError(f"RENORM/ZERO: {total} level branches (floor 10)")
    return obs


# ----------------------------------------------------------------------------- OUTER
EXPANDERS = ["Fock.expand", "Polarization.expand", "CustomState.expand", "Envelope.expand", "ProductState.expand"]
PRODUCT_FUNCS = {"outer", "dot", "matmul", "kron"}


def _mentions_self_state(e: ast.AST, fn: ast.FunctionDef, depth: int = 0, cfg: Optional[CFG] = None, at: Optional[ast.AST] = None) -> bool:
    for n in [e] + list(ast.walk(e)):
        if isinstance(n, ast.Attribute) and n.attr == "state" and src(n.value) == "self":
            return True
        if isinstance(n, ast.Name) and depth < 2:
            if cfg is not None and at is not None:
                node = cfg.node_containing(at)
                if node is not None:
                    for d in cfg.reaching_defs(node, n.id):
                        v = getattr(d.ast, "value", None) if d is not cfg.entry else None
                        if v is not None and _mentions_self_state(v, fn, depth + 1, cfg, d.ast):
                            return True
                continue
            v = single_def_value(fn, n.id)
            if v is not None and _mentions_self_state(v, fn, depth + 1):
                return True
    return False


def _has_conj(e: ast.AST) -> bool:
    return any(is_conj(n) is not None for n in [e] + list(ast.walk(e)))


@rule("OUTER")
def outer(repo: Repo) -> List[Ob]:
    obs: List[Ob] = []
    P = ("C08",)
    for q in EXPANDERS:
        fi = repo.func(q)
        prods = []
        cfg = CFG(fi.node)
        for n in walk_no_nested(fi.node):
            fa = None
            if isinstance(n, ast.Call) and call_np(n) in PRODUCT_FUNCS and len(n.args) == 2:
                fa = (n.args[0], n.args[1], call_np(n))
            elif isinstance(n, ast.BinOp) and isinstance(n.op, ast.MatMult):
                fa = (n.left, n.right, "@")
            elif isinstance(n, ast.Call) and call_np(n) == "einsum" and len(n.args) == 3:
                fa = (n.args[1], n.args[2], "einsum")
            if fa and _mentions_self_state(fa[0], fi.node, 0, cfg, n) and _mentions_self_state(fa[1], fi.node, 0, cfg, n):
                prods.append((n, fa))
        if not prods:
            raise AnalysisError(f"OUTER: no ket x bra product found in {q}")
        from ..cfg import resolve_at as _resolve_at
        for i, (n, (a, b, how)) in enumerate(prods, 1):
            # a factor named first (`bra = jnp.conj(psi.T)` … dot(psi, bra)) is read through its reaching definition
            at = cfg.node_containing(n)
            if at is not None:
                a, b = _resolve_at(cfg, at, a, depth=3), _resolve_at(cfg, at, b, depth=3)
            ca, cb = _has_conj(a), _has_conj(b)
            key = f"outer#{i}"
            if cb and not ca:
                obs.append(ok("OUTER", fi, key, P, n, f"|psi><psi| built with {how}(psi, conj(psi))"))
            elif not ca and not cb:
                obs.append(bad("OUTER", fi, key, P, n, f"vector->matrix expansion multiplies the ket with itself without conjugating the bra ({how}(psi, psi)): wrong for complex amplitudes"))
            elif ca and cb:
                obs.append(bad("OUTER", fi, key, P, n, "both factors of the outer product are conjugated"))
            else:
                obs.append(bad("OUTER", fi, key, P, n, "the ket factor is conjugated instead of the bra: yields the transpose of |psi><psi|"))
    return obs


# ----------------------------------------------------------------------------- TAG + PURITY
TAG_FUNCS = ["Fock.expand", "Polarization.expand", "CustomState.expand", "Envelope.expand", "ProductState.expand",
             "BaseState.contract", "Fock.contract", "Polarization.contract", "CustomState.contract", "Envelope.contract",
             "ProductState.contract", "CompositeEnvelope.contract"]


def _is_self_tag_write(node: Node) -> Optional[int]:
    a = node.ast
    if node.kind == "stmt" and isinstance(a, ast.Assign):
        for t in a.targets:
            if level_receiver(t) == "self":
                c = level_const(a.value)
                return c if c is not None else -1
    return None


def _is_self_state_write(node: Node) -> bool:
    a = node.ast
    if node.kind == "stmt" and isinstance(a, (ast.Assign, ast.AugAssign, ast.AnnAssign)):
        targets = a.targets if isinstance(a, ast.Assign) else [a.target]
        return any(isinstance(t, ast.Attribute) and t.attr == "state" and src(t.value) == "self" for t in targets)
    return False


def _purity_test(e: ast.AST, fn: ast.FunctionDef) -> Optional[bool]:
    """is `e` the test |Tr(rho^2) - 1| < tol ?  returns True if the *true* outcome means pure,
    False if the *false* outcome means pure, None if it is not a purity test"""
    if not (isinstance(e, ast.Compare) and len(e.ops) == 1):
        return None

    def inline(x, depth=0):
        if isinstance(x, ast.Name) and depth < 3:
            v = single_def_value(fn, x.id)
            if v is not None:
                return inline(v, depth + 1)
        return x

    def has_tr_rho2(x) -> bool:
        x = inline(x)
        for n in [x] + list(ast.walk(x)):
            n = inline(n)
            t = is_trace(n)
            if t is not None:
                t = inline(t)
                if isinstance(t, ast.BinOp) and isinstance(t.op, ast.MatMult) and src(t.left) == src(t.right):
                    return True
                if call_np(t) in ("matmul", "dot") and len(t.args) == 2 and src(t.args[0]) == src(t.args[1]):
                    return True
                if call_np(t) == "linalg.matrix_power":
                    return True
            if call_np(n) == "einsum" and len(n.args) == 3 and src(n.args[1]) == src(n.args[2]) and isinstance(n.args[0], ast.Constant) \
                    and str(n.args[0].value).replace(" ", "") in ("ij,ji->", "ij,ji", "ab,ba->", "ab,ba"):
                return True
            if isinstance(n, ast.Name):
                v = single_def_value(fn, n.id)
                if v is not None and v is not n and has_tr_rho2(v):
                    return True
        return False

    l, op, r = e.left, e.ops[0], e.comparators[0]
    # the bound must be the tolerance (a parameter named tol*) or a small literal: a wide bound lets
    # visibly mixed states pass as pure
    def small(x) -> bool:
        if isinstance(x, ast.Name):
            return x.id.startswith("tol") or x.id in ("eps", "epsilon", "atol")
        if isinstance(x, ast.Constant) and isinstance(x.value, (int, float)):
            return abs(x.value) <= 1e-3
        return False
    if has_tr_rho2(l) and not small(r):
        return None
    if has_tr_rho2(r) and not small(l):
        return None
    if has_tr_rho2(l) and is_abs(inline(l)) is not None:
        if isinstance(op, (ast.Lt, ast.LtE)):
            return True
        if isinstance(op, (ast.Gt, ast.GtE)):
            return False
    if has_tr_rho2(r) and is_abs(inline(r)) is not None:
        if isinstance(op, (ast.Gt, ast.GtE)):
            return True
        if isinstance(op, (ast.Lt, ast.LtE)):
            return False
    return None


@rule("TAG")
def tag(repo: Repo) -> List[Ob]:
    obs: List[Ob] = []
    P = ("C07", "C08")
    n_tags = 0
    for q in TAG_FUNCS:
        fi = repo.func(q)
        cfg = CFG(fi.node)
        is_contract = fi.node.name == "contract"

        # state = (written_since_tag, pure_established)
        def transfer(s, lab, d, st):
            w, p = st
            if _is_self_state_write(s):
                w = True
            if _is_self_tag_write(s) is not None:
                w = False
            if s.kind == "test" and lab in ("T", "F"):
                pt = _purity_test_any(s.ast, fi.node)
                if pt is not None:
                    p = (lab == "T") == pt
            return [(w, p)]

        seen = explore(cfg, (False, False), transfer)
        tags = [(n, _is_self_tag_write(n)) for n in cfg.nodes if _is_self_tag_write(n) is not None]
        if not tags and q != "CompositeEnvelope.contract":
            raise AnalysisError(f"TAG: no representation-tag write found in {q}")
        cnt: Dict[str, int] = {}
        for node, lvl in tags:
            n_tags += 1
            lname = {0: "Label", 1: "Vector", 2: "Matrix"}.get(lvl, "?")
            cnt[lname] = cnt.get(lname, 0) + 1
            key = f"tag={lname}#{cnt[lname]}"
            sts = seen[node]
            if not sts:
                continue
            if any(not w for w, _ in sts):
                obs.append(bad("TAG", fi, key, P, node.ast,
                               f"`self.expansion_level = {lname}` is reachable on a path that did not write self.state since the previous tag: the tag can claim {lname} while the data is of another form"))
            else:
                obs.append(ok("TAG", fi, key, P, node.ast, "every path to this tag write passes a write of self.state"))
            if is_contract and lvl == 1:
                if any(not p for _, p in sts):
                    obs.append(bad("PURITY", fi, f"purity-guard#{cnt[lname]}", ("C08", "C06", "C07"), node.ast,
                                   "the Matrix->Vector contraction is reachable without passing the purity test |Tr(rho^2)-1| < tol on its 'pure' outcome: a mixed state would be replaced by one eigenvector"))
                else:
                    obs.append(ok("PURITY", fi, f"purity-guard#{cnt[lname]}", ("C08", "C06", "C07"), node.ast, "contraction to a ket only under the purity test"))
            # member propagation
            if fi.cls is not None and fi.cls.name == "ProductState" and lvl in (1, 2):
                blk_ok = False
                for m in walk_no_nested(fi.node):
                    if isinstance(m, ast.For) and src(m.iter) in ("self.state_objs",):
                        for a in m.body:
                            if isinstance(a, ast.Assign) and any(level_receiver(t) == src(m.target) for t in a.targets) and level_const(a.value) == lvl:
                                blk_ok = True
                (obs.append(ok("TAG", fi, f"members={lname}", ("C07",), node.ast, "members receive the same tag")) if blk_ok else
                 obs.append(bad("TAG", fi, f"members={lname}", ("C07",), node.ast,
                                f"the product space is tagged {lname} but no `for s in self.state_objs: s.expansion_level = {lname}` accompanies it: members report a stale level")))
    # CompositeEnvelope.combine brings its sources to the common level through their own expand() (which re-tags the members) – it never
    # changes the representation of a block by hand while the block's members keep their old tag
    cmb = repo.func("CompositeEnvelope.combine")
    exp_loops = [l for l in walk_no_nested(cmb.node) if isinstance(l, ast.For)
                 and any(isinstance(w, ast.While) and "expansion_level" in src(w.test) and any(method_call(c) and method_call(c)[1] == "expand" and src(method_call(c)[0]) == src(l.target) for c in ast.walk(w))
                         for w in ast.walk(l))]
    kron_loops = [l for l in walk_no_nested(cmb.node) if isinstance(l, ast.For) and any(isinstance(c, ast.Call) and call_np(c) == "kron" for c in ast.walk(l))
                  and any(isinstance(t, ast.Attribute) and t.attr == "state_objs" and isinstance(t.ctx, ast.Store) for t in ast.walk(l))]
    ccfg = CFG(cmb.node)

    def _hdr(l):
        return next((nd for nd in ccfg.nodes if nd.kind == "iter" and nd.stmt is l), None)

    def _before(e, k):          # the expansion loop is executed on the way to the absorbing loop (spliced helpers keep foreign line numbers)
        he, hk = _hdr(e), _hdr(k)
        return he is not None and hk is not None and ccfg.must_pass_through(hk, {he})
    covered = bool(kron_loops) and all(any(src(e.iter) == src(k.iter) and _before(e, k) for e in exp_loops) for k in kron_loops)
    if not kron_loops:
        # functional form: reduce(jnp.kron, (p.state for p in SELECTED), init) – the expansion loop over SELECTED has to lie on every path to it
        for nd in ccfg.nodes:
            for x in walk_node(nd):
                if isinstance(x, ast.Call) and (dotted(x.func) or "").split(".")[-1] == "reduce" and len(x.args) >= 2 and call_np(ast.Call(func=x.args[0], args=[], keywords=[])) == "kron" \
                        and isinstance(x.args[1], (ast.GeneratorExp, ast.ListComp)) and len(x.args[1].generators) == 1 and src(x.args[1].elt).endswith(".state"):
                    it = src(x.args[1].generators[0].iter)
                    hdrs = {h for e in exp_loops if src(e.iter) == it for h in [_hdr(e)] if h is not None}
                    covered = bool(hdrs) and ccfg.must_pass_through(nd, hdrs)
                    kron_loops = [x]
    (obs.append(ok("TAG", cmb, "sources-promoted-by-expand", ("C07", "C08"), cmb.node, "absorbed product spaces are expanded (and re-tagged) by their own expand() before their blocks are read")) if covered else
     obs.append(bad("TAG", cmb, "sources-promoted-by-expand", ("C07", "C08"), kron_loops[0] if kron_loops else cmb.node,
                    "the product spaces that are absorbed are no longer brought to the common level with their own expand(): their members keep reporting the old level inside the new product space")))
    by_hand = [x for x in walk_no_nested(cmb.node) if isinstance(x, ast.Call) and (call_np(x) == "outer" or (call_np(x) in ("dot", "matmul") and any(is_conj(a) is not None or is_dagger(a) is not None for a in x.args)))]
    (obs.append(bad("TAG", cmb, "no-representation-change-by-hand", ("C07", "C08"), by_hand[0],
                    f"`{src(by_hand[0])[:50]}` turns a ket into a density matrix inside combine(): the block changes representation while the subsystems it belongs to keep their level tag")) if by_hand else
     obs.append(ok("TAG", cmb, "no-representation-change-by-hand", ("C07", "C08"), cmb.node, "combine() never builds |psi><psi| itself")))
    # nothing but the setter (and __init__) writes Envelope._expansion_level directly: that would skip the member propagation
    env = repo.cls("Envelope")
    for mname, m in env.methods.items():
        if mname == "__init__":
            continue
        for x in walk_no_nested(m.node):
            if isinstance(x, ast.Attribute) and x.attr == "_expansion_level" and isinstance(x.ctx, ast.Store) and src(x.value) == "self":
                obs.append(bad("TAG", m, "setter-bypassed", ("C07", "C08") if mname in ("contract", "expand") else ("C07",), x,
                               "Envelope._expansion_level is written directly instead of through the expansion_level setter: fock and polarization keep reporting the old level while the envelope holds data of the new one"))
    obs.append(ok("TAG", "Envelope", "setter-not-bypassed-scan", ("C07", "C08"), None, f"{len(env.methods)} Envelope methods scanned"))
    # Envelope's setter propagates to both members
    setter = repo.func("Envelope.expansion_level.setter")
    tgt = {src(t) for n in walk_no_nested(setter.node) if isinstance(n, ast.Assign) for t in n.targets}
    need = {"self.fock.expansion_level", "self.polarization.expansion_level", "self._expansion_level"}
    (obs.append(ok("TAG", setter, "setter-propagates", ("C07",), setter.node, "Envelope.expansion_level setter tags both members")) if need <= tgt else
     obs.append(bad("TAG", setter, "setter-propagates", ("C07",), setter.node, f"Envelope.expansion_level setter no longer writes {sorted(need - tgt)}")))
    if n_tags < 14:
        raise AnalysisError(f"TAG: {n_tags} tag writes (floor 14)")
    return obs


def _purity_isclose(test: ast.AST, fn) -> Optional[bool]:
    """jnp.isclose/allclose(<Tr rho^2>, 1, rtol=0, atol=tol): pure on the true outcome.  With the default
    rtol=1e-5 the window is wider than the tolerance the eigenvalue selection uses -> not accepted"""
    if isinstance(test, ast.Call) and call_np(test) in ("isclose", "allclose") and len(test.args) >= 2:
        kw = {k.arg: k.value for k in test.keywords}
        rt = kw.get("rtol") or (test.args[2] if len(test.args) > 2 else None)
        if rt is not None and isinstance(rt, ast.Constant) and rt.value == 0:
            fake = ast.Compare(left=ast.Call(func=ast.Name(id="abs", ctx=ast.Load()), args=[ast.BinOp(left=test.args[0], op=ast.Sub(), right=test.args[1])], keywords=[]),
                               ops=[ast.Lt()], comparators=[kw.get("atol") or ast.Name(id="tol", ctx=ast.Load())])
            return _purity_test(ast.fix_missing_locations(fake), fn)
    return None


def _purity_test_any(test: ast.AST, fn) -> Optional[bool]:
    """a test expression may wrap the comparison in `not`"""
    r0 = _purity_isclose(test, fn)
    if r0 is not None:
        return r0
    if isinstance(test, ast.UnaryOp) and isinstance(test.op, ast.Not):
        r = _purity_test_any(test.operand, fn)
        return None if r is None else (not r)
    return _purity_test(test, fn)


# ----------------------------------------------------------------------------- CONTRACT-ONLY
@rule("CONTRACT-ONLY")
def contract_only(repo: Repo) -> List[Ob]:
    obs: List[Ob] = []
    P = ("C08",)
    reads = 0
    for fi in repo.scan_functions():
        if not fi.module.name.startswith("photon_weave") or (fi.cls is not None and fi.cls.name == "Config"):
            continue
        parents = {}
        for n in ast.walk(fi.node):
            for c in ast.iter_child_nodes(n):
                parents[id(c)] = n
        k = 0
        for n in walk_no_nested(fi.node):
            if isinstance(n, ast.Attribute) and n.attr in ("contractions", "_contractions") and isinstance(n.ctx, ast.Load):
                reads += 1
                k += 1
                # climb to the enclosing statement
                p = n
                while id(p) in parents and not isinstance(parents[id(p)], ast.stmt):
                    p = parents[id(p)]
                st = parents.get(id(p))
                good = False
                why = "the switch is read outside an `if` test"
                if isinstance(st, ast.If) and any(x is n for x in ast.walk(st.test)):
                    def _neutral(b):
                        if not (isinstance(b, ast.Expr) and isinstance(b.value, ast.Call)):
                            return isinstance(b, ast.Pass)
                        mc2 = method_call(b.value)
                        if mc2 is not None and mc2[1] == "contract":
                            return True
                        d = dotted(b.value.func) or ""
                        return d.split(".")[0] in ("logger", "logging", "log") or d == "print"
                    only = all(_neutral(b) for b in st.body) and any(isinstance(b, ast.Expr) and method_call(b.value) and method_call(b.value)[1] == "contract" for b in st.body)
                    if only and not st.orelse:
                        good = True
                    else:
                        why = "the branch guarded by Config.contractions does more than call contract()"
                (obs.append(ok("CONTRACT-ONLY", fi, f"switch-read#{k}", P, n, "guards only contract() calls")) if good else
                 obs.append(bad("CONTRACT-ONLY", fi, f"switch-read#{k}", P, n, why + ": physics would depend on the contraction setting")))
    if reads < 10:
        raise AnalysisError(f"CONTRACT-ONLY: {reads} reads of Config.contractions (floor 10)")
    # contract implementations write only .state and .expansion_level
    for q in [t for t in TAG_FUNCS if t.endswith(".contract")]:
        fi = repo.func(q)
        others = []
        for n in walk_no_nested(fi.node):
            if isinstance(n, ast.Attribute) and isinstance(n.ctx, ast.Store) and n.attr not in ("state", "expansion_level", "_expansion_level"):
                others.append(n)
        (obs.append(bad("CONTRACT-ONLY", fi, "contract-writes", P, others[0], f"contract() writes `{src(others[0])}` besides state/expansion_level")) if others else
         obs.append(ok("CONTRACT-ONLY", fi, "contract-writes", P, fi.node, "writes only state and expansion_level")))
    return obs


# ----------------------------------------------------------------------------- CONTRACT-VEC
# The ket that replaces a pure density matrix must be the eigenvector of eigenvalue one: a *column* of the eigenvector matrix chosen by the
# eigenvalues, or a normalised column of rho itself (rho[:, k] = psi * conj(psi_k)).  A row of rho is proportional to conj(psi) – equal to psi
# for real amplitudes only – and a row of the eigenvector matrix is no eigenvector at all.
_PASS_METHODS = {"reshape", "astype", "flatten", "ravel", "squeeze", "copy", "block_until_ready"}
_PASS_FUNCS = {"reshape", "asarray", "array", "expand_dims", "squeeze", "ravel", "atleast_2d", "real_if_close"}


class _VecEval:
    def __init__(self, fi: FuncInfo, cfg: CFG, node: Node):
        self.fi, self.cfg, self.node = fi, cfg, node

    def _defs(self, name: str):
        return [d for d in self.cfg.reaching_defs(self.node, name)]

    def name_values(self, n: ast.Name, depth: int):
        """values a local can hold here: list of (kind, payload) or None if not readable"""
        out = []
        for d in self._defs(n.id):
            if d is self.cfg.entry or d.kind != "stmt" or not isinstance(d.ast, ast.Assign) or len(d.ast.targets) != 1:
                return None
            t, v = d.ast.targets[0], d.ast.value
            sub = _VecEval(self.fi, self.cfg, d)
            if isinstance(t, ast.Name):
                out.append(sub.ev(v, depth + 1))
            elif isinstance(t, ast.Tuple) and all(isinstance(e, ast.Name) for e in t.elts):
                pos = [e.id for e in t.elts].index(n.id)
                if isinstance(v, ast.Tuple) and len(v.elts) == len(t.elts):
                    out.append(sub.ev(v.elts[pos], depth + 1))
                else:
                    out.append(sub.ev_item(v, pos, len(t.elts), depth + 1))
            else:
                return None
        return out or None

    def is_rho(self, e: ast.AST) -> bool:
        return isinstance(e, ast.Attribute) and e.attr == "state" and src(e.value) == "self"

    def ev_item(self, call: ast.AST, pos: int, arity: int, depth: int):
        """value of item `pos` of a decomposition call"""
        f = call_np(call) if isinstance(call, ast.Call) else None
        if f in ("linalg.eigh", "linalg.eig") and call.args:
            a = self.ev(call.args[0], depth + 1)
            if a is not None and a["k"] == "mat" and a["of"] == "rho" and not a["T"] and not a["conj"]:
                return {"k": "evals", "call": id(call)} if pos == 0 else {"k": "mat", "of": "eig", "T": False, "conj": False, "call": id(call), "fn": f}
        return None

    def ev(self, e: ast.AST, depth: int = 0):
        if depth > 12:
            return None
        if self.is_rho(e):
            ds = self.cfg.reaching_defs(self.node, "@self.state")
            if all(d is self.cfg.entry for d in ds):
                return {"k": "mat", "of": "rho", "T": False, "conj": False}
            return None
        if isinstance(e, ast.Name):
            vs = self.name_values(e, depth)
            if not vs or any(v is None for v in vs):
                return None
            first = vs[0]
            return first if all(_same_abs(v, first) for v in vs) else None
        if isinstance(e, ast.Attribute):
            base = self.ev(e.value, depth + 1)
            if e.attr in ("T", "mT") and base is not None and base["k"] == "mat":
                return dict(base, T=not base["T"])
            if e.attr == "H" and base is not None and base["k"] == "mat":
                return dict(base, T=not base["T"], conj=not base["conj"])
            if e.attr in ("eigenvectors", "eigenvalues") and isinstance(e.value, ast.Call):
                return self.ev_item(e.value, 0 if e.attr == "eigenvalues" else 1, 2, depth + 1)
            return None
        if isinstance(e, ast.Subscript):
            if isinstance(e.value, ast.Call) and isinstance(e.slice, ast.Constant) and isinstance(e.slice.value, int):
                it = self.ev_item(e.value, e.slice.value, 2, depth + 1)
                if it is not None:
                    return it
            base = self.ev(e.value, depth + 1)
            if base is None:
                return None
            if base["k"] == "mat":
                o = _orient(e.slice)
                if o is None:
                    return None
                orient, idx = o
                if base["T"]:
                    orient = "row" if orient == "col" else "col"
                return {"k": "vec", "of": base["of"], "orient": orient, "conj": base["conj"], "idx": idx, "norm": False, "call": base.get("call"), "fn": base.get("fn")}
            if base["k"] == "vec":
                # v[:, None], v[None, :] … re-shaping subscripts
                parts = e.slice.elts if isinstance(e.slice, ast.Tuple) else [e.slice]
                if all((isinstance(p, ast.Slice) and p.lower is None and p.upper is None and p.step is None) or (isinstance(p, ast.Constant) and p.value is None)
                       or (np_name(p) == "newaxis") for p in parts):
                    return base
            return None
        if isinstance(e, ast.BinOp) and isinstance(e.op, (ast.Div, ast.Mult)):
            l, r = self.ev(e.left, depth + 1), self.ev(e.right, depth + 1)
            if l is not None and l["k"] == "vec" and (r is None or r["k"] not in ("vec", "mat")):
                return dict(l, norm=l["norm"] or isinstance(e.op, ast.Div))
            if isinstance(e.op, ast.Mult) and r is not None and r["k"] == "vec" and (l is None or l["k"] not in ("vec", "mat")):
                return r
            return None
        if isinstance(e, ast.Call):
            mc = method_call(e)
            if mc is not None:
                recv, m = mc
                if np_name(recv) is None or True:
                    base = self.ev(recv, depth + 1) if not (isinstance(recv, ast.Name) and recv.id in ("jnp", "np", "numpy", "jax")) else None
                    if base is not None:
                        if m in _PASS_METHODS and base["k"] in ("vec", "mat"):
                            return base if base["k"] == "vec" else (base if m in ("astype", "copy") else None)
                        if m in ("conj", "conjugate") and base["k"] in ("vec", "mat"):
                            return dict(base, conj=not base["conj"])
                        if m == "transpose" and base["k"] == "mat" and not e.args:
                            return dict(base, T=not base["T"])
                        if m == "take" and base["k"] == "mat":
                            return self._take(base, e.args[:1], e.keywords)
                        return None
            f = call_np(e)
            if f in _PASS_FUNCS and e.args:
                a = self.ev(e.args[0], depth + 1)
                return a if a is not None and a["k"] == "vec" else (a if a is not None and f in ("asarray", "array") else None)
            if f in ("conj", "conjugate") and e.args:
                a = self.ev(e.args[0], depth + 1)
                return dict(a, conj=not a["conj"]) if a is not None and a["k"] in ("vec", "mat") else None
            if f in ("transpose", "swapaxes") and e.args:
                a = self.ev(e.args[0], depth + 1)
                return dict(a, T=not a["T"]) if a is not None and a["k"] == "mat" else None
            if f == "take" and len(e.args) >= 2:
                a = self.ev(e.args[0], depth + 1)
                return self._take(a, e.args[1:2], e.keywords) if a is not None and a["k"] == "mat" else None
            return None
        return None

    def _take(self, base, idx_args, keywords):
        ax = next((k.value for k in keywords if k.arg == "axis"), None)
        if not idx_args or not (isinstance(ax, ast.Constant) and ax.value in (0, 1, -1, -2)):
            return None
        orient = "col" if ax.value in (1, -1) else "row"
        if base["T"]:
            orient = "row" if orient == "col" else "col"
        return {"k": "vec", "of": base["of"], "orient": orient, "conj": base["conj"], "idx": idx_args[0], "norm": False, "call": base.get("call"), "fn": base.get("fn")}


def _same_abs(a, b) -> bool:
    if a is None or b is None:
        return a is b
    return {k: v for k, v in a.items() if k not in ("idx", "call")} == {k: v for k, v in b.items() if k not in ("idx", "call")}


def _orient(sl: ast.AST):
    """M[:, i] / M[..., i] -> ('col', i);  M[i] / M[i, :] / M[i, ...] -> ('row', i)"""
    def full(p):
        return (isinstance(p, ast.Slice) and p.lower is None and p.upper is None and p.step is None) or (isinstance(p, ast.Constant) and p.value is Ellipsis)
    if isinstance(sl, ast.Tuple):
        if len(sl.elts) != 2:
            return None
        a, b = sl.elts
        if full(a) and not full(b) and not isinstance(b, ast.Slice):
            return ("col", b)
        if full(b) and not full(a) and not isinstance(a, ast.Slice):
            return ("row", a)
        return None
    if isinstance(sl, ast.Slice):
        return None
    return ("row", sl)


@rule("CONTRACT-VEC")
def contract_vec(repo: Repo) -> List[Ob]:
    obs: List[Ob] = []
    P = ("C08", "C06", "C07")
    sites = 0
    for q in [t for t in TAG_FUNCS if t.endswith(".contract") and t != "CompositeEnvelope.contract"]:
        fi = repo.func(q)
        cfg, lv = self_levels(fi)
        writes = [n for n in cfg.nodes if _is_self_state_write(n) and 2 in lv.get(n, frozenset())]
        # the extraction is the first write of self.state on its path (the phase normalisation and the label step follow it)
        first = [w for w in writes if all(d is cfg.entry for d in cfg.reaching_defs(w, "@self.state"))]
        k = 0
        for w in first:
            a = w.ast
            if not isinstance(a, ast.Assign):
                continue
            k += 1
            key = f"extracted-ket#{k}"
            v = _VecEval(fi, cfg, w).ev(a.value)
            if v is None or v["k"] != "vec":
                obs.append(skip("CONTRACT-VEC", fi, key, P, a, f"`{src(a.value)[:70]}`: cannot read which vector replaces the density matrix (not a row/column of rho or of its eigenvector matrix)"))
                continue
            sites += 1
            what = "the eigenvector matrix" if v["of"] == "eig" else "rho"
            if v["of"] == "eig":
                ev = _VecEval(fi, cfg, w)
                idx_ok = _idx_by_eigenvalues(ev, v["idx"], v.get("call"), v.get("fn"))
                if v["orient"] == "row":
                    obs.append(bad("CONTRACT-VEC", fi, key, P, a, f"`{src(a.value)[:60]}` takes a *row* of the eigenvector matrix: eigenvectors are its columns, a row is not a state of rho"))
                elif v["conj"]:
                    obs.append(bad("CONTRACT-VEC", fi, key, P, a, f"`{src(a.value)[:60]}` conjugates the eigenvector: that is the eigenvector of rho^T, equal to the state for real amplitudes only"))
                elif idx_ok is False:
                    obs.append(bad("CONTRACT-VEC", fi, key, P, a, f"the column `{src(v['idx'])[:40]}` of the eigenvector matrix is not selected by the eigenvalues: it need not be the eigenvector of eigenvalue one"))
                elif idx_ok is None:
                    obs.append(skip("CONTRACT-VEC", fi, key, P, a, f"cannot read how the column index `{src(v['idx'])[:40]}` is chosen"))
                else:
                    obs.append(ok("CONTRACT-VEC", fi, key, P, a, "column of eigh(rho)'s eigenvector matrix selected by the eigenvalues"))
            else:
                good_shape = (v["orient"] == "col" and not v["conj"]) or (v["orient"] == "row" and v["conj"])
                if not good_shape:
                    obs.append(bad("CONTRACT-VEC", fi, key, P, a,
                                   f"`{src(a.value)[:60]}` takes a {'row' if v['orient'] == 'row' else 'conjugated column'} of {what}: for rho = |psi><psi| that is proportional to conj(psi), "
                                   "the state itself only when all amplitudes are real"))
                elif not v["norm"]:
                    obs.append(bad("CONTRACT-VEC", fi, key, P, a, f"`{src(a.value)[:60]}`: a column of rho has norm |psi_k|, it is not divided by its norm"))
                else:
                    obs.append(ok("CONTRACT-VEC", fi, key, P, a, "normalised column of rho (proportional to psi)"))
    if sites < 6:
        und = [o for o in obs if o.status == "unanalysed"]
        if not und:
            raise AnalysisError(f"CONTRACT-VEC: {sites} Matrix->Vector extraction sites (floor 6)")
    return obs


def _idx_by_eigenvalues(ev: "_VecEval", idx: ast.AST, call_id, fn) -> Optional[bool]:
    """True: the index is computed from the eigenvalues of the same decomposition (or is the last of eigh's ascending order)"""
    if isinstance(idx, ast.UnaryOp) and isinstance(idx.op, ast.USub) and isinstance(idx.operand, ast.Constant) and idx.operand.value == 1:
        return True if fn == "linalg.eigh" else False
    if isinstance(idx, ast.Constant):
        return False
    found = False
    for n in ast.walk(idx):
        if isinstance(n, ast.Name) and isinstance(n.ctx, ast.Load):
            vs = ev.name_values(n, 0)
            if vs and all(v is not None and v["k"] == "evals" for v in vs):
                found = True
            elif vs is None:
                ds = ev._defs(n.id)
                for d in ds:
                    if d is not ev.cfg.entry and d.kind == "stmt" and isinstance(d.ast, ast.Assign):
                        r = _idx_by_eigenvalues(_VecEval(ev.fi, ev.cfg, d), d.ast.value, call_id, fn)
                        if r:
                            found = True
            elif vs and all(v is None for v in vs):
                ds = ev._defs(n.id)
                for d in ds:
                    if d is not ev.cfg.entry and d.kind == "stmt" and isinstance(d.ast, ast.Assign) and isinstance(d.ast.targets[0], ast.Name):
                        r = _idx_by_eigenvalues(_VecEval(ev.fi, ev.cfg, d), d.ast.value, call_id, fn)
                        if r:
                            found = True
    return True if found else None


# ----------------------------------------------------------------------------- SANDWICH
def _sandwich_props(fi: FuncInfo) -> tuple:
    n = fi.node.name
    return {"apply_operation": ("C01",), "apply_kraus": ("C06",), "measure_POVM": ("C09", "C05")}.get(n, props_of(fi) if not fi.module.name.endswith("_math.ops") else ("C06",))


def _const_str(e: ast.AST, fn: ast.FunctionDef) -> Optional[str]:
    if isinstance(e, ast.Constant) and isinstance(e.value, str):
        return e.value
    if isinstance(e, ast.Name):
        vals = set()
        from ..scope import assignments_to
        for d in assignments_to(fn, e.id):
            if isinstance(d, ast.Assign) and isinstance(d.value, ast.Constant) and isinstance(d.value.value, str):
                vals.add(d.value.value)
            else:
                return None
        if len(vals) == 1:
            return vals.pop()
    return None


def _const_strs(e: ast.AST, cfg: CFG, at: ast.AST) -> List[str]:
    """the literal strings that may reach this use of a name (reaching definitions); [] if any
    reaching definition is not a literal"""
    if isinstance(e, ast.Constant) and isinstance(e.value, str):
        return [e.value]
    if isinstance(e, ast.Name):
        node = cfg.node_containing(at)
        if node is None:
            return []
        vals = []
        for d in cfg.reaching_defs(node, e.id):
            a = d.ast
            if d.kind == "stmt" and isinstance(a, ast.Assign) and isinstance(a.value, ast.Constant) and isinstance(a.value.value, str):
                vals.append(a.value.value)
            else:
                return []
        return sorted(set(vals))
    return []


def check_sandwich_literal(s: str) -> Optional[str]:
    """None if "X,S,Y->Z" is a consistent O rho O^dagger contraction (operand 3 = conj(operand 1)),
    else a description of the inconsistency"""
    s = s.replace(" ", "")
    if "->" not in s:
        return "implicit output"
    lhs, Z = s.split("->")
    parts = lhs.split(",")
    if len(parts) != 3:
        return None
    X, S, Y = parts
    if len(X) != len(Y):
        return "the operator and its conjugate are indexed with different ranks"
    cx = {p: S.index(c) for p, c in enumerate(X) if c in S}
    cy = {p: S.index(c) for p, c in enumerate(Y) if c in S}
    for grp, nm in ((X, "left operator"), (Y, "right operator")):
        if len(set(grp)) != len(grp):
            return f"repeated letter inside the {nm}"
    if any(c in Y for c in X):
        return "left and right operator share an index"
    if set(cx) != set(cy):
        return (f"the operator axes contracted with the state differ between the left factor {sorted(cx)} and the conjugated right factor {sorted(cy)}: "
                "this applies a partially transposed operator on one side")
    if not cx:
        return "the operator is not contracted with the state at all"
    for c in [X[p] for p in cx] + [Y[p] for p in cy]:
        if c in Z:
            return f"contracted index `{c}` survives in the output"
    n2 = len(S)
    if n2 % 2:
        return "state tensor has odd rank"
    n = n2 // 2
    lay_ok = []
    for layout in ("blocked", "interleaved"):
        partner = (lambda q: q + n) if layout == "blocked" else (lambda q: q + 1)
        is_row = (lambda q: q < n) if layout == "blocked" else (lambda q: q % 2 == 0)
        if all(is_row(cx[p]) and cy[p] == partner(cx[p]) for p in cx):
            lay_ok.append(layout)
    if not lay_ok:
        return "left factor and conjugated right factor do not contract the row and column index of the same subsystem"
    # output: S with contracted row letter -> paired free letter of X, column letter -> same-position letter of Y
    k = len(X)
    free = [p for p in range(k) if p not in cx]
    if len(free) != len(cx):
        return "operator has unequal numbers of free and contracted axes"
    for op_layout in ("blocked", "interleaved"):
        if op_layout == "blocked":
            pair = {pi: po for po, pi in zip(sorted(free), sorted(cx))}
            if not (max(free) < min(cx)):
                continue          # operator matrices are O[out, in]: the free (output) axes come first
        else:
            pair = {}
            good = True
            for pi in cx:
                po = pi - 1 if (pi - 1) in free else None      # (out_i, in_i) pairs
                if po is None:
                    good = False
                    break
                pair[pi] = po
            if not good or len(set(pair.values())) != len(pair):
                continue
        exp = list(S)
        for pi, po in pair.items():
            exp[cx[pi]] = X[po]
            exp[cy[pi]] = Y[po]
        if "".join(exp) == Z:
            return None
    return f"output `{Z}` is not the state with every contracted index replaced by the paired free operator index"


def _root(e: ast.AST) -> Optional[str]:
    while isinstance(e, (ast.Attribute, ast.Subscript, ast.Call)):
        e = e.value if isinstance(e, (ast.Attribute, ast.Subscript)) else (e.func if not e.args else (e.func.value if isinstance(e.func, ast.Attribute) and not isinstance(e.func.value, ast.Name) else (e.args[0] if dotted(e.func) and (dotted(e.func).split(".")[0] in ("jnp", "np", "jax", "numpy")) else e.func)))
    return e.id if isinstance(e, ast.Name) else None


@rule("SANDWICH")
def sandwich(repo: Repo) -> List[Ob]:
    obs: List[Ob] = []
    n_call = 0
    n_lit = 0
    funcs = state_functions(repo) + [f for f in repo.scan_functions() if is_math_module(f.module.name) or "fock_dimension" in f.module.name]
    for fi in funcs:
        props = _sandwich_props(fi)
        k = 0
        cfg = None
        if is_math_module(fi.module.name) and fi.node.name != "apply_kraus":
            continue
        for n in sorted(walk_no_nested(fi.node), key=lambda x: (getattr(x, "lineno", 0), getattr(x, "col_offset", 0))):
            trip = None
            if isinstance(n, ast.Call) and call_np(n) == "einsum" and len(n.args) == 4:
                trip = (n.args[1], n.args[2], n.args[3], "einsum")
            elif isinstance(n, ast.Call) and call_np(n) == "matmul" and len(n.args) == 2 and call_np(n.args[1]) == "matmul" and len(n.args[1].args) == 2:
                trip = (n.args[0], n.args[1].args[0], n.args[1].args[1], "matmul")
            elif isinstance(n, ast.Call) and call_np(n) == "matmul" and len(n.args) == 2 and call_np(n.args[0]) == "matmul" and len(n.args[0].args) == 2:
                trip = (n.args[0].args[0], n.args[0].args[1], n.args[1], "matmul")
            elif isinstance(n, ast.BinOp) and isinstance(n.op, ast.MatMult) and isinstance(n.left, ast.BinOp) and isinstance(n.left.op, ast.MatMult):
                trip = (n.left.left, n.left.right, n.right, "@")
            if trip is None:
                continue
            A, S, B, how = trip
            k += 1
            n_call += 1
            key = f"sandwich#{k}:{how}"
            if how == "einsum":
                c = is_conj(B)
                if c is None:
                    ca = is_conj(A)
                    if ca is not None and src(ca) == src(B):
                        obs.append(bad("SANDWICH", fi, key, props, n, "the *left* factor is conjugated and the right one is not: computes O* rho O^T"))
                    elif _root(A) is not None and _root(A) == _root(B):
                        obs.append(bad("SANDWICH", fi, key, props, n, f"third einsum operand `{src(B)[:40]}` is not the complex conjugate of the first: O rho O^T instead of O rho O^dagger"))
                    else:
                        obs.append(skip("SANDWICH", fi, key, props, n, "three-operand einsum whose outer operands are unrelated: not a sandwich"))
                elif src(c) != src(A):
                    obs.append(bad("SANDWICH", fi, key, props, n, f"right factor conjugates `{src(c)[:30]}` but the left factor is `{src(A)[:30]}`"))
                else:
                    obs.append(ok("SANDWICH", fi, key, props, n, "right factor is conj(left factor)"))
                    cfg = cfg or CFG(fi.node)
                    for lit in _const_strs(n.args[0], cfg, n):
                        n_lit += 1
                        err = check_sandwich_literal(lit)
                        lk = f"literal:{lit}"
                        (obs.append(ok("SANDWICH-LIT", fi, lk, props, n, "literal is a consistent O rho O^dagger contraction")) if err is None else
                         obs.append(bad("SANDWICH-LIT", fi, lk, props, n, f'"{lit}": {err}')))
            else:
                d = is_dagger(B)
                if d is None:
                    obs.append(bad("SANDWICH", fi, key, props, n, f"right factor `{src(B)[:40]}` is not the conjugate transpose of the left factor"))
                elif src(d) != src(A):
                    obs.append(bad("SANDWICH", fi, key, props, n, f"right factor is the adjoint of `{src(d)[:30]}`, left factor is `{src(A)[:30]}`"))
                else:
                    obs.append(ok("SANDWICH", fi, key, props, n, "K rho K^dagger"))
    # APPLY-LIT: ket-level applications  einsum("ij,jk…->ik…", O, psi): O is contracted through its *second* (input) axis
    n_apply = 0
    for fi in state_functions(repo):
        props = _sandwich_props(fi)
        cfg = None
        k = 0
        for n in sorted(walk_no_nested(fi.node), key=lambda x: (getattr(x, "lineno", 0), getattr(x, "col_offset", 0))):
            if isinstance(n, ast.Call) and call_np(n) == "einsum" and len(n.args) == 3 and ("operator" in src(n.args[1]) or src(n.args[1]) in ("op", "operator")):
                cfg = cfg or CFG(fi.node)
                for lit in _const_strs(n.args[0], cfg, n):
                    t = lit.replace(" ", "")
                    if "->" not in t or t.count(",") != 1:
                        continue
                    lhs, Z = t.split("->")
                    X, S = lhs.split(",")
                    if len(X) != 2:
                        continue
                    k += 1
                    n_apply += 1
                    key = f"apply-literal#{k}"
                    problems = []
                    if X[1] not in S or X[0] in S:
                        problems.append("the operator is contracted through its first (output) axis: this applies the transposed operator")
                    else:
                        exp = S.replace(X[1], X[0])
                        if Z != exp:
                            problems.append(f"output `{Z}` is not the state `{S}` with the contracted index replaced in place (expected `{exp}`)")
                    (obs.append(bad("SANDWICH-LIT", fi, key, props, n, f'"{lit}": ' + "; ".join(problems))) if problems else
                     obs.append(ok("SANDWICH-LIT", fi, key, props, n, "O psi with O[out, in] contracted through its input axis")))
    if n_apply < 4:
        raise AnalysisError(f"APPLY-LIT: {n_apply} ket-level literal applications (floor 4)")
    if n_call < 14:
        raise AnalysisError(f"SANDWICH: {n_call} three-factor applications (floor 14)")
    if n_lit < 8:
        raise AnalysisError(f"SANDWICH-LIT: {n_lit} literal strings (floor 8)")
    return obs


# ----------------------------------------------------------------------------- DISCARD
FUNCTIONAL_METHODS = {"set", "add", "multiply", "divide", "power", "min", "max", "apply", "get", "reshape", "transpose", "flatten",
                      "ravel", "astype", "conj", "conjugate", "squeeze", "swapaxes", "copy", "real", "imag"}


@rule("DISCARD")
def discard(repo: Repo) -> List[Ob]:
    obs: List[Ob] = []
    at_uses = 0
    for fi in state_functions(repo):
        props = tuple(dict.fromkeys(ACTION_PROPS.get(fi.node.name, ()) + ("C07",)))
        if fi.node.name == "measure":
            props = ("C05", "C07")
        k = 0
        for n in walk_no_nested(fi.node):
            if isinstance(n, ast.Subscript) and isinstance(n.value, ast.Attribute) and n.value.attr == "at":
                at_uses += 1
            if isinstance(n, ast.Expr) and isinstance(n.value, ast.Call):
                c = n.value
                mc = method_call(c)
                is_at = mc is not None and isinstance(mc[0], ast.Subscript) and isinstance(mc[0].value, ast.Attribute) and mc[0].value.attr == "at"
                is_np = call_np(c) is not None and call_np(c) not in ("config.update",)
                is_fm = mc is not None and mc[1] in FUNCTIONAL_METHODS and not is_at and isinstance(mc[0], (ast.Attribute, ast.Name, ast.Subscript, ast.Call)) \
                    and mc[1] in ("reshape", "transpose", "flatten", "ravel", "astype", "conj", "conjugate", "squeeze", "swapaxes")
                if is_at or is_np or is_fm:
                    k += 1
                    obs.append(bad("DISCARD", fi, f"discarded#{k}", props, n,
                                   f"the result of the functional update `{src(c)[:60]}` is thrown away (JAX arrays are immutable): the intended write never happens"))
        if k == 0:
            obs.append(ok("DISCARD", fi, "no-discarded-update", props, fi.node, "no discarded functional array update"))
    if at_uses < 3:
        raise AnalysisError(f"DISCARD: {at_uses} `.at[]` uses found (floor 3)")
    return obs


@rule("MUST-APPLY")
def must_apply(repo: Repo) -> List[Ob]:
    """an apply body has no shortcut round the operator: every path that returns normally either contracts `operation.operator`
    into the state or hands the request to another object's apply_operation.  (Paths that are infeasible because of the
    representation level – `while level < required: expand()` leaves at least a ket – are pruned with the level domain.)"""
    from ..cfg import refine
    obs: List[Ob] = []
    # the smallest required level over all operation types (read from the enum tables): the expansion loop establishes at least this
    min_req = 2
    for en in ("FockOperationType", "PolarizationOperationType", "CustomStateOperationType", "CompositeOperationType"):
        ci = repo.cls(en)
        for st in ci.node.body:
            v = getattr(st, "value", None)
            if isinstance(v, ast.Tuple):
                for e in v.elts:
                    c = level_const(e)
                    if c is not None:
                        min_req = min(min_req, c)
    n = 0
    for q in APPLY_BODIES + ["CompositeEnvelope.apply_operation"]:
        fi = repo.func(q)
        opn = next((p for p in fi.params if p in ("operation", "operator", "op")), None)
        if opn is None:
            raise AnalysisError(f"MUST-APPLY: {q} has no operation parameter")
        cfg = CFG(fi.node)
        init_lv = {"self": frozenset({1, 2})} if fi.cls.name in ("ProductState", "Envelope") else {}
        lt = LevelTracker(["self"], init_lv)
        thr = {nd for nd in cfg.nodes for x in walk_node(nd)
               if (isinstance(x, ast.Attribute) and x.attr == "operator" and src(x.value) == opn)
               or (method_call(x) and method_call(x)[1] == "apply_operation" and src(method_call(x)[0]) != "self")}
        if not thr:
            raise AnalysisError(f"MUST-APPLY: {q} never reads {opn}.operator nor delegates")

        def atom(e, truth, st):
            applied, lv = st
            # `X.expansion_level < operation.required_expansion_level` is false  =>  level >= smallest required level
            if isinstance(e, ast.Compare) and len(e.ops) == 1 and isinstance(e.ops[0], ast.Lt) and level_receiver(e.left) == "self" \
                    and isinstance(e.comparators[0], ast.Attribute) and e.comparators[0].attr == "required_expansion_level" and not truth:
                cur = LevelTracker.get(lv, "self") & frozenset(v for v in ALL_LEVELS if v >= min_req)
                return [(applied, LevelTracker.set(lv, "self", cur))] if cur else []
            return [(applied, o) for o in lt.atom(e, truth, lv)]

        def transfer(s, lab, d, st):
            applied, lv = st
            if s in thr:
                applied = True
            if s.kind in ("test", "assert") and lab in ("T", "F"):
                lv2 = lt.exec_node(s, lv)
                return refine(s.ast, lab == "T", (applied, lv2), atom)
            return [(applied, o) for o in lt.transfer(s, lab, d, lv)]

        seen = explore(cfg, (False, lt.init), transfer)
        n += 1
        skipping = [nd for nd in cfg.nodes if nd.kind == "return" and any(not a for a, _ in seen[nd])]
        fall = any(not a for a, _ in seen[cfg.exit]) and not skipping
        props = ("C01", "C03", "C11") if "ProductState" in q or "Composite" in q else ("C01",)
        if skipping or fall:
            at = skipping[0].ast if skipping else fi.node
            obs.append(bad("MUST-APPLY", fi, "no-shortcut", props, at,
                           f"`{src(at)[:40]}` ends the call normally on a path that neither contracts {opn}.operator into the state nor hands the request on: the operation is silently skipped there"))
        else:
            obs.append(ok("MUST-APPLY", fi, "no-shortcut", props, fi.node, "every normal return has applied the operator or delegated the request"))
    return obs
