"""LAYOUT – axis-layout typestate of the hand-written tensor code (DESIGN §2.7), and ENVAXIS –
the envelope's "target first" convention.

Abstract layouts of a two-level tensor view of a stored state:
  FLAT      2-D matrix / column vector as stored
  KET       (d0, d1, …, 1)
  BLOCKED   (r0, r1, …, c0, c1, …)        after .reshape([*S, *S])
  INTER     (r0, c0, r1, c1, …)           after .transpose([0, 2, 1, 3]) / a computed interleaving pattern
  SUB       result of a partial trace (a reduced 2-D matrix)
The typestate is propagated along the CFG for every local tensor name; what is checked:
  * nothing is flattened back to 2-D (or stored into `.state`) while INTER – the interleave must be undone;
  * a computed (non-literal) permutation is not reused as its own inverse;
  * literal einsum strings applied to a tensor agree with its layout (sandwich pairs / partial-trace pairs);
  * (ENVAXIS) a first-axis contraction in an Envelope method is dominated by `self.reorder(*states)`,
    and shape/order lists are filled member-consistently (`L[self.X.index] = self.X.…`).
"""
from __future__ import annotations

import ast
from typing import Dict, List, Optional, Set, Tuple

from ..cfg import CFG, Node, explore, walk_node
from ..model import AnalysisError, FuncInfo, Repo, call_np, method_call, src, walk_no_nested
from ..report import Ob, bad, note, ok, skip
from . import ACTION_PROPS, rule
from .measure import _ptrace_literal_ok
from .struct import check_sandwich_literal

FUNCS = ["Envelope.apply_operation", "Envelope.apply_kraus", "Envelope.measure_POVM", "Envelope.resize_fock", "Envelope.trace_out",
         "Envelope.measure", "Envelope.reorder", "ProductState.resize_fock"]
INVOLUTIONS = {"[0, 2, 1, 3]", "(0, 2, 1, 3)", "(1, 0)", "[1, 0]", "(1, 0, 3, 2)", "[1, 0, 3, 2]"}
INTERLEAVE = {"[0, 2, 1, 3]", "(0, 2, 1, 3)"}


def _props(fi: FuncInfo) -> tuple:
    return {"apply_operation": ("C01",), "apply_kraus": ("C06",), "measure_POVM": ("C09",), "resize_fock": ("C10",),
            "trace_out": ("C02",), "measure": ("C04", "C05"), "reorder": ("C02",)}.get(fi.node.name, ("C07",))


class _LS:
    """layout evaluation of expressions under an environment name -> layout"""

    def __init__(self, fi: FuncInfo, cfg: CFG):
        self.fi, self.cfg = fi, cfg
        self.events: List[Tuple[ast.AST, str, str]] = []     # (node, kind, message)
        self.checked: List[Tuple[ast.AST, str]] = []

    def shape_kind(self, a: ast.AST, env) -> Optional[str]:
        t = src(a)
        if t.startswith("[*") and t.count("*") == 2 and t.count(",") == 1:
            parts = [p.strip(" []*") for p in t.split(",")]
            if len(parts) == 2 and parts[0] == parts[1]:
                return "BLOCKED"
        if isinstance(a, ast.BinOp) and isinstance(a.op, ast.Mult) and isinstance(a.right, ast.Constant) and a.right.value == 2:
            return "BLOCKED"
        if isinstance(a, ast.Name):
            return env.get("#" + a.id)           # shape-list kinds tracked as pseudo names
        if isinstance(a, (ast.Tuple, ast.List)) and len(a.elts) == 2:
            return "FLAT"
        return None

    def layout(self, e: ast.AST, env: Dict[str, str], at: ast.AST) -> str:
        if isinstance(e, ast.Attribute) and e.attr == "state":
            return "FLAT"
        if isinstance(e, ast.Name):
            return env.get(e.id, "?")
        mc = method_call(e)
        if mc and mc[1] == "reshape":
            inner = self.layout(mc[0], env, at)
            args = e.args
            if len(args) == 1:
                k = self.shape_kind(args[0], env)
                if k == "BLOCKED":
                    if inner == "INTER":
                        self.events.append((e, "flatten-interleaved", "an interleaved tensor is reshaped without undoing the interleave"))
                    return "BLOCKED"
                if k in ("KET", "NONINT"):
                    return k
                if k == "FLAT" or (isinstance(args[0], ast.Tuple) and len(args[0].elts) == 2) or isinstance(args[0], ast.GeneratorExp):
                    if inner == "INTER":
                        self.events.append((e, "flatten-interleaved", "a tensor in interleaved (r0,c0,r1,c1) layout is flattened to a matrix without transposing it back to (r0,r1,c0,c1): rows and columns of the stored density matrix are scrambled"))
                    self.checked.append((e, "flatten"))
                    return "FLAT"
                return "?"
            if len(args) == 2:
                if inner == "INTER":
                    self.events.append((e, "flatten-interleaved", "a tensor in interleaved (r0,c0,r1,c1) layout is flattened to a matrix without transposing it back to (r0,r1,c0,c1): rows and columns of the stored density matrix are scrambled"))
                self.checked.append((e, "flatten"))
                return "FLAT"
            return "?"
        if mc and mc[1] == "transpose" or (call_np(e) == "transpose"):
            if mc and mc[1] == "transpose":
                base, perm = mc[0], (e.args[0] if e.args else None)
            else:
                base, perm = e.args[0], (e.args[1] if len(e.args) > 1 else None)
            inner = self.layout(base, env, at)
            p = src(perm) if perm is not None else ""
            if p in INTERLEAVE:
                return {"BLOCKED": "INTER", "INTER": "BLOCKED", "NONINT": "INTER"}.get(inner, "?")
            if p in INVOLUTIONS:
                return inner
            if isinstance(perm, ast.Name):
                # computed interleaving pattern
                if inner == "BLOCKED":
                    return "INTER:" + perm.id
                if inner.startswith("INTER:"):
                    if _inverse_of(self.fi, perm.id) == inner.split(":", 1)[1]:
                        return "BLOCKED"
                    if inner.split(":", 1)[1] == perm.id:
                        self.events.append((e, "self-inverse-permutation",
                                            f"the computed permutation `{perm.id}` that interleaved the tensor is applied a second time to undo it: it is its own inverse only for <= 2 subsystems, for 3 or more the axes come back in the wrong order"))
                    return "BLOCKED"
                return "?"
            return "?"
        n = call_np(e)
        if n in ("zeros_like", "pad", "array", "conj", "real", "abs") and e.args:
            return self.layout(e.args[0], env, at)
        if isinstance(e, ast.Subscript):
            return self.layout(e.value, env, at)
        if n == "einsum" and len(e.args) >= 2:
            lit = _lit(e.args[0], self.cfg, at)
            if len(e.args) == 4:
                S = self.layout(e.args[2], env, at)
                if lit and S in ("BLOCKED", "INTER"):
                    self.checked.append((e, "sandwich-literal"))
                    lay = _sandwich_layouts(lit)
                    want = "interleaved" if S == "INTER" else "blocked"
                    if lay is not None and want not in lay:
                        self.events.append((e, "literal-vs-layout", f'"{lit}" pairs row/column axes as in a {sorted(lay)} tensor but the state tensor is {want} here'))
                return S
            if len(e.args) == 3:
                return self.layout(e.args[2], env, at)
            if len(e.args) == 2:
                S = self.layout(e.args[1], env, at)
                if lit and "->" in lit and "," not in lit:
                    l, r = lit.replace(" ", "").split("->")
                    rep = [c for c in set(l) if l.count(c) == 2 and c not in r]
                    if rep and len(l) == 4 and S in ("BLOCKED", "INTER"):
                        self.checked.append((e, "trace-literal"))
                        okp = _ptrace_literal_ok(lit, "interleaved" if S == "INTER" else "blocked")
                        if okp is False:
                            self.events.append((e, "literal-vs-layout", f'"{lit}" does not trace the (row, column) pair of one subsystem of a {"interleaved" if S == "INTER" else "blocked"} tensor'))
                        return "SUB"
                    if len(r) == len(l):
                        return S
                    return "SUB" if rep else S
                return "?"
        if isinstance(e, ast.BinOp):
            l = self.layout(e.left, env, at)
            return l if l != "?" else self.layout(e.right, env, at)
        return "?"


def _inverse_of(fi: FuncInfo, name: str) -> Optional[str]:
    """`name = [P.index(i) for i in range(len(P))]` / argsort(P)  ->  'P'"""
    from ..scope import single_def_value
    v = single_def_value(fi.node, name)
    if isinstance(v, ast.ListComp) and len(v.generators) == 1:
        mc = method_call(v.elt)
        g = v.generators[0]
        if mc and mc[1] == "index" and isinstance(mc[0], ast.Name) and len(v.elt.args) == 1 and src(v.elt.args[0]) == src(g.target) \
                and isinstance(g.iter, ast.Call) and src(g.iter.func) == "range" and src(g.iter.args[0]) == f"len({mc[0].id})":
            return mc[0].id
    if isinstance(v, ast.Call) and call_np(v) == "argsort" and v.args and isinstance(v.args[0], ast.Call) and call_np(v.args[0]) == "array" and isinstance(v.args[0].args[0], ast.Name):
        return v.args[0].args[0].id
    if isinstance(v, ast.Call) and call_np(v) == "argsort" and v.args and isinstance(v.args[0], ast.Name):
        return v.args[0].id
    return None


def _lit(e: ast.AST, cfg: CFG, at: ast.AST) -> Optional[str]:
    if isinstance(e, ast.Constant) and isinstance(e.value, str):
        return e.value
    if isinstance(e, ast.Name):
        node = cfg.node_containing(at)
        if node is None:
            return None
        vals = set()
        for d in cfg.reaching_defs(node, e.id):
            a = d.ast
            if d.kind == "stmt" and isinstance(a, ast.Assign) and isinstance(a.value, ast.Constant) and isinstance(a.value.value, str):
                vals.add(a.value.value)
            else:
                return None
        if len(vals) == 1:
            return vals.pop()
    return None


def _sandwich_layouts(s: str) -> Optional[Set[str]]:
    """layouts of the *state* operand under which the literal contracts (row_i, col_i) pairs"""
    s = s.replace(" ", "")
    if "->" not in s:
        return None
    lhs, _ = s.split("->")
    parts = lhs.split(",")
    if len(parts) != 3:
        return None
    X, S, Y = parts
    cx = {p: S.index(c) for p, c in enumerate(X) if c in S}
    cy = {p: S.index(c) for p, c in enumerate(Y) if c in S}
    if set(cx) != set(cy) or not cx or len(S) % 2:
        return None
    n = len(S) // 2
    out = set()
    if all(cx[p] < n and cy[p] == cx[p] + n for p in cx):
        out.add("blocked")
    if all(cx[p] % 2 == 0 and cy[p] == cx[p] + 1 for p in cx):
        out.add("interleaved")
    return out


@rule("LAYOUT")
def layout(repo: Repo) -> List[Ob]:
    obs: List[Ob] = []
    n_checked = 0
    for q in FUNCS:
        fi = repo.func(q)
        props = _props(fi)
        cfg = CFG(fi.node)
        ls = _LS(fi, cfg)
        tracked: Set[str] = set()
        for n in walk_no_nested(fi.node):
            if isinstance(n, ast.Assign) and isinstance(n.targets[0], ast.Name):
                tracked.add(n.targets[0].id)

        def get(st, k):
            for a, b in st:
                if a == k:
                    return b
            return None

        def put(st, k, v):
            d = dict(st)
            d[k] = v
            return tuple(sorted(d.items()))

        reported: Dict[Tuple[int, str], Tuple[ast.AST, str]] = {}

        def transfer(s: Node, lab, d, st):
            a = s.ast
            if s.kind == "stmt" and isinstance(a, (ast.Assign, ast.AugAssign)):
                env = dict(st)
                before = len(ls.events)
                if isinstance(a, ast.Assign):
                    tgt = a.targets[0]
                    # shape lists: reshape_shape = [-1, -1] ; reshape_shape = [*x, *x]
                    if isinstance(tgt, ast.Name) and isinstance(a.value, (ast.List,)):
                        k = ls.shape_kind(a.value, env)
                        st = put(st, "#" + tgt.id, k if k == "BLOCKED" else "NONINT")
                    elif isinstance(tgt, ast.Name) and isinstance(a.value, ast.ListComp):
                        st = put(st, "#" + tgt.id, "NONINT")
                    lay = ls.layout(a.value, env, a)
                    if isinstance(tgt, ast.Name):
                        st = put(st, tgt.id, lay)
                    elif isinstance(tgt, ast.Attribute) and tgt.attr == "state":
                        ls.checked.append((a, "commit"))
                        if lay.startswith("INTER"):
                            ls.events.append((a, "store-interleaved", f"`{src(tgt)}` receives a tensor that is still in interleaved layout"))
                else:
                    lay = ls.layout(a.value, env, a)
                for ev in ls.events[before:]:
                    reported[(getattr(ev[0], "lineno", 0), ev[1])] = (ev[0], ev[2])
                del ls.events[before:]
            elif s.kind == "stmt" and isinstance(a, ast.Expr):
                mc = method_call(a.value)
                if mc and mc[1] == "append" and isinstance(mc[0], ast.Name) and get(st, "#" + mc[0].id) is not None:
                    st = put(st, "#" + mc[0].id, "KET")
            elif s.kind == "iter" and isinstance(s.stmt, ast.For):
                for t in ast.walk(s.stmt.target):
                    if isinstance(t, ast.Name):
                        st = put(st, t.id, "FLAT" if "operators" in src(s.stmt.iter) else "?")
            elif s.kind == "return" and a.value is not None:
                env = dict(st)
                before = len(ls.events)
                ls.layout(a.value, env, a)
                for ev in ls.events[before:]:
                    reported[(getattr(ev[0], "lineno", 0), ev[1])] = (ev[0], ev[2])
                del ls.events[before:]
            return [st]

        explore(cfg, tuple(), transfer, limit=400000)
        n_checked += len({(getattr(c[0], "lineno", 0), c[1]) for c in ls.checked})
        kinds: Dict[str, int] = {}
        # a stored density matrix whose rows/columns were scrambled is in general not Hermitian positive any more: also C07
        # … and the interleaved layout exists at Matrix level only: a scramble there and a correct ket path give different states for
        # the two contraction settings: also C08
        props = tuple(dict.fromkeys(tuple(props) + ("C07", "C08")))
        for (ln, kind), (node, msg) in sorted(reported.items()):
            kinds[kind] = kinds.get(kind, 0) + 1
            obs.append(bad("LAYOUT", fi, f"{kind}#{kinds[kind]}", props, node, msg))
        if not reported:
            obs.append(ok("LAYOUT", fi, "layout-typestate", props, fi.node,
                          f"{len({(getattr(c[0], 'lineno', 0), c[1]) for c in ls.checked})} flatten/commit/literal sites agree with the tensor layout on every path"))
    if n_checked < 25:
        raise AnalysisError(f"LAYOUT: {n_checked} checked sites (floor 25)")
    return obs


@rule("ENVAXIS")
def envaxis(repo: Repo) -> List[Ob]:
    obs: List[Ob] = []
    n = 0
    # (1) first-axis contractions are dominated by self.reorder(*states)
    for q in ["Envelope.apply_operation", "Envelope.apply_kraus", "Envelope.measure_POVM"]:
        fi = repo.func(q)
        props = _props(fi)
        cfg = CFG(fi.node)
        ro = {nd for nd in cfg.nodes for x in walk_node(nd) if method_call(x) and method_call(x)[1] == "reorder" and src(method_call(x)[0]) == "self"
              and x.args and isinstance(x.args[0], ast.Starred)}
        k = 0
        for nd in cfg.nodes:
            for x in walk_node(nd):
                if isinstance(x, ast.Call) and call_np(x) == "einsum" and len(x.args) in (3, 4):
                    lit = _lit(x.args[0], cfg, x)
                    if not lit or "->" not in lit:
                        continue
                    parts = lit.replace(" ", "").split("->")[0].split(",")
                    if len(parts) != len(x.args) - 1:
                        continue
                    X, S = parts[0], parts[1]
                    if len(X) != 2 or len(S) < 3:
                        continue          # whole-space operator (both members): no target axis involved
                    k += 1
                    n += 1
                    key = f"target-first#{k}"
                    pos = [S.index(c) for c in X if c in S]
                    problems = []
                    if pos != [0]:
                        problems.append(f'"{lit}" contracts the operator with state axis {pos} – the envelope convention is: reorder the target to tensor position 0, contract axis 0')
                    if not ro or not cfg.must_pass_through(nd, ro):
                        problems.append("no `self.reorder(*states)` dominates this first-axis contraction: with the target stored second the operator acts on the other member")
                    (obs.append(bad("ENVAXIS", fi, key, props, x, "; ".join(problems))) if problems else
                     obs.append(ok("ENVAXIS", fi, key, props, x, "target is reordered to position 0 before the first-axis contraction")))
    # (1b) Envelope.reorder() is a no-op while the members are not combined: a combine() must be followed by the
    #      reorder before any operator is contracted, otherwise operands given as (polarization, fock) bind in storage order
    for q in ["Envelope.apply_kraus", "Envelope.measure_POVM", "Envelope.trace_out"]:
        fi = repo.func(q)
        props = tuple(dict.fromkeys(_props(fi) + ("C02",)))     # automatic combining/reordering must not change the physics
        cfg = CFG(fi.node)
        comb = [nd for nd in cfg.nodes for x in walk_node(nd) if method_call(x) and method_call(x)[1] == "combine" and src(method_call(x)[0]) == "self"]
        ro = {nd for nd in cfg.nodes for x in walk_node(nd) if method_call(x) and method_call(x)[1] == "reorder" and src(method_call(x)[0]) == "self"}
        uses = [nd for nd in cfg.nodes for x in walk_node(nd) if isinstance(x, ast.Call) and call_np(x) == "einsum"]
        for i, c in enumerate(comb, 1):
            n += 1
            reach = cfg.reachable([m for m, _ in cfg.succ[c]], blocked=ro)
            hit = [u for u in uses if u in reach]
            (obs.append(bad("ENVAXIS", fi, f"combine-then-reorder#{i}", props, c.ast,
                            "after self.combine() the tensor is contracted without a following self.reorder(*states) (a reorder *before* combine() is a no-op on an uncombined envelope): "
                            "operands given as (polarization, fock) are bound in storage order (fock, polarization)")) if hit else
             obs.append(ok("ENVAXIS", fi, f"combine-then-reorder#{i}", props, c.ast, "the requested order is established after combining")))
    # (2) member-consistent filling of shape/order lists:  L[self.X.index] = self.X(.dimensions)
    for fi in [f for f in repo.scan_functions() if f.cls is not None and f.cls.name == "Envelope"] + [repo.func("CompositeEnvelope.combine")]:
        props = _props(fi) if fi.cls.name == "Envelope" else ("C02",)
        k = 0
        for a in walk_no_nested(fi.node):
            if isinstance(a, ast.Assign) and isinstance(a.targets[0], ast.Subscript) and isinstance(a.targets[0].slice, ast.Attribute) and a.targets[0].slice.attr == "index":
                k += 1
                n += 1
                who = src(a.targets[0].slice.value)
                val = src(a.value)
                members = {"self.fock", "self.polarization", "so.envelope.fock", "so.envelope.polarization"}
                others = [m for m in members if m != who and m in val and not (who in m)]
                good = not others
                if who.endswith("polarization") and isinstance(a.value, ast.Constant) and a.value.value == 2:
                    good = True
                (obs.append(ok("ENVAXIS", fi, f"slot-fill#{k}", props, a, f"slot of {who} is filled with {who}'s own value")) if good else
                 obs.append(bad("ENVAXIS", fi, f"slot-fill#{k}", props, a, f"`{src(a)[:70]}`: the slot addressed by {who}.index is filled with another member's value")))
    if n < 20:
        raise AnalysisError(f"ENVAXIS: {n} sites (floor 20)")
    return obs


INVALIDATORS_SELF = {"reorder", "trace_out", "combine", "expand", "contract", "resize_fock", "measure", "measure_POVM", "apply_kraus", "apply_operation"}


@rule("STALE-VIEW")
def stale_view(repo: Repo) -> List[Ob]:
    """a tensor view / shape list derived from the stored state and the member indices is not used after a call
    that may rewrite them (reorder, trace_out – which reorders –, combine, expand, resize …)"""
    obs: List[Ob] = []
    n_fn = 0
    for cname in ("Envelope", "ProductState"):
        for mname, fi in repo.cls(cname).methods.items():
            if mname in ("__repr__", "__init__") or fi.qualname in getattr(repo, "absorbed", ()):
                continue          # a helper inlined at every call site is analysed there, with the caller's ordering context
            fn = fi.node
            if "self.state" not in src(fn):
                continue
            props = {"apply_operation": ("C01",), "apply_kraus": ("C06",), "measure_POVM": ("C09",), "resize_fock": ("C10",), "trace_out": ("C02",),
                     "measure": ("C04", "C05"), "reorder": ("C02",)}.get(mname, ("C07",))
            cfg = CFG(fn)
            n_fn += 1

            def derived(v: ast.AST, live) -> bool:
                if isinstance(v, ast.Call) and isinstance(v.func, ast.Name) and v.func.id in ("int", "float", "bool", "len", "str"):
                    return False          # scalars drawn from the state are not views of it
                if isinstance(v, ast.Tuple) and v.elts and isinstance(v.elts[-1], ast.Call) and isinstance(v.elts[-1].func, ast.Name) and v.elts[-1].func.id in ("int", "float", "bool", "len"):
                    return False
                for x in ast.walk(v):
                    if isinstance(x, ast.Attribute) and x.attr == "state" and src(x.value) == "self":
                        return True
                    if isinstance(x, ast.Attribute) and x.attr == "index" and src(x.value).startswith("self."):
                        return True
                    if isinstance(x, ast.Name) and x.id in live:
                        return True
                return False

            found: Dict[int, Tuple[ast.AST, str, str]] = {}

            def transfer(s: Node, lab, d, st):
                live, stale, ordered = st        # frozensets of names; argument text of the reorder() already in force
                a = s.ast
                # uses of stale names (before this node's own invalidation / redefinition)
                if s.kind in ("stmt", "return", "test") and a is not None:
                    tgt_names = set()
                    if s.kind == "stmt" and isinstance(a, ast.Assign):
                        for t in a.targets:
                            tgt_names |= {x.id for x in ast.walk(t) if isinstance(x, ast.Name) and isinstance(x.ctx, ast.Store)}
                    for x in walk_node(s):
                        if isinstance(x, ast.Name) and isinstance(x.ctx, ast.Load) and x.id in stale:
                            found.setdefault(getattr(x, "lineno", 0), (x, x.id, dict(stale_by).get(x.id, "?")))
                # invalidation
                inv = None
                for x in walk_node(s):
                    mc = method_call(x)
                    if mc and ((src(mc[0]) == "self" and mc[1] in INVALIDATORS_SELF) or (src(mc[0]) != "self" and mc[1] == "resize" and not isinstance(mc[0], ast.Name) or (mc[1] == "resize" and isinstance(mc[0], ast.Subscript)))):
                        args = ",".join(src(a) for a in x.args)
                        if src(mc[0]) == "self" and mc[1] in ("reorder", "trace_out") and ordered is not None and ordered == args:
                            continue      # the requested order is already in force: the reorder inside is a no-op
                        inv = f"{src(x.func)}()"
                        ordered = args if (src(mc[0]) == "self" and mc[1] in ("reorder", "trace_out")) else None
                if inv:
                    for nm in live:
                        stale_by.append((nm, inv))
                    stale = stale | live
                    live = frozenset()
                # definitions
                if s.kind == "stmt" and isinstance(a, ast.Assign) and len(a.targets) == 1:
                    t = a.targets[0]
                    if isinstance(t, ast.Name):
                        if derived(a.value, live) and not inv:
                            live = live | {t.id}
                            stale = stale - {t.id}
                        else:
                            live = live - {t.id}
                            stale = stale - {t.id}
                    elif isinstance(t, ast.Subscript) and isinstance(t.value, ast.Name) and derived(ast.Tuple(elts=[t.slice, a.value], ctx=ast.Load()), live):
                        if t.value.id not in stale:
                            live = live | {t.value.id}
                if s.kind == "iter" and isinstance(s.stmt, ast.For):
                    for x in ast.walk(s.stmt.target):
                        if isinstance(x, ast.Name):
                            live, stale = live - {x.id}, stale - {x.id}
                return [(live, stale, ordered)]

            stale_by: List[Tuple[str, str]] = []
            explore(cfg, (frozenset(), frozenset(), None), transfer, limit=400000)
            if found:
                for k, (ln, (x, nm, by)) in enumerate(sorted(found.items()), 1):
                    if k > 3:
                        break
                    obs.append(bad("STALE-VIEW", fi, f"stale:{nm}#{k}", props, x,
                                   f"`{nm}` was derived from self.state / the member indices before `{by}` – which may reorder or resize the stored state – and is used afterwards: "
                                   "the view no longer matches the stored tensor and the indices"))
            else:
                obs.append(ok("STALE-VIEW", fi, "views-fresh", props, fn, "no tensor view or shape list is used after a call that may rewrite the stored state"))
    if n_fn < 15:
        raise AnalysisError(f"STALE-VIEW: {n_fn} functions (floor 15)")
    return obs


PS_ACTIONS = {"apply_kraus", "measure_POVM", "trace_out", "apply_operation", "resize_fock", "measure"}


@rule("STALE-PS")
def stale_ps(repo: Repo) -> List[Ob]:
    """a product-space handle fetched before a call that may merge product spaces (reorder -> combine) is not used afterwards,
    unless the targets are already known to share one product space"""
    from ..cfg import refine
    from ..types import Typer
    obs: List[Ob] = []
    table = {"apply_kraus": ("C06",), "measure_POVM": ("C09",), "trace_out": ("C02",), "apply_operation": ("C01", "C03"), "resize_fock": ("C10",)}
    n = 0
    for mname, props in table.items():
        fi = repo.func(f"CompositeEnvelope.{mname}")
        typer = Typer(repo, fi)
        cfg = CFG(fi.node)
        handles = {nm for nm, cl in typer.var.items() if cl == {"ProductState"}}
        # … and names the code itself narrows with `assert isinstance(x, ProductState)`
        handles |= {a.test.args[0].id for a in walk_no_nested(fi.node) if isinstance(a, ast.Assert) and isinstance(a.test, ast.Call) and src(a.test.func) == "isinstance"
                    and len(a.test.args) == 2 and isinstance(a.test.args[0], ast.Name) and src(a.test.args[1]) == "ProductState"}

        # lists of product spaces looked up from the registry (`ps = [p for p in self.states if …]`), used as `ps[0].action(…)`
        list_handles = {a.targets[0].id for a in walk_no_nested(fi.node) if isinstance(a, ast.Assign) and len(a.targets) == 1 and isinstance(a.targets[0], ast.Name)
                        and isinstance(a.value, ast.ListComp) and any(src(g_.iter) in ("self.states", "self.product_states") for g_ in a.value.generators)}
        handles -= list_handles

        def atom(e, truth, st):
            fresh, grouped = st
            if isinstance(e, ast.Call) and isinstance(e.func, ast.Name) and e.func.id == "all" and ".state_objs" in src(e) and truth:
                return [(fresh, True)]
            return [st]

        def transfer(s: Node, lab, d, st):
            fresh, grouped = st
            if s.kind in ("test", "assert") and lab in ("T", "F"):
                return refine(s.ast, lab == "T", st, atom)
            for x in walk_node(s):
                mc = method_call(x)
                if mc and src(mc[0]) == "self" and mc[1] == "combine":
                    fresh, grouped = frozenset(), True
                if mc and src(mc[0]) == "self" and mc[1] == "reorder":
                    single = len(x.args) == 1 and not isinstance(x.args[0], ast.Starred)
                    if not grouped and not single:
                        fresh = frozenset()
                    grouped = True
            a = s.ast
            if s.kind == "stmt" and isinstance(a, (ast.Assign, ast.AnnAssign)) and getattr(a, "value", None) is not None:
                tg = a.targets[0] if isinstance(a, ast.Assign) else a.target
                if isinstance(tg, (ast.Tuple, ast.List)):
                    # (only,) = <fresh look-up>
                    for e in tg.elts:
                        if isinstance(e, ast.Name) and e.id in handles:
                            v = a.value
                            if isinstance(v, ast.Name) and v.id in stale_lists.get(id(st), set()):
                                fresh = fresh - {e.id}
                            else:
                                fresh = fresh | {e.id}
                if isinstance(tg, ast.Name) and tg.id in list_handles:
                    fresh = (fresh | {tg.id}) if isinstance(a.value, ast.ListComp) else (fresh - {tg.id})
                if isinstance(tg, ast.Name) and tg.id in handles:
                    v = a.value
                    if isinstance(v, ast.Name) and v.id in handles:
                        fresh = (fresh | {tg.id}) if v.id in fresh else (fresh - {tg.id})
                    elif isinstance(v, ast.Subscript) and isinstance(v.value, ast.Name) and v.value.id in list_handles:
                        fresh = (fresh | {tg.id}) if v.value.id in fresh else (fresh - {tg.id})
                    else:
                        fresh = fresh | {tg.id}
            return [(fresh, grouped)]

        stale_lists: Dict[int, set] = {}
        seen = explore(cfg, (frozenset(), False), transfer)
        k = 0
        for node in cfg.nodes:
            for x in walk_node(node):
                mc = method_call(x)
                if mc and mc[1] in PS_ACTIONS and isinstance(mc[0], ast.Subscript) and isinstance(mc[0].value, ast.Name) and mc[0].value.id in list_handles:
                    mc = (mc[0].value, mc[1])
                if mc and isinstance(mc[0], ast.Name) and mc[0].id in (handles | list_handles) and mc[1] in PS_ACTIONS:
                    k += 1
                    n += 1
                    stale = [st for st in seen[node] if mc[0].id not in st[0]]
                    key = f"handle:{mc[1]}#{k}"
                    (obs.append(bad("STALE-PS", fi, key, props, x,
                                    f"`{mc[0].id}` was fetched before `self.reorder(…)`, which merges product spaces when the targets do not yet share one: with one target inside a product space and "
                                    f"another still on its own, `{mc[0].id}` is the emptied old product space")) if stale else
                     obs.append(ok("STALE-PS", fi, key, props, x, "the product-space handle is fetched after the last call that can merge product spaces")))
    if n < 5:
        raise AnalysisError(f"STALE-PS: {n} product-space handle uses (floor 5)")
    return obs


@rule("DTYPE")
def dtype(repo: Repo) -> List[Ob]:
    """amplitudes are never written into a freshly created *real* buffer: `jnp.zeros(shape).at[...].set(<state>)`
    silently drops imaginary parts (JAX casts to the buffer's dtype)"""
    from .struct import state_functions
    from ..scope import single_def_value
    obs: List[Ob] = []
    n = 0
    for fi in state_functions(repo):
        name = fi.node.name
        props = {"apply_operation": ("C01", "C07"), "resize": ("C10", "C07"), "resize_fock": ("C10", "C07"), "measure": ("C05", "C07"), "measure_POVM": ("C09", "C07"),
                 "apply_kraus": ("C06", "C07"), "expand": ("C08", "C07"), "contract": ("C08", "C07"), "combine": ("C02", "C07"), "reorder": ("C02", "C07"), "trace_out": ("C02",)}.get(name, ("C07",))
        k = 0
        for x in walk_no_nested(fi.node):
            mc = method_call(x)
            if not (mc and mc[1] in ("set", "add", "multiply") and isinstance(mc[0], ast.Subscript) and isinstance(mc[0].value, ast.Attribute) and mc[0].value.attr == "at" and x.args):
                continue
            buf = mc[0].value.value
            if isinstance(buf, ast.Name):
                v = single_def_value(fi.node, buf.id)
                if v is None:
                    from ..scope import assignments_to
                    ds = [d for d in assignments_to(fi.node, buf.id) if getattr(d, "lineno", 0) < x.lineno and isinstance(d, ast.Assign)]
                    v = ds[-1].value if ds else None
                buf = v if v is not None else buf
            real_buffer = isinstance(buf, ast.Call) and call_np(buf) in ("zeros", "ones", "empty", "full") \
                and not any(kw.arg == "dtype" and "complex" in src(kw.value) for kw in buf.keywords) \
                and not (len(buf.args) > 1 and "complex" in src(buf.args[-1]))
            if not real_buffer:
                continue
            k += 1
            n += 1
            val = x.args[0]
            const = isinstance(val, ast.Constant) or (isinstance(val, ast.UnaryOp) and isinstance(val.operand, ast.Constant))
            key = f"real-buffer-write#{k}"
            (obs.append(ok("DTYPE", fi, key, props, x, "a real constant is written into a real buffer")) if const else
             obs.append(bad("DTYPE", fi, key, props, x,
                            f"`{src(val)[:40]}` is written into a buffer created by `{src(buf)[:40]}` (real dtype): complex amplitudes are silently cast to their real part")))
    if n < 3:
        raise AnalysisError(f"DTYPE: {n} writes into freshly created buffers (floor 3)")
    return obs
