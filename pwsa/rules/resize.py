"""RESIZE – truncation guards (DESIGN §3, property C10)."""
from __future__ import annotations

import ast
from fractions import Fraction
from typing import Dict, List, Optional, Set, Tuple

from ..cfg import CFG, Node, explore, refine, resolve_at, walk_node
from ..domains import LevelTracker
from ..model import AnalysisError, FuncInfo, Repo, call_np, dotted, method_call, src, walk_no_nested
from ..report import Ob, bad, ok, skip
from ..scope import assignments_to
from . import rule

RESIZERS = ["Fock.resize", "Envelope.resize_fock", "ProductState.resize_fock"]


def _linear(e: ast.AST, syms: Dict[str, str]) -> Optional[Dict[str, Fraction]]:
    """linear form over symbols {'nq','nd','dim'} and constant '1'"""
    t = src(e)
    if t in syms:
        return {syms[t]: Fraction(1)}
    if isinstance(e, ast.Name) and e.id in syms.get("@defs", {}) and e.id not in syms.get("@busy", set()):
        # a once-bound local (`missing = new_dimensions - self.dimensions`) stands for its definition
        busy = syms.setdefault("@busy", set())
        busy.add(e.id)
        try:
            return _linear(syms["@defs"][e.id], syms)
        finally:
            busy.discard(e.id)
    if isinstance(e, ast.Call) and (dotted(e.func) or "").split(".")[-1] in ("num_quanta_vector", "num_quanta_matrix"):
        return {"nq": Fraction(1)}           # the highest occupied level, read in place
    if isinstance(e, ast.Attribute) and e.attr == "_num_quanta":
        return {"nq": Fraction(1)}
    if isinstance(e, ast.Constant) and isinstance(e.value, int) and not isinstance(e.value, bool):
        return {"1": Fraction(e.value)}
    if isinstance(e, ast.Call) and isinstance(e.func, ast.Name) and e.func.id == "int" and len(e.args) == 1:
        return _linear(e.args[0], syms)
    if isinstance(e, ast.BinOp) and isinstance(e.op, (ast.Add, ast.Sub)):
        a, b = _linear(e.left, syms), _linear(e.right, syms)
        if a is None or b is None:
            return None
        out = dict(a)
        sg = 1 if isinstance(e.op, ast.Add) else -1
        for k, v in b.items():
            out[k] = out.get(k, 0) + sg * v
        return out
    if isinstance(e, ast.UnaryOp) and isinstance(e.op, ast.USub):
        a = _linear(e.operand, syms)
        return None if a is None else {k: -v for k, v in a.items()}
    return None


def _cmp_facts(e: ast.AST, truth: bool, syms) -> Tuple[Optional[bool], Optional[bool]]:
    """(safe, grow): safe=True if the outcome implies nq <= nd-1 (nothing occupied is cut);
    grow=True/False if it decides new_dimensions > current dims"""
    if not (isinstance(e, ast.Compare) and len(e.ops) == 1):
        return None, None
    l, r = _linear(e.left, syms), _linear(e.comparators[0], syms)
    if l is None or r is None:
        return None, None
    d = dict(l)
    for k, v in r.items():
        d[k] = d.get(k, 0) - v
    d = {k: v for k, v in d.items() if v != 0 or k == "1"}
    c = d.pop("1", Fraction(0))
    op = type(e.ops[0])
    # normalise to  (form) ⋈ -c  i.e. form + c ⋈ 0
    neg = {ast.Lt: ast.GtE, ast.LtE: ast.Gt, ast.Gt: ast.LtE, ast.GtE: ast.Lt, ast.Eq: ast.NotEq, ast.NotEq: ast.Eq}
    if not truth:
        op = neg.get(op)
    if op is None:
        return None, None
    safe = grow = None
    keys = set(d)
    if keys == {"nq", "nd"} and d["nq"] == -d["nd"]:
        s = 1 if d["nq"] > 0 else -1
        # s*(nq - nd)*|a| + c ⋈ 0 ; integers, |a| == 1 assumed
        if abs(d["nq"]) == 1:
            # want: nq - nd <= -1
            if s == 1:
                # (nq - nd) + c ⋈ 0
                if op is ast.Lt:      # nq-nd < -c  -> nq-nd <= -c-1
                    safe = (-c - 1) <= -1
                elif op is ast.LtE:
                    safe = (-c) <= -1
                else:
                    safe = False if op in (ast.Gt, ast.GtE) else None
            else:
                # -(nq - nd) + c ⋈ 0  ->  nq - nd ⋈' c
                if op is ast.Gt:      # -(x)+c > 0 -> x < c -> x <= c-1
                    safe = (c - 1) <= -1
                elif op is ast.GtE:   # x <= c
                    safe = c <= -1
                else:
                    safe = False if op in (ast.Lt, ast.LtE) else None
    if keys == {"nd", "dim"} and d["nd"] == -d["dim"] and abs(d["nd"]) == 1 and c == 0:
        s = 1 if d["nd"] > 0 else -1
        # s*(nd - dim) ⋈ 0
        if (s == 1 and op is ast.Gt) or (s == -1 and op is ast.Lt):
            grow = True
        elif (s == 1 and op in (ast.LtE, ast.Lt)) or (s == -1 and op in (ast.GtE, ast.Gt)):
            grow = False
        elif op is ast.Eq:
            grow = False
    return safe, grow


@rule("RESIZE")
def resize(repo: Repo) -> List[Ob]:
    obs: List[Ob] = []
    P = ("C10",)
    PC = ("C10", "C17", "C07")     # a cut through occupied levels is also an un-rejected invalid request and an invalid stored state
    n_commit = 0
    targets = [repo.func(q) for q in RESIZERS]
    # private helpers of the same classes that commit `<x>.dimensions = <their parameter>` are resize bodies too
    for q in RESIZERS:
        ci = repo.func(q).cls
        for mname, m in ci.methods.items():
            if m in targets or not mname.startswith("_") or mname.startswith("__") or m.qualname in getattr(repo, "absorbed", ()):
                continue
            ps_ = [p_ for p_ in m.params if p_ not in ("self", "cls")]
            if ps_ and any(isinstance(a_, ast.Assign) and any(isinstance(t_, ast.Attribute) and t_.attr in ("dimensions", "_dimensions") for t_ in a_.targets) and src(a_.value) in ps_
                           for a_ in walk_no_nested(m.orig or m.node)):
                targets.append(m)
    for fi in targets:
        q = fi.qualname
        fn = fi.node
        nd = None
        for p_ in fi.params:
            if p_ not in ("self", "cls") and any(isinstance(a_, ast.Assign) and src(a_.value) == p_ and any(isinstance(t_, ast.Attribute) and t_.attr in ("dimensions", "_dimensions") for t_ in a_.targets) for a_ in walk_no_nested(fn)):
                nd = p_
        if nd is None:
            nd = fi.params[1] if fi.params and fi.params[0] == "self" and len(fi.params) > 1 else (fi.params[0] if fi.params else "new_dimensions")
        label_only = any(isinstance(x, ast.Assert) and src(x.test).replace(" ", "") == "isinstance(self.state,int)" for x in fn.body)
        # symbols
        syms: Dict[str, str] = {nd: "nd"}
        for n in walk_no_nested(fn):
            if isinstance(n, ast.Assign) and isinstance(n.targets[0], ast.Name) and isinstance(n.value, ast.Call):
                f = src(n.value.func)
                if f.split(".")[-1] in ("num_quanta_vector", "num_quanta_matrix"):
                    syms[n.targets[0].id] = "nq"
            # nq = num_quanta_matrix(x) if <matrix> else num_quanta_vector(x)
            if isinstance(n, ast.Assign) and isinstance(n.targets[0], ast.Name) and isinstance(n.value, ast.IfExp) \
                    and all(isinstance(v_, ast.Call) and src(v_.func).split(".")[-1] in ("num_quanta_vector", "num_quanta_matrix") for v_ in (n.value.body, n.value.orelse)):
                syms[n.targets[0].id] = "nq"
            if isinstance(n, ast.Assign) and isinstance(n.targets[0], ast.Name) and isinstance(n.value, ast.Attribute) and n.value.attr == "_num_quanta":
                syms[n.targets[0].id] = "nq"
        for d in ("self.dimensions", "self.fock.dimensions", "fock.dimensions"):
            syms[d] = "dim"
        for n in walk_no_nested(fn):
            if isinstance(n, ast.Assign) and isinstance(n.targets[0], ast.Name) and src(n.value) in ("self.dimensions", "self.fock.dimensions", "fock.dimensions"):
                syms[n.targets[0].id] = "dim"
        if fi.cls is not None and fi.cls.name == "Fock":
            syms["self.state"] = "nq"       # the label *is* the highest occupied level
            syms["self._num_quanta"] = "nq"
        from ..model import single_defs
        syms["@defs"] = {k_: v_ for k_, v_ in single_defs(fn).items() if k_ not in syms}
        cfg = CFG(fn)
        lt = LevelTracker(["self"], {"self": frozenset({0})} if label_only else ({"self": frozenset({1, 2})} if not (fi.cls is not None and fi.cls.name == "Fock") else {}))

        def atom(e, truth, st):
            safe, grow, sw, dw, lv = st
            s2, g2 = _cmp_facts(e, truth, syms)
            if g2 is not None:
                if grow is not None and grow != g2:
                    return []
                grow = g2
            if s2 is True:
                safe = True
            outs = lt.atom(e, truth, lv)
            return [(safe, grow, sw, dw, o) for o in outs]

        def transfer(s, lab, d, st):
            safe, grow, sw, dw, lv = st
            a = s.ast
            if s.kind == "stmt" and isinstance(a, (ast.Assign, ast.AugAssign)):
                targets = a.targets if isinstance(a, ast.Assign) else [a.target]
                for t in targets:
                    if isinstance(t, ast.Attribute) and t.attr == "state":
                        sw = True
                    if isinstance(t, ast.Attribute) and t.attr in ("dimensions", "_dimensions"):
                        dw = True
            if s.kind in ("test", "assert") and lab in ("T", "F"):
                # locals are read through their (unique) reaching definition at this test; the symbols of the linear forms are kept
                test = resolve_at(cfg, s, s.ast, keep={k_ for k_ in syms if not k_.startswith("@")})
                return refine(test, lab == "T", (safe, grow, sw, dw, lv), atom)
            lv2 = lt.exec_node(s, lv) if s.kind == "stmt" else lv
            return [(safe, grow, sw, dw, lv2)]

        seen = explore(cfg, (False, None, False, False, lt.init), transfer)
        k = 0
        for n in cfg.nodes:
            a = n.ast
            if not (n.kind == "stmt" and isinstance(a, ast.Assign) and any(isinstance(t, ast.Attribute) and t.attr in ("dimensions", "_dimensions") for t in a.targets)):
                continue
            if src(a.value) != nd:
                continue
            k += 1
            n_commit += 1
            sts = seen[n]
            if not sts:
                continue
            levels: Set[int] = set()
            for st in sts:
                levels |= LevelTracker.get(st[4], "self")
            lname = "/".join(sorted({0: "Label", 1: "Vector", 2: "Matrix"}[x] for x in levels)) if len(levels) < 3 else "any"
            key = f"dimension-commit#{k}@{lname}"
            unsafe = [st for st in sts if st[1] is not True and not st[0]]
            if unsafe:
                obs.append(bad("RESIZE", fi, key, PC, a,
                               f"the dimension is set to `{nd}` on a path that may shrink the space without having established highest-occupied-level < {nd}: "
                               "occupied amplitudes are cut off and the call still reports success"))
            else:
                obs.append(ok("RESIZE", fi, key, PC, a, "shrinking is guarded by num_quanta < new_dimensions (or the path only grows)"))
        # (b') the guard looks at the occupation of *the space that is resized*: the Fock's own state, or its reduced state obtained through
        # trace_out (which finds the axis from the member's index); a reduction of the stored tensor over axes fixed in the source
        # presumes a storage order that must have been established first
        g = 0
        for n in cfg.nodes:
            for x in walk_node(n):
                if not (isinstance(x, ast.Call) and (dotted(x.func) or "").split(".")[-1] in ("num_quanta_vector", "num_quanta_matrix") and x.args):
                    continue
                g += 1
                key = f"guard-operand#{g}"
                arg = resolve_at(cfg, n, x.args[0], depth=4)
                base = arg
                while True:
                    if method_call(base) and method_call(base)[1] in ("reshape", "astype", "copy", "flatten", "ravel"):
                        base = method_call(base)[0]
                    elif isinstance(base, ast.Call) and call_np(base) in ("asarray", "array", "abs", "reshape", "real", "diag", "diagonal") and base.args:
                        base = base.args[0]
                    elif isinstance(base, ast.BinOp) and isinstance(base.op, ast.Pow):
                        base = base.left
                    else:
                        break
                fock_names = ("self.fock", "fock", "self") if not (fi.cls is not None and fi.cls.name == "Fock") else ("self",)
                mcb = method_call(base)
                if src(base) == "self.state" and fi.cls is not None and fi.cls.name == "Fock":
                    obs.append(ok("RESIZE", fi, key, PC, x, "the guard reads the Fock's own state"))
                elif mcb and mcb[1] == "trace_out":
                    recv = src(mcb[0])
                    sub = [src(a_) for a_ in base.args]
                    good = (recv in ("self.fock", "fock") and not sub) or (recv == "self" and ((fi.cls.name == "Fock" and not sub) or sub in (["self.fock"], ["fock"])))
                    (obs.append(ok("RESIZE", fi, key, PC, x, "the guard reads the reduced state of the Fock space that is resized")) if good else
                     obs.append(bad("RESIZE", fi, key, PC, x, f"the shrink guard reads `{src(base)[:50]}` – not the reduced state of the Fock space that is resized: its occupied levels are not the ones that would be cut")))
                else:
                    tensor_of_state = any(src(y) == "self.state" for y in ast.walk(arg))
                    fixed = tensor_of_state and not any(isinstance(y, ast.Attribute) and y.attr == "index" for y in ast.walk(arg))
                    if fixed and fi.cls is not None and fi.cls.name == "ProductState":
                        from .esc import order_established
                        local, n_callers, missing = order_established(repo, fi, n, cfg)
                        good = local or (n_callers > 0 and not missing)
                        (obs.append(ok("RESIZE", fi, key, PC, x, "fixed-axis reduction of the stored tensor, the storage order is established by every caller")) if good else
                         obs.append(bad("RESIZE", fi, key, PC, x,
                                        f"the shrink guard reduces the stored tensor over axes fixed in the source (`{src(arg)[:70]}`), but on which axis the Fock space sits is decided by state_objs at run time and "
                                        + (f"{', '.join(missing)} reach(es) this method without `self.reorder(<that Fock>)`" if missing else "no caller establishes the order")
                                        + ": the guard looks at another member's levels, occupied levels are cut and success is reported")))
                    else:
                        obs.append(skip("RESIZE", fi, key, PC, x, f"cannot read whose occupation `{src(arg)[:60]}` measures"))
        # (c) a successful return after a dimension write has also re-written the stored array (except labels)
        j = 0
        for n in cfg.nodes:
            if n.kind == "return" and isinstance(n.ast.value, ast.Constant) and n.ast.value.value is True:
                j += 1
                badst = [st for st in seen[n] if st[3] and not st[2] and LevelTracker.get(st[4], "self") != frozenset({0})]
                key = f"return-True#{j}"
                (obs.append(bad("RESIZE", fi, key, P, n.ast, "success is reported after the dimension changed but the stored array was not padded/sliced: reported dimension and array axis length disagree")) if badst else
                 obs.append(ok("RESIZE", fi, key, P, n.ast, "dimension and stored array change together")))
        # (d) padding is zero padding
        for i, c in enumerate([x for x in walk_no_nested(fn) if call_np(x) == "pad"], 1):
            mode = next((kw.value for kw in c.keywords if kw.arg == "mode"), None)
            cv = next((kw.value for kw in c.keywords if kw.arg == "constant_values"), None)
            if len(c.args) >= 3:
                mode = mode or c.args[2]
            good = (mode is None or (isinstance(mode, ast.Constant) and mode.value == "constant")) and (cv is None or (isinstance(cv, ast.Constant) and cv.value == 0))
            (obs.append(ok("RESIZE", fi, f"pad#{i}", P, c, "grown levels are filled with zeros")) if good else
             obs.append(bad("RESIZE", fi, f"pad#{i}", P, c, "growing the Fock space pads with something other than zeros: population appears in levels that were empty")))
            # (d') which axis grows: inside a product space the Fock's axis is named by its index; a pad whose axes are fixed in the source
            # (the flat stored array padded at its end = "the Fock is the leading factor") presumes an order that has to be established
            if fi.cls is not None and fi.cls.name == "ProductState" and len(c.args) >= 2:
                cfgx = c.args[1]
                by_index = any(isinstance(y, ast.Attribute) and y.attr == "index" for y in ast.walk(cfgx))
                if isinstance(cfgx, ast.Name):
                    by_index = by_index or any(isinstance(st_, ast.Assign) and isinstance(st_.targets[0], ast.Subscript) and src(st_.targets[0].value) == cfgx.id
                                               and any(isinstance(y, ast.Attribute) and y.attr == "index" for y in ast.walk(st_.targets[0].slice)) for st_ in walk_no_nested(fn))
                    by_index = by_index or any(isinstance(st_, ast.Assign) and len(st_.targets) == 1 and src(st_.targets[0]) == cfgx.id
                                               and any(isinstance(y, ast.Attribute) and y.attr == "index" for y in ast.walk(st_.value)) for st_ in walk_no_nested(fn))
                key_ax = f"pad-axis#{i}"
                if by_index:
                    obs.append(ok("RESIZE", fi, key_ax, PC, c, "the padded axis is the one the Fock's index names"))
                else:
                    from .esc import order_established
                    pn = cfg.node_containing(c)
                    local, n_callers, missing = order_established(repo, fi, pn, cfg)
                    good_o = local or (n_callers > 0 and not missing)
                    (obs.append(ok("RESIZE", fi, key_ax, PC, c, "fixed-axis padding, the storage order is established by every caller")) if good_o else
                     obs.append(bad("RESIZE", fi, key_ax, PC + ("C01", "C11"), c,
                                    f"`{src(c)[:60]}` grows axes fixed in the source (the end of the stored array = the *leading* factor), but on which axis the Fock space sits is decided by state_objs at run time and "
                                    + (f"{', '.join(missing)} reach(es) this method without `self.reorder(<that Fock>)` on every path" if missing else "no caller establishes the order")
                                    + ": growing a Fock space that is not the leading member scrambles the amplitudes, silently because the sizes still agree")))
    if n_commit < 6:
        raise AnalysisError(f"RESIZE: {n_commit} dimension commits (floor 6)")
    # routing of the composite entry: reorder(fock) precedes the product-space resize (fock.index[1] is used as axis)
    ce = repo.func("CompositeEnvelope.resize_fock")
    cfg = CFG(ce.node)
    calls = [n for n in cfg.nodes for x in walk_node(n) if method_call(x) and method_call(x)[1] == "resize_fock" and src(method_call(x)[0]) != "self"]
    if not calls:
        raise AnalysisError("RESIZE: CompositeEnvelope.resize_fock delegates nowhere")
    for i, c in enumerate(calls, 1):
        for x in walk_node(c):
            mc = method_call(x)
            if mc and mc[1] == "resize_fock":
                good = len(x.args) == 2 and src(x.args[0]) == ce.params[1] and src(x.args[1]) == ce.params[2]
                (obs.append(ok("RESIZE", ce, f"delegation#{i}", P, x, "product-space resize receives (new_dimensions, fock)")) if good else
                 obs.append(bad("RESIZE", ce, f"delegation#{i}", P, x, f"product-space resize is called with `{src(x)[:50]}`")))
    # the highest-occupied-level helpers: last non-zero index
    for hq, form in (("ops:num_quanta_vector", "vector"), ("ops:num_quanta_matrix", "matrix")):
        h = repo.func(hq)
        txt = repo.closure_src(h)
        uses_last = "[-1]" in txt and ("nonzero" in txt or "where" in txt)
        uses_max = "max(" in txt if form == "matrix" else True
        (obs.append(ok("RESIZE", h, "highest-occupied", P, h.node, "returns the last non-zero index")) if uses_last and uses_max else
         obs.append(bad("RESIZE", h, "highest-occupied", P, h.node, "no longer returns the *last* non-zero index (highest occupied level)")))
    return obs
