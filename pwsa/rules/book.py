"""BOOK – composite bookkeeping (order, create, evict, merge, own) – DESIGN §3."""
from __future__ import annotations

import ast
from typing import Dict, List, Optional, Set, Tuple

from ..cfg import CFG, Node, explore, refine, walk_node
from ..model import expand_src, AnalysisError, FuncInfo, Repo, dotted, method_call, src, walk_no_nested
from ..report import Ob, bad, note, ok, skip
from . import rule
from .struct import STATE_MODULES, state_functions


def _calls_named(cfg: CFG, name: str) -> List[Node]:
    out = []
    for n in cfg.nodes:
        for x in walk_node(n):
            mc = method_call(x)
            if mc and mc[1] == name:
                out.append(n)
                break
    return out


@rule("BOOK-order")
def book_order(repo: Repo) -> List[Ob]:
    obs: List[Ob] = []
    P = ("C13",)
    sites = 0
    for fi in state_functions(repo):
        if fi.node.name in ("remove_empty_product_states", "update_all_indices"):
            continue
        cfg = None
        if "remove_empty_product_states" not in src(fi.node) and "ProductState(" not in src(fi.node):
            continue
        cfg = CFG(fi.node)
        upd = set(_calls_named(cfg, "update_all_indices"))
        for i, n in enumerate(_calls_named(cfg, "remove_empty_product_states"), 1):
            sites += 1
            key = f"remove-then-refresh#{i}"
            # the slot index is the tensor axis that resize_fock pads / slices and the automatic resize before an operation uses: a stale one
            # makes the next resize cut or pad a neighbour's axis (stored state no longer normalised / of the claimed shape)
            PR = P + ("C07", "C10")
            if cfg.always_followed_by(n, upd):
                obs.append(ok("BOOK-order", fi, key, PR, n.ast, "indices are refreshed after emptied product spaces are removed"))
            else:
                obs.append(bad("BOOK-order", fi, key, PR, n.ast,
                               "remove_empty_product_states() is not followed by update_all_indices() on every path: surviving product spaces shift position (and the members that stay behind a measured one "
                               "move up one slot) while they keep the old (space, slot) index – the axis the next resize pads or slices"))
        # creation of a product space
        k = 0
        for n in cfg.nodes:
            if any(isinstance(x, ast.Call) and dotted(x.func) == "ProductState" for x in walk_node(n)):
                k += 1
                sites += 1
                key = f"create-then-refresh#{k}"
                if cfg.always_followed_by(n, upd):
                    obs.append(ok("BOOK-create", fi, key, P, n.ast, "a new product space is followed by an index refresh"))
                else:
                    obs.append(bad("BOOK-create", fi, key, P, n.ast, "a ProductState is created/appended without a following update_all_indices(): its members keep stale indices"))
    if sites < 3:
        raise AnalysisError(f"BOOK-order/create: {sites} sites (floor 3)")
    # the refresh itself: extract((space, slot)) for every member of every space + back pointer
    u = repo.func("CompositeEnvelopeContainer.update_all_indices")
    good = False
    for loop in [n for n in walk_no_nested(u.node) if isinstance(n, ast.For)]:
        if isinstance(loop.iter, ast.Call) and src(loop.iter.func) == "enumerate" and "self.states" in src(loop.iter):
            for inner in [n for n in ast.walk(loop) if isinstance(n, ast.For) and n is not loop]:
                if isinstance(inner.iter, ast.Call) and src(inner.iter.func) == "enumerate" and ".state_objs" in src(inner.iter):
                    o_idx = loop.target.elts[0].id if isinstance(loop.target, ast.Tuple) else None
                    i_idx = inner.target.elts[0].id if isinstance(inner.target, ast.Tuple) else None
                    for c in ast.walk(inner):
                        mc = method_call(c)
                        if mc and mc[1] in ("extract", "set_index") and c.args:
                            a0 = c.args[0]
                            if isinstance(a0, ast.Tuple) and len(a0.elts) == 2 and src(a0.elts[0]) == o_idx and src(a0.elts[1]) == i_idx:
                                good = True
    (obs.append(ok("BOOK-order", u, "refresh-formula", P, u.node, "every member gets (product-space position, tensor position)")) if good else
     obs.append(bad("BOOK-order", u, "refresh-formula", P, u.node, "update_all_indices no longer assigns (space index, slot index) from the two enumerations")))
    sets_ce = any(isinstance(n, ast.Attribute) and n.attr == "composite_envelope" and isinstance(n.ctx, ast.Store) for n in walk_no_nested(u.node))
    if sets_ce:
        # path form: whenever a member's index is refreshed, its back pointer is (re)written before the next member is looked at
        ucfg = CFG(u.node)
        ext = [nd for nd in ucfg.nodes for x in walk_node(nd) if method_call(x) and method_call(x)[1] in ("extract", "set_index")]
        bp = {nd for nd in ucfg.nodes if nd.kind == "stmt" and isinstance(nd.ast, ast.Assign) and any(isinstance(t, ast.Attribute) and t.attr == "composite_envelope" for t in nd.ast.targets)}
        heads = {nd for nd in ucfg.nodes if nd.kind == "iter"} | {ucfg.exit}
        for e in ext:
            if ucfg.reachable([m for m, _ in ucfg.succ[e]], blocked=bp) & heads:
                sets_ce = False
    (obs.append(ok("BOOK-order", u, "refresh-backpointer", P, u.node, "members are pointed back to the composite")) if sets_ce else
     obs.append(bad("BOOK-order", u, "refresh-backpointer", P, u.node, "update_all_indices does not (re)write the member's composite_envelope for every member it re-indexes: after a merge, members keep pointing to the composite they were in before")))
    r = repo.func("CompositeEnvelopeContainer.remove_empty_product_states")
    copy_iter = any(isinstance(n, ast.For) and (isinstance(n.iter, ast.Subscript) or (isinstance(n.iter, ast.Call) and src(n.iter.func) in ("list", "tuple"))) for n in walk_no_nested(r.node))
    rebuild = any(isinstance(n, ast.Assign) and any("self.states" == src(t) for t in n.targets) for n in walk_no_nested(r.node))
    (obs.append(ok("BOOK-order", r, "remove-iterates-copy", P, r.node, "removal iterates over a copy")) if copy_iter or rebuild else
     obs.append(bad("BOOK-order", r, "remove-iterates-copy", P, r.node, "remove_empty_product_states removes from the list it iterates: every second empty space is skipped")))
    return obs


def _effective_set_measured(repo: Repo, cname: str) -> Tuple[bool, bool]:
    fi = repo.resolve_method(cname, "_set_measured")
    if fi is None:
        return False, False
    idx = st = False
    for n in walk_no_nested(fi.node):
        if isinstance(n, ast.Assign):
            for t in n.targets:
                if isinstance(t, ast.Attribute) and src(t.value) == "self":
                    if t.attr in ("index", "_index") and isinstance(n.value, ast.Constant) and n.value.value is None:
                        idx = True
                    if t.attr == "state":
                        st = True
    return idx, st


@rule("BOOK-evict")
def book_evict(repo: Repo) -> List[Ob]:
    """every member removed from a product space gets index None and a defined state, for every
    class the member may have on that path"""
    obs: List[Ob] = []
    P = ("C13", "C05", "C07")      # an evicted member with state None / a stale index / a stale level tag is not a valid stored state either
    fi = repo.func("ProductState.measure")
    cfg = CFG(fi.node)
    eff = {c: _effective_set_measured(repo, c) for c in ("Fock", "Polarization", "CustomState")}
    # eviction sites: self.state_objs.remove(V)
    sites = []
    for n in cfg.nodes:
        for x in walk_node(n):
            mc = method_call(x)
            if mc and mc[1] == "remove" and src(mc[0]) == "self.state_objs" and x.args and isinstance(x.args[0], ast.Name):
                sites.append((n, x.args[0].id))
    if len(sites) < 1:
        raise AnalysisError("BOOK-evict: no eviction site in ProductState.measure")
    # one eviction per level branch: a measured member leaves its product space at both levels
    n_loops = len([x for x in walk_no_nested(fi.node) if isinstance(x, ast.For) and "states" in src(x.iter)])
    if len(sites) < n_loops:
        obs.append(bad("BOOK-evict", fi, "evict-missing", ("C05", "C13", "C20"), fi.node,
                       f"{n_loops} per-subsystem measurement loops but only {len(sites)} `self.state_objs.remove(<measured>)`: on one level branch a measured subsystem stays listed in its product space while the tensor no longer has its axis"))
    else:
        obs.append(ok("BOOK-evict", fi, "evict-present", ("C05", "C13", "C20"), fi.node, "every measurement loop evicts the measured member"))
    branch = {}
    for site, V in sites:
        loop = site.loops[-1] if site.loops else None
        if loop is None:
            obs.append(skip("BOOK-evict", fi, "evict-outside-loop", P, site.ast, "eviction outside a per-subsystem loop"))
            continue
        for cls in ("Fock", "Polarization", "CustomState"):
            def atom(e, truth, st):
                c, rem, idx, sst, dst = st
                if isinstance(e, ast.Call) and isinstance(e.func, ast.Name) and e.func.id == "isinstance" and len(e.args) == 2 and src(e.args[0]) == V:
                    t = e.args[1]
                    names = {dotted(z) for z in (t.elts if isinstance(t, ast.Tuple) else [t])}
                    isin = c in names or ("BaseState" in names)
                    return [st] if isin == truth else []
                if isinstance(e, ast.Name) and e.id == "destructive":
                    if dst is not None and dst != truth:
                        return []
                    return [(c, rem, idx, sst, truth)]
                return [st]

            viol = {}

            def transfer(s, lab, d, st):
                c, rem, idx, sst, dst = st
                if s.kind == "iter" and s.stmt is loop:
                    if lab == "iter":
                        return [(c, False, False, False, dst)]
                    return [(c, False, False, False, dst)]
                if s.kind in ("test", "assert") and lab in ("T", "F"):
                    outs = refine(s.ast, lab == "T", st, atom)
                else:
                    outs = [st]
                res = []
                for (c, rem, idx, sst, dst) in outs:
                    for x in walk_node(s) if s.kind in ("stmt",) else []:
                        mc = method_call(x)
                        if mc and src(mc[0]) == V and mc[1] == "_set_measured":
                            i2, s2 = eff[c]
                            idx, sst = idx or i2, sst or s2
                        if mc and mc[1] == "remove" and src(mc[0]) == "self.state_objs" and x.args and src(x.args[0]) == V and s is site:
                            rem = True
                    a = s.ast
                    if s.kind == "stmt" and isinstance(a, ast.Assign):
                        for t in a.targets:
                            if isinstance(t, ast.Attribute) and src(t.value) == V:
                                if t.attr in ("index", "_index") and isinstance(a.value, ast.Constant) and a.value.value is None:
                                    idx = True
                                if t.attr == "state":
                                    sst = True
                    # arriving back at the loop header (or leaving the loop body) with an evicted, un-reset member
                    if d.kind == "iter" and d.stmt is loop and rem and not (idx and sst):
                        viol[(c, dst)] = (idx, sst)
                    res.append((c, rem, idx, sst, dst))
                return res

            explore(cfg, (cls, False, False, False, None), transfer)
            lvl = "Vector" if site is sites[0][0] else "Matrix"
            key = f"evict@{lvl}/{cls}"
            if viol:
                (c, dst), (idx, sst) = sorted(viol.items(), key=str)[0]
                missing = [w for w, okk in (("index = None", idx), ("a defined state", sst)) if not okk]
                obs.append(bad("BOOK-evict", fi, key, P, site.ast,
                               f"a {cls} measured with destructive={dst} is removed from the product space without {' and '.join(missing)}: "
                               f"it keeps a stale (space, slot) index and state=None while belonging to no product space"))
            else:
                obs.append(ok("BOOK-evict", fi, key, P, site.ast, f"an evicted {cls} gets index None and a defined state on every path"))
    # sibling agreement of the destroyers
    for c in ("Fock", "Polarization"):
        m = repo.resolve_method(c, "_set_measured")
        written = {t.attr.lstrip("_") for n in walk_no_nested(m.node) if isinstance(n, ast.Assign) for t in n.targets if isinstance(t, ast.Attribute) and src(t.value) == "self"}
        need = {"measured", "state", "index", "expansion_level"}
        (obs.append(ok("BOOK-evict", m, "destroyer-fields", P, m.node, "destroys state, index, level and sets measured")) if need <= written else
         obs.append(bad("BOOK-evict", m, "destroyer-fields", P, m.node, f"{c}._set_measured no longer resets {sorted(need - written)}")))
    return obs


def _earlier_handles_repointed(init: FuncInfo) -> bool:
    """`<h>.uid = self.uid` inside a loop over the handle registry, under an identity test against merged containers"""
    for l in [x for x in walk_no_nested(init.node) if isinstance(x, ast.For)]:
        if not any(isinstance(y, ast.Attribute) and y.attr == "_instances" for y in ast.walk(l.iter)):
            continue
        for a in ast.walk(l):
            if isinstance(a, ast.Assign) and any(isinstance(t, ast.Attribute) and t.attr == "uid" and src(t.value) != "self" for t in a.targets) and src(a.value) == "self.uid":
                guards = [i for i in ast.walk(l) if isinstance(i, ast.If) and any(y is a for b in i.body for y in ast.walk(b))]
                from ..model import expand_ast
                if any(any(isinstance(c, ast.Compare) and isinstance(c.ops[0], (ast.Is, ast.IsNot)) for c in ast.walk(g.test)) and "_containers" in src(expand_ast(init.node, g.test)) for g in guards):
                    return True
    return False


@rule("BOOK-merge")
def book_merge(repo: Repo) -> List[Ob]:
    obs: List[Ob] = []
    P = ("C13",)
    sites = 0
    for fi in state_functions(repo):
        cfg = None
        for n in walk_no_nested(fi.node):
            mc = method_call(n)
            if not (mc and mc[1] == "append_states"):
                continue
            sites += 1
            cfg = cfg or CFG(fi.node)
            node = cfg.node_containing(n)
            recv = src(mc[0])
            arg = src(n.args[0]) if n.args else ""
            guarded = False
            for t in cfg.nodes:
                if t.kind != "test":
                    continue
                for c in [t.ast] + list(ast.walk(t.ast)):
                    if isinstance(c, ast.Compare) and len(c.ops) == 1 and isinstance(c.ops[0], (ast.Is, ast.IsNot, ast.Eq, ast.NotEq)):
                        sides = {src(c.left), src(c.comparators[0])}
                        if recv in sides and (arg in sides or any(s != recv and s in arg or arg in s for s in sides if s != recv)):
                            # the call must sit on the "different container" outcome
                            same_on_true = isinstance(c.ops[0], (ast.Is, ast.Eq))
                            lab = "F" if same_on_true else "T"
                            reach = cfg.reachable([m for m, l in cfg.succ[t] if l == lab])
                            other = cfg.reachable([m for m, l in cfg.succ[t] if l != lab])
                            if node in reach and cfg.must_pass_through(node, {t}):
                                guarded = True
            # stronger form: the container is compared (by identity) with *every* container merged so far – the receiving one
            # included – through an accumulator that is filled on every iteration of the merge loop
            from ..model import expand_src
            once = False
            loop = next((l for l in walk_no_nested(fi.node) if isinstance(l, ast.For) and any(x is n for x in ast.walk(l))), None)
            if loop is not None:
                arg_x = expand_src(fi.node, n.args[0]) if n.args else ""
                accs = set()
                for st in loop.body:
                    if isinstance(st, ast.Expr) and method_call(st.value) and method_call(st.value)[1] in ("append", "add") and st.value.args \
                            and isinstance(method_call(st.value)[0], ast.Name) and expand_src(fi.node, st.value.args[0]) == arg_x:
                        accs.add(method_call(st.value)[0].id)
                from ..model import expand_ast
                for t in [x for x in ast.walk(loop) if isinstance(x, ast.If) and any(y is n for b in x.body for y in ast.walk(b))]:
                    for g in ast.walk(expand_ast(fi.node, t.test)):
                        if isinstance(g, (ast.GeneratorExp, ast.ListComp)) and isinstance(g.generators[0].iter, ast.Name) and g.generators[0].iter.id in accs \
                                and isinstance(g.elt, ast.Compare) and isinstance(g.elt.ops[0], (ast.Is, ast.IsNot)):
                            once = True
                # the same through uids: sound only while every handle of one container carries the same uid, i.e. when the
                # constructor re-points the handles of earlier merges as well
                hv = src(loop.target)
                uid_accs = {method_call(st.value)[0].id for st in loop.body
                            if isinstance(st, ast.Expr) and method_call(st.value) and method_call(st.value)[1] in ("append", "add") and st.value.args
                            and isinstance(method_call(st.value)[0], ast.Name) and src(st.value.args[0]) == f"{hv}.uid"}
                for t in [x for x in ast.walk(loop) if isinstance(x, ast.If) and any(y is n for b in x.body for y in ast.walk(b))]:
                    for g in ast.walk(t.test):
                        if isinstance(g, ast.Compare) and len(g.ops) == 1 and isinstance(g.ops[0], ast.NotIn) and src(g.left) == f"{hv}.uid" \
                                and isinstance(g.comparators[0], ast.Name) and g.comparators[0].id in uid_accs:
                            if fi.qualname == "CompositeEnvelope.__init__" and _earlier_handles_repointed(fi):
                                once = True
            key = f"append_states#{sites}"
            if once:
                obs.append(ok("BOOK-merge", fi, key, P, n, "a container is appended only if it is none of the containers merged so far (identity test against the accumulated list)"))
            elif guarded:
                obs.append(bad("BOOK-merge", fi, key, P, n,
                               "append_states(other) is only guarded against the *receiving* container: a container reached through two of the given handles "
                               "(behind another composite) is appended twice – its product spaces and envelopes are listed twice"))
            else:
                obs.append(bad("BOOK-merge", fi, key, P, n,
                               "append_states(other) is not guarded by `other is not <receiving container>`: merging two handles of one composite lists its product spaces and envelopes twice"))
    if sites < 1:
        raise AnalysisError("BOOK-merge: no append_states call found")
    # moved product spaces: indices are refreshed after the merge and the spaces point at their new container
    app = repo.func("CompositeEnvelopeContainer.append_states")
    repoints = any(isinstance(l, ast.For) and "other" in expand_src(app.node, l.iter) and any(isinstance(a, ast.Assign) and any(isinstance(t, ast.Attribute) and t.attr == "container" for t in a.targets) and src(a.value) == "self" for a in ast.walk(l))
                   for l in walk_no_nested(app.node))
    (obs.append(ok("BOOK-merge", app, "moved-spaces-repointed", P, app.node, "appended product spaces are pointed at the receiving container")) if repoints else
     obs.append(bad("BOOK-merge", app, "moved-spaces-repointed", P, app.node,
                    "product spaces appended from another container keep `container` pointing at the old one: their reorder() refreshes the indices of the wrong container")))
    for fi in state_functions(repo):
        calls = [n for n in walk_no_nested(fi.node) if method_call(n) and method_call(n)[1] == "append_states"]
        if not calls:
            continue
        cfg2 = CFG(fi.node)
        upd = {nd for nd in cfg2.nodes for x in walk_node(nd) if method_call(x) and method_call(x)[1] == "update_all_indices"}
        for i, c in enumerate(calls, 1):
            nd = cfg2.node_containing(c)
            good = nd is not None and bool(upd) and cfg2.always_followed_by(nd, upd)
            (obs.append(ok("BOOK-merge", fi, f"merge-then-refresh#{i}", P, c, "indices are refreshed after product spaces were appended")) if good else
             obs.append(bad("BOOK-merge", fi, f"merge-then-refresh#{i}", P, c,
                            "product spaces of the other container are appended behind the existing ones but update_all_indices() does not follow: their members keep the positions they had in the old container")))
    # after a merge every old handle must be re-pointed: ce.uid = self.uid inside the merge loop
    init = repo.func("CompositeEnvelope.__init__")
    repoint = any(isinstance(n, ast.Assign) and any(isinstance(t, ast.Attribute) and t.attr == "uid" and src(t.value) != "self" for t in n.targets) and src(n.value) == "self.uid"
                  for n in walk_no_nested(init.node))
    (obs.append(ok("BOOK-merge", init, "handles-repointed", P, init.node, "merged handles adopt the new container uid")) if repoint else
     obs.append(bad("BOOK-merge", init, "handles-repointed", P, init.node, "merged CompositeEnvelope handles are not re-pointed (ce.uid = self.uid missing): old handles see a stale container")))
    # handles of *earlier* merges are not among the arguments: they can only be reached through the registry of handles
    all_h = _earlier_handles_repointed(init)
    (obs.append(ok("BOOK-merge", init, "earlier-handles-repointed", P, init.node, "every registered handle that names a merged container adopts the new uid")) if all_h else
     obs.append(bad("BOOK-merge", init, "earlier-handles-repointed", P, init.node,
                    "only the handles passed to the constructor are re-pointed: a handle of an earlier merge (ce1 after ce3 = CE(ce1, ce2); ce4 = CE(other, ce3)) keeps naming the absorbed container and sees a stale composite")))
    ptr = any(method_call(n) and method_call(n)[1] == "update_composite_envelope_pointers" for n in walk_no_nested(init.node))
    (obs.append(ok("BOOK-merge", init, "envelopes-repointed", P, init.node, "member envelopes are pointed at the new composite")) if ptr else
     obs.append(bad("BOOK-merge", init, "envelopes-repointed", P, init.node, "CompositeEnvelope.__init__ no longer calls update_composite_envelope_pointers()")))
    return obs


REGISTRY = ("_containers", "_instances")
REGISTRY_KEYS = {"self.uid", "ce.uid", "self.composite_uid", "self.composite_envelope_id", "self.container.composite_uid"}
INDEX_WRITERS = {"extract", "set_index", "_set_measured", "__init__", "index"}
INDEX_WRITERS_PAIRED = {"Envelope.measure", "Envelope.measure_POVM", "Envelope.reorder", "ProductState.measure"}


ACTION_NAMES = {"apply_operation", "apply_kraus", "measure", "measure_POVM", "trace_out", "resize", "resize_fock", "expand", "contract", "combine", "reorder"}


@rule("BOOK-own")
def book_own(repo: Repo) -> List[Ob]:
    obs: List[Ob] = []
    P = ("C13",)
    n_reg = 0
    n_idx = 0
    for fi in repo.scan_functions():
        if not fi.module.name.startswith("photon_weave"):
            continue
        for n in walk_no_nested(fi.node):
            # registry stores
            if isinstance(n, ast.Subscript) and isinstance(n.ctx, (ast.Store, ast.Del)) and isinstance(n.value, ast.Attribute) and n.value.attr in REGISTRY:
                n_reg += 1
                (obs.append(ok("BOOK-own", fi, f"registry-store:{n.value.attr}", P, n, "registry written by the constructor")) if fi.qualname == "CompositeEnvelope.__init__" else
                 obs.append(bad("BOOK-own", fi, f"registry-store:{n.value.attr}", P, n, f"CompositeEnvelope.{n.value.attr} is written outside CompositeEnvelope.__init__")))
            if isinstance(n, ast.Subscript) and isinstance(n.ctx, ast.Load) and isinstance(n.value, ast.Attribute) and n.value.attr in REGISTRY:
                n_reg += 1
                k = src(n.slice)
                if k in REGISTRY_KEYS or k.endswith(".uid") or k.endswith("composite_uid") or k.endswith("composite_envelope_id"):
                    obs.append(ok("BOOK-own", fi, f"registry-key:{k}", P, n, "registry addressed by the own uid"))
                else:
                    obs.append(skip("BOOK-own", fi, f"registry-key:{k}", P, n, "registry key not recognised"))
            # iteration over the registry (would touch unrelated composites)
            if isinstance(n, (ast.For, ast.comprehension)):
                it = n.iter
                if any(isinstance(x, ast.Attribute) and x.attr in REGISTRY for x in [it] + list(ast.walk(it))) and not any(isinstance(x, ast.Subscript) for x in [it] + list(ast.walk(it))):
                    if fi.qualname == "CompositeEnvelope.__init__" and isinstance(n, ast.For):
                        stores = [y for y in ast.walk(n) if isinstance(y, ast.Attribute) and isinstance(y.ctx, ast.Store)]
                        def _guarded(y):
                            return any(isinstance(i, ast.If) and any(z is y for b in i.body for z in ast.walk(b)) and "_containers" in expand_src(fi.node, i.test)
                                       and any(isinstance(c, ast.Compare) and isinstance(c.ops[0], (ast.Is, ast.IsNot)) for c in ast.walk(i.test)) for i in ast.walk(n))
                        if stores and all(_guarded(y) for y in stores):
                            obs.append(ok("BOOK-own", fi, "registry-iteration", P, n, "the constructor walks the handle registry but writes only to handles whose container is (by identity) one of the merged ones"))
                            continue
                    obs.append(bad("BOOK-own", fi, "registry-iteration", P, n if isinstance(n, ast.For) else it,
                                   "a method iterates over the process-wide registry of composite envelopes: unrelated composites can be altered"))
            # index writes
            if isinstance(n, ast.Attribute) and n.attr in ("index", "_index") and isinstance(n.ctx, ast.Store):
                n_idx += 1
                if fi.node.name in INDEX_WRITERS or fi.qualname in INDEX_WRITERS_PAIRED:
                    obs.append(ok("BOOK-own", fi, "index-write", P, n, "index written by a designated bookkeeping site"))
                elif fi.node.name not in ACTION_NAMES:
                    obs.append(skip("BOOK-own", fi, "index-write", P, n, "index written by a helper outside the action methods"))
                else:
                    obs.append(bad("BOOK-own", fi, "index-write", P, n, f"`{src(n)}` is written outside the designated bookkeeping functions"))
    # non-vacuity: the registry exists and is both written and read by key (how many methods go through an accessor instead of the raw
    # registry is the author's choice), and the index writers were found
    n_store = sum(1 for o in obs if o.key.startswith("registry-store:"))
    n_load = sum(1 for o in obs if o.key.startswith("registry-key:"))
    if n_store < 1 or n_load < 1 or n_idx < 10:
        raise AnalysisError(f"BOOK-own: {n_store} registry stores, {n_load} keyed reads / {n_idx} index writes (floors 1/1/10)")
    return obs
