"""Rule registry.  A rule is ``fn(repo) -> List[Ob]``; it raises AnalysisError when an
anchor vanished or its non-vacuity floor is not met."""
from __future__ import annotations

from typing import Callable, Dict, List

from ..model import Repo
from ..report import Ob

RULES: Dict[str, Callable[[Repo], List[Ob]]] = {}
TIER: Dict[str, str] = {}


def rule(name: str, tier: str = "quick"):
    def deco(fn):
        RULES[name] = fn
        TIER[name] = tier
        return fn
    return deco


# attribution of a containing function to properties (DESIGN Appendix A)
ACTION_PROPS = {
    "measure": ("C04", "C05"),
    "measure_POVM": ("C09",),
    "apply_kraus": ("C06",),
    "apply_operation": ("C01",),
    "trace_out": ("C02",),
    "combine": ("C02",),
    "reorder": ("C02",),
    "expand": ("C08",),
    "contract": ("C08",),
    "resize": ("C10",),
    "resize_fock": ("C10",),
    "_num_quanta": ("C10",),
}

ESC_PROPS = {
    "apply_operator_vector": ("C01", "C03", "C06"),
    "apply_operator_matrix": ("C01", "C03", "C06", "C09"),
    "reorder_vector": ("C02", "C03"),
    "reorder_matrix": ("C02", "C03"),
    "trace_out_vector": ("C02",),
    "trace_out_matrix": ("C02", "C09"),
    "measure_vector": ("C04",),
    "measure_matrix": ("C04",),
}


def props_of(fi) -> tuple:
    """properties a structural defect *inside* this function is reported against"""
    name = fi.node.name
    mod = fi.module.name
    if mod.endswith("einsum_constructor"):
        return ESC_PROPS.get(name, ("C01",))
    if mod.endswith("expression_interpreter"):
        return ("C16",)
    if mod.endswith("photon_weave.photon_weave"):
        return ("C14",)
    if ".operation" in mod:
        return ("C12", "C15")
    if mod.endswith("_math.ops"):
        if name in ("apply_kraus", "kraus_identity_check"):
            return ("C06",)
        if name.startswith("num_quanta"):
            return ("C10",)
        return ("C12",)
    if name in ACTION_PROPS:
        return ACTION_PROPS[name]
    if ".state." in mod:
        return ("C13",)
    if "mach_zehnder" in mod:
        return ("C11",)
    return ("C13",)


def load_all() -> None:
    from . import rnb, samp, route, struct, kraus, vbc, book, ident, block, pure, resize, dispatch, esc, measure, layout, extra  # noqa: F401
