"""Rule registry.  A rule is ``fn(repo) -> List[Ob]``; it raises AnalysisError when an
anchor vanished or its non-vacuity floor is not met."""
from __future__ import annotations

from typing import Callable, Dict, List

from ..model import Repo
from ..report import Ob

RULES: Dict[str, Callable[[Repo], List[Ob]]] = {}
TIER: Dict[str, str] = {}


def rule(name: str, tier: str = "quick"):
    def deco(fn):
        RULES[name] = fn
        TIER[name] = tier
        return fn
    return deco


# attribution of a containing function to properties (DESIGN Appendix A)
ACTION_PROPS = {
    "measure": ("C04", "C05"),
    "measure_POVM": ("C09",),
    "apply_kraus": ("C06",),
    "apply_operation": ("C01",),
    "trace_out": ("C02",),
    "combine": ("C02",),
    "reorder": ("C02",),
    "expand": ("C08",),
    "contract": ("C08",),
    "resize": ("C10",),
    "resize_fock": ("C10",),
    "_num_quanta": ("C10",),
}

ESC_PROPS = {
    "apply_operator_vector": ("C01", "C03", "C06"),
    "apply_operator_matrix": ("C01", "C03", "C06", "C09"),
    "reorder_vector": ("C02", "C03"),
    "reorder_matrix": ("C02", "C03"),
    "trace_out_vector": ("C02", "C10"),   # C10: the Vector-level shrink guards read the highest occupied level from this "partial trace"
    "trace_out_matrix": ("C02", "C09", "C10"),   # C10: the Matrix-level shrink guards and the automatic cutoffs read the reduced Fock state
    "measure_vector": ("C04",),
    "measure_matrix": ("C04",),
}


def props_of(fi) -> tuple:
    """properties a structural defect *inside* this function is reported against"""
    name = fi.node.name
    mod = fi.module.name
    if mod.startswith("photon_weave.extra.einsum_"):
        return ESC_PROPS.get(name, ("C01",))
    if mod.endswith("expression_interpreter"):
        return ("C16",)
    if mod.endswith("photon_weave.photon_weave"):
        return ("C14",)
    if ".operation" in mod:
        return ("C12", "C15")
    if mod.startswith("photon_weave._math"):
        if name in ("apply_kraus", "kraus_identity_check"):
            return ("C06",)
        if name.startswith("num_quanta"):
            return ("C10",)
        return ("C12",)
    if name in ACTION_PROPS:
        return ACTION_PROPS[name]
    if ".state." in mod:
        return ("C13",)
    if "mach_zehnder" in mod:
        return ("C11",)
    return ("C13",)


# properties a rule can serve: an analysis error inside the rule (vanished anchor, floor not met) makes exactly
# these properties' checks exit 2 – never the others
HOME = {
    "RNB": None, "DISCARD": None,   # None = every claimed property (fail closed)
    "ROUTE": ("C01", "C02", "C04", "C05", "C06", "C09", "C10"), "FLAGS": ("C05", "C09", "C20"),
    "SAMP-a": ("C14", "C04", "C09"), "SAMP-b": ("C14",), "SAMP-c": ("C14",), "SAMP-e": ("C04",), "SAMP-f": ("C09",),
    "NORM": ("C01", "C05", "C06", "C07", "C09"), "RENORM": ("C01", "C07", "C17"), "OUTER": ("C08",), "TAG": ("C06", "C07", "C08"),
    "CONTRACT-ONLY": ("C08",), "CONTRACT-VEC": ("C08",), "SANDWICH": ("C01", "C05", "C06", "C09", "C12", "C15"), "KRAUS-SUM": ("C06",), "KRAUS-LEVEL": ("C06",),
    "POVM-LEVEL": ("C09",), "KRAUS-VALID": ("C06", "C17"), "VBC": ("C17", "C10"), "BOOK-order": ("C13", "C07", "C10"), "BOOK-evict": ("C05", "C13", "C20", "C07"),
    "BOOK-merge": ("C13",), "BOOK-own": ("C13",), "BOOK-absorb": ("C13", "C02"), "IDENT-contract": ("C18",), "IDENT-site": ("C18", "C17"),
    "BLOCK": ("C20", "C03", "C02", "C01", "C06", "C09"), "PURE-a": ("C15", "C03", "C17", "C10", "C12"), "PURE-b": ("C15", "C10", "C01", "C03", "C12", "C11"), "PURE-c": ("C15",),
    "ALIAS-MUT": ("C15", "C16"), "INTERP": ("C16",), "RESIZE": ("C10", "C17", "C07", "C01", "C11"), "DISPATCH": ("C12", "C17"), "DEFS": ("C12", "C11"),
    "BALANCE": ("C11", "C12", "C10"), "ESCGEN": ("C01", "C02", "C03", "C04", "C06", "C09"), "ESCCALL": ("C01", "C02", "C03", "C04", "C06", "C09", "C08"),
    "COLLAPSE": ("C04", "C05", "C07", "C09"), "MEASURE-SET": ("C04", "C05"), "PAIR": ("C02", "C03", "C13"), "LAYOUT": ("C01", "C02", "C04", "C05", "C06", "C09", "C10", "C07", "C08"),
    "ENVAXIS": ("C01", "C02", "C04", "C05", "C06", "C09", "C10"), "LABEL": ("C05", "C07", "C08"), "VALID": ("C17", "C03", "C15"), "DELEG-ORDER": ("C01", "C02", "C03", "C06", "C09"),
    "OUTCOME-SPACE": ("C04", "C09"), "DIM-FLOOR": ("C10", "C12"), "PARTNER": ("C04", "C05", "C09"), "DIM-NORM": ("C10",), "MUST-APPLY": ("C01", "C03", "C11"), "RENORM-TABLE": ("C07", "C01"), "PHASE-GLOBAL": ("C08", "C07"), "ROUTE-env": ("C01", "C02", "C04", "C05", "C06", "C09", "C10"), "LABEL-EXACT": ("C07", "C08"), "EST-TAIL": ("C10",), "BOOK-extract": ("C13", "C02"), "DETACH": ("C02", "C05", "C06", "C07", "C09", "C13"), "STALE-PS": ("C01", "C02", "C03", "C06", "C09", "C10"), "DTYPE": ("C01", "C07", "C10", "C06", "C09", "C02", "C05", "C04", "C08"), "STALE-VIEW": ("C01", "C02", "C04", "C05", "C06", "C07", "C09", "C10"),
}


def load_all() -> None:
    from . import rnb, samp, route, struct, kraus, vbc, book, ident, block, pure, resize, dispatch, esc, measure, layout, extra  # noqa: F401
