"""ESCGEN – sequence-term summaries of the einsum-string generators, compared with their
specification for all list lengths and operand orders at once; ESCCALL – generator call
sites pair the right lists (DESIGN §2.7, §3).

The summariser interprets the small vocabulary the generators are written in *abstractly*:
a loop over a parameter list is a map over an abstract list (never unrolled), `next(counter)`
is a fresh index – a per-member family inside an element loop, a single symbol outside –,
the j-th append to `einsum_dict[s]` is resolved by program order.  Nothing is executed and
no concrete list is ever built.
"""
from __future__ import annotations

import ast
from dataclasses import dataclass
from typing import Dict, FrozenSet, List, Optional, Set, Tuple

from ..cfg import CFG, walk_node
from ..domains import is_conj
from ..model import AnalysisError, FuncInfo, Repo, call_np, dotted, method_call, src, walk_no_nested
from ..report import Ob, bad, note, ok, skip
from ..scope import assignments_to, resolve_alias
from . import ESC_PROPS, rule
from .struct import self_levels

GENERATORS = ["apply_operator_vector", "apply_operator_matrix", "trace_out_vector", "trace_out_matrix",
              "reorder_vector", "reorder_matrix", "measure_vector", "measure_matrix"]


class Incomplete(Exception):
    pass


# ------------------------------------------------------------------------------------ terms
# index expression: ('fam', id) – family evaluated at the current element; ('sym', id) – one symbol
Expr = Tuple[str, object]
Facts = FrozenSet[Tuple[str, str]]          # {('in'|'notin', listname)}


@dataclass
class Seg:
    kind: str                 # 'one' | 'map'
    over: Optional[str]       # parameter role: 'S' (storage list) or 'T' (operand / requested list)
    items: List[Tuple[Facts, Expr]]
    loop: object = None

    def key(self):
        return (self.kind, self.over, tuple((tuple(sorted(f)), e) for f, e in self.items))


class Summ:
    def __init__(self, fn: ast.FunctionDef, is_format_helper=None):
        self.fn = fn
        self.is_format_helper = is_format_helper or (lambda call: False)
        ps = [a.arg for a in fn.args.args]
        if len(ps) != 2:
            raise Incomplete("generator does not take (storage list, operand list)")
        self.role = {ps[0]: "S", ps[1]: "T"}
        self.lists: Dict[str, List[List[Seg]]] = {}
        self.vars: Dict[str, List[Seg]] = {}          # plain named index lists (`row_indices = []`)
        self.lol: Dict[str, List[List[Seg]]] = {}     # names bound to a sequence of index lists (`operands = [rows, cols]`)
        self.dicts: Dict[str, Tuple[str, list]] = {}
        self.env: Dict[str, object] = {}
        self.counters: Set[str] = set()
        self.derived: Dict[str, str] = {}      # formatted-name -> base list-of-lists name
        self.result: Optional[Tuple[List[int], int, str]] = None
        self.site = 0

    # context: loops = list of ('elem', var, role, loop_id) | ('pass', var, k)
    def run(self):
        self.block(self.fn.body, [], frozenset())
        if self.result is None:
            raise Incomplete("no recognised return")
        return self.result

    def block(self, stmts, loops, facts):
        for i, s in enumerate(stmts):
            # `if x [not] in T: …; continue`  ==  the rest of the loop body runs under the opposite fact
            if isinstance(s, ast.If) and not s.orelse and s.body and isinstance(s.body[-1], ast.Continue) and self.elem(loops) is not None:
                fb = self.membership_fact(s.test, loops)
                if fb is not None:
                    f_b, f_o = fb
                    if f_b is True:
                        self.block(s.body[:-1], loops, facts)
                        return
                    if f_b is False:
                        continue
                    env0 = dict(self.env)
                    self.block(s.body[:-1], loops, facts | {f_b})
                    self.env = env0
                    self.block(stmts[i + 1:], loops, facts | {f_o})
                    return
            self.stmt(s, loops, facts)

    def membership_fact(self, t, loops):
        """(fact if true, fact if false) for `<loop element> [not] in <role list>`; (True/False, None) when it is decided"""
        neg = False
        if isinstance(t, ast.UnaryOp) and isinstance(t.op, ast.Not):
            t, neg = t.operand, True
        el = self.elem(loops)
        if isinstance(t, ast.Compare) and len(t.ops) == 1 and isinstance(t.ops[0], (ast.In, ast.NotIn)) and isinstance(t.comparators[0], ast.Name) \
                and t.comparators[0].id in self.role and el is not None and src(t.left) == el[1]:
            pos = isinstance(t.ops[0], ast.In) != neg
            l = self.role[t.comparators[0].id]
            if l == el[2]:
                return (pos, None)
            return (("in" if pos else "notin", l), ("notin" if pos else "in", l))
        return None

    @staticmethod
    def elem(loops):
        for l in reversed(loops):
            if l[0] == "elem":
                return l
        return None

    @staticmethod
    def passes(loops):
        return tuple(l[2] for l in loops if l[0] == "pass")

    def fresh(self, node, loops) -> Expr:
        sid = (id(node), self.passes(loops))          # one index (family) per `next(counter)` occurrence and pass; spliced copies of a helper are distinct occurrences
        return ("fam", sid) if self.elem(loops) else ("sym", sid)

    def emit(self, lst: List[Seg], e: Expr, loops, facts):
        if e and e[0] == "cond":
            for f, sub in e[1:]:
                self.emit(lst, sub, loops, facts | {f})
            return
        el = self.elem(loops)
        if el is None:
            lst.append(Seg("one", None, [(frozenset(), e)]))
            return
        loop_id = (el[3], self.passes(loops))
        if lst and lst[-1].kind == "map" and lst[-1].loop == loop_id:
            lst[-1].items.append((facts, e))
        else:
            lst.append(Seg("map", el[2], [(facts, e)], loop_id))

    def lookup(self, name: str, j: Optional[int], loops, facts) -> Expr:
        kind, events = self.dicts[name]
        el = self.elem(loops)
        if el is None:
            raise Incomplete("dictionary lookup outside an element loop")
        over = el[2]
        known_in = {over} | {l for k, l in facts if k == "in"}
        if over == "T":
            known_in.add("S")               # precondition of every generator: operand list ⊆ storage list
        if self.fn.name.startswith("reorder"):
            known_in |= {"S", "T"}          # precondition of the reorder generators: a permutation of the storage list
        app = []
        for (ev_over, ev_facts, e) in events:
            dom_ok = ev_over in known_in and all((k, l) in facts or (k == "in" and l in known_in) for k, l in ev_facts)
            if dom_ok:
                app.append(e)
            elif ev_over == "T" and over == "S" and ("notin", "T") in facts:
                continue                    # event certainly not applicable
            elif ev_over == "T" and over == "S":
                raise Incomplete("lookup of an index that exists only for operands, without an `in` guard")
        if kind == "scalar":
            if not app:
                raise Incomplete("scalar dictionary read before write")
            return app[-1]
        if j is None or j >= len(app) or j < -len(app):
            raise Incomplete(f"einsum_dict[s][{j}] but only {len(app)} indices were stored for this member here")
        return app[j]

    def const_int(self, n) -> Optional[int]:
        if isinstance(n, ast.Constant) and isinstance(n.value, int):
            return n.value
        if isinstance(n, ast.UnaryOp) and isinstance(n.op, ast.USub) and isinstance(n.operand, ast.Constant):
            return -n.operand.value
        if isinstance(n, ast.Name) and isinstance(self.env.get(n.id), int):
            return self.env[n.id]
        if isinstance(n, ast.BinOp) and isinstance(n.op, (ast.Add, ast.Sub, ast.Mult)):
            a, b = self.const_int(n.left), self.const_int(n.right)
            if a is not None and b is not None:
                return a + b if isinstance(n.op, ast.Add) else a - b if isinstance(n.op, ast.Sub) else a * b
        return None

    def _range_gen(self, g) -> Optional[int]:
        if isinstance(g.iter, ast.Call) and src(g.iter.func) == "range" and len(g.iter.args) == 1 and not g.ifs and isinstance(g.target, ast.Name):
            return self.const_int(g.iter.args[0])
        return None

    def role_comp(self, comp) -> bool:
        if not isinstance(comp, (ast.ListComp, ast.GeneratorExp)) or not comp.generators:
            return False
        *lead, g = comp.generators
        return all(self._range_gen(x) is not None for x in lead) and isinstance(g.iter, ast.Name) and g.iter.id in self.role and not g.ifs and isinstance(g.target, ast.Name)

    def emit_comp(self, lr: List[Seg], comp, loops, facts, lead=None):
        gens = list(comp.generators) if lead is None else lead
        if len(gens) > 1:
            # [f(i, s) for i in range(k) for s in xs]: the outer counter is unrolled like a `for i in range(k)` statement
            g0 = gens[0]
            for k in range(self._range_gen(g0)):
                self.env[g0.target.id] = k
                self.emit_comp(lr, comp, loops + [("pass", g0.target.id, k)], facts, gens[1:])
            return
        g = gens[0]
        lp = loops + [("elem", src(g.target), self.role[g.iter.id], (id(comp), self.passes(loops)))]
        self.emit(lr, self.item(comp.elt, lp, facts), lp, facts)

    def extend_with(self, lr: List[Seg], val, loops, facts) -> bool:
        """lr.extend(val) / lr += val for the value forms the generators use"""
        import copy as _copy
        if self.role_comp(val):
            self.emit_comp(lr, val, loops, facts)
            return True
        if isinstance(val, (ast.List, ast.Tuple)):
            for e in val.elts:
                self.emit(lr, self.item(e, loops, facts), loops, facts)
            return True
        other = self.list_ref(val)
        if other is not None:
            for sg in other:
                c = _copy.copy(sg)
                c.items = list(sg.items)
                c.loop = ("copied", id(sg), id(lr), len(lr))     # never merged with a later emission
                lr.append(c)
            return True
        return False

    def item(self, node, loops, facts) -> Expr:
        if isinstance(node, ast.IfExp):
            t, neg = node.test, False
            if isinstance(t, ast.UnaryOp) and isinstance(t.op, ast.Not):
                t, neg = t.operand, True
            el = self.elem(loops)
            if isinstance(t, ast.Compare) and len(t.ops) == 1 and isinstance(t.ops[0], (ast.In, ast.NotIn)) and isinstance(t.comparators[0], ast.Name) \
                    and t.comparators[0].id in self.role and el is not None and src(t.left) == el[1]:
                pos = isinstance(t.ops[0], ast.In) != neg
                l = self.role[t.comparators[0].id]
                if l == el[2]:
                    return self.item(node.body if pos else node.orelse, loops, facts)
                f_b, f_o = ("in" if pos else "notin", l), ("notin" if pos else "in", l)
                return ("cond", (f_b, self.item(node.body, loops, facts | {f_b})), (f_o, self.item(node.orelse, loops, facts | {f_o})))
            raise Incomplete("conditional index " + src(node.test)[:40])
        if isinstance(node, ast.Name):
            v = self.env.get(node.id)
            if isinstance(v, tuple) and v and v[0] in ("fam", "sym"):
                return v
            if isinstance(v, tuple) and v and v[0] == "cond":
                for f, e in v[1:]:
                    if f in facts:
                        return e
                return v
            raise Incomplete(f"name `{node.id}` is not an index here")
        if isinstance(node, ast.Subscript):
            if isinstance(node.value, ast.Subscript) and isinstance(node.value.value, ast.Name) and node.value.value.id in self.dicts:
                j = self.const_int(node.slice)
                if j is None:
                    raise Incomplete("non-constant position in einsum_dict[s][j]")
                return self.lookup(node.value.value.id, j, loops, facts)
            if isinstance(node.value, ast.Name) and node.value.id in self.dicts:
                return self.lookup(node.value.id, None if self.dicts[node.value.id][0] == "list" else 0, loops, facts)
        if isinstance(node, ast.Call) and src(node.func) == "next" and node.args and src(node.args[0]) in self.counters:
            return self.fresh(node, loops)
        if isinstance(node, ast.Constant) and isinstance(node.value, int) and not isinstance(node.value, bool):
            return ("sym", ("const", node.value))      # one fixed letter shared by every member it is given to
        raise Incomplete("index expression " + src(node)[:40])

    def lol_ref(self, node) -> Optional[List[List[Seg]]]:
        """a sequence of index lists: [rows, cols], einsum_list_list, einsum_list_list[:1], a name bound to one of these"""
        if isinstance(node, ast.Name) and node.id in self.lol:
            return self.lol[node.id]
        if isinstance(node, ast.Name) and node.id in self.lists:
            return self.lists[node.id]
        if isinstance(node, (ast.List, ast.Tuple)) and node.elts:
            refs = [self.list_ref(e) for e in node.elts]
            if all(r is not None for r in refs):
                return refs
        if isinstance(node, ast.Subscript) and isinstance(node.slice, ast.Slice) and isinstance(node.value, ast.Name) and (node.value.id in self.lists or node.value.id in self.lol) \
                and node.slice.step is None:
            base = self.lists.get(node.value.id) or self.lol[node.value.id]
            lo = self.const_int(node.slice.lower) if node.slice.lower is not None else 0
            hi = self.const_int(node.slice.upper) if node.slice.upper is not None else len(base)
            if lo is not None and hi is not None:
                return base[lo:hi]
        return None

    def list_ref(self, node) -> Optional[List[Seg]]:
        if isinstance(node, ast.Name) and node.id in self.vars:
            return self.vars[node.id]
        if isinstance(node, ast.Subscript) and isinstance(node.value, ast.Name) and node.value.id in self.lol:
            k = self.const_int(node.slice)
            if k is not None and -len(self.lol[node.value.id]) <= k < len(self.lol[node.value.id]):
                return self.lol[node.value.id][k]
        if isinstance(node, ast.Subscript) and isinstance(node.value, ast.Name) and node.value.id in self.lists:
            k = self.const_int(node.slice)
            if k is not None and -len(self.lists[node.value.id]) <= k < len(self.lists[node.value.id]):
                return self.lists[node.value.id][k]
        return None

    def strval(self, e) -> list:
        """symbolic value of a string expression: literal text and formatted index lists"""
        if isinstance(e, ast.Constant) and isinstance(e.value, str):
            return [e.value]
        if isinstance(e, ast.Name):
            v = self.env.get(e.id)
            if isinstance(v, tuple) and v and v[0] == "fmtidx":
                return [("S", self.lists[v[1]][v[2]])]
            if isinstance(v, tuple) and v and v[0] == "fmtvar":
                return [("S", v[1])]
            if isinstance(v, tuple) and v and v[0] == "fstr":
                return self.strval(v[1])
            if isinstance(v, tuple) and v and v[0] == "strval":
                return v[1]
            raise Incomplete(f"`{e.id}` is not a formatted index list")
        if isinstance(e, ast.Subscript) and isinstance(e.value, ast.Name):
            base = self.derived.get(e.value.id, e.value.id)
            k = self.const_int(e.slice)
            if base in self.lists and k is not None:
                return [("S", self.lists[base][k])]
            raise Incomplete("unrecognised piece of the returned string")
        if isinstance(e, ast.JoinedStr):
            out = []
            for part in e.values:
                if isinstance(part, ast.Constant):
                    out.append(str(part.value))
                elif isinstance(part, ast.FormattedValue):
                    out += self.strval(part.value)
                else:
                    raise Incomplete("unrecognised piece of the returned string")
            return out
        if isinstance(e, ast.BinOp) and isinstance(e.op, ast.Add):
            return self.strval(e.left) + self.strval(e.right)
        if isinstance(e, ast.Call) and isinstance(e.func, ast.Attribute) and e.func.attr == "join" and len(e.args) == 1 and isinstance(e.func.value, ast.Constant):
            sep, arg = e.func.value.value, e.args[0]
            if sep == "":
                # "".join(chr(97 + i) for i in <index list>)
                if isinstance(arg, (ast.ListComp, ast.GeneratorExp)) and len(arg.generators) == 1 and "chr(" in src(arg.elt):
                    lr = self.list_ref(arg.generators[0].iter)
                    if lr is not None:
                        return [("S", lr)]
                raise Incomplete("join of something that is not an index list")
            if sep == ",":
                # ",".join(<letters of v> for v in <sequence of index lists>)
                if isinstance(arg, (ast.ListComp, ast.GeneratorExp)) and len(arg.generators) == 1 and isinstance(arg.generators[0].target, ast.Name):
                    ll = self.lol_ref(arg.generators[0].iter)
                    if ll is not None:
                        vname = arg.generators[0].target.id
                        outl = []
                        for lst in ll:
                            saved = self.vars.get(vname)
                            self.vars[vname] = lst
                            try:
                                pv = self.strval(arg.elt)
                            finally:
                                if saved is None:
                                    self.vars.pop(vname, None)
                                else:
                                    self.vars[vname] = saved
                            if len(pv) != 1 or not isinstance(pv[0], tuple) or pv[0][0] != "S":
                                raise Incomplete("comma-joined element is not one formatted index list")
                            outl.append(pv[0][1])
                        return [("J", outl)]
                # ",".join([a_str, b_str])
                if isinstance(arg, (ast.List, ast.Tuple)):
                    outl = []
                    for x in arg.elts:
                        pv = self.strval(x)
                        if len(pv) != 1 or not isinstance(pv[0], tuple) or pv[0][0] != "S":
                            raise Incomplete("comma-joined element is not one formatted index list")
                        outl.append(pv[0][1])
                    return [("J", outl)]
                raise Incomplete("comma join of something else")
        if isinstance(e, ast.Call) and isinstance(e.func, ast.Attribute) and e.func.attr == "format" and isinstance(e.func.value, ast.Constant) and isinstance(e.func.value.value, str) \
                and not e.keywords:
            fmt = e.func.value.value
            parts = fmt.split("{}")
            if len(parts) != len(e.args) + 1:
                raise Incomplete("format string with named/numbered fields")
            out = [parts[0]] if parts[0] else []
            for a, tail in zip(e.args, parts[1:]):
                out += self.strval(a)
                if tail:
                    out.append(tail)
            return out
        raise Incomplete("string expression " + src(e)[:40])

    def stmt(self, s, loops, facts):
        if isinstance(s, ast.Expr) and isinstance(s.value, ast.Constant):
            return
        if isinstance(s, ast.Pass):
            return
        if isinstance(s, (ast.Assign, ast.AnnAssign)):
            tgt = s.targets[0] if isinstance(s, ast.Assign) else s.target
            val = s.value
            if val is None:
                return
            if isinstance(val, ast.List) and val.elts and all(isinstance(e, ast.List) and not e.elts for e in val.elts) and isinstance(tgt, ast.Name):
                self.lists[tgt.id] = [[] for _ in val.elts]
                return
            if isinstance(tgt, ast.Name) and isinstance(val, ast.List) and not val.elts:
                self.vars[tgt.id] = []
                return
            if isinstance(tgt, ast.Name):
                ll = self.lol_ref(val)
                if ll is not None and not (isinstance(val, ast.Name) and val.id in self.vars):
                    self.lol[tgt.id] = ll
                    return
            if isinstance(tgt, ast.Name) and isinstance(val, ast.Name) and val.id in self.vars:
                self.vars[tgt.id] = self.vars[val.id]           # an alias: both names denote the same list
                return
            if isinstance(tgt, ast.Name) and self.role_comp(val) and isinstance(val, ast.ListComp):
                new: List[Seg] = []
                self.emit_comp(new, val, loops, facts)
                self.vars[tgt.id] = new
                return
            if isinstance(tgt, ast.Name) and isinstance(val, ast.List) and val.elts and not any(isinstance(e, ast.List) for e in val.elts):
                new2: List[Seg] = []
                if self.extend_with(new2, val, loops, facts):
                    self.vars[tgt.id] = new2
                    return
            if isinstance(tgt, ast.Name) and isinstance(val, ast.BinOp) and isinstance(val.op, ast.Add):
                # a + b of index lists
                new3: List[Seg] = []
                if all(self.extend_with(new3, side, loops, facts) for side in (val.left, val.right)):
                    self.vars[tgt.id] = new3
                    return
            # "".join(chr(97 + i) for i in <named list>)
            if isinstance(tgt, ast.Name) and isinstance(val, ast.Call) and isinstance(val.func, ast.Attribute) and val.func.attr == "join" and len(val.args) == 1 \
                    and isinstance(val.args[0], (ast.ListComp, ast.GeneratorExp)) and len(val.args[0].generators) == 1 and "chr(" in src(val.args[0].elt):
                lr0 = self.list_ref(val.args[0].generators[0].iter)
                if lr0 is not None:
                    self.env[tgt.id] = ("fmtvar", lr0)
                    return
            if isinstance(val, ast.Call) and (dotted(val.func) or "").endswith("count") and isinstance(tgt, ast.Name):
                start = 0
                self.counters.add(tgt.id)
                return
            if isinstance(val, ast.DictComp) and isinstance(tgt, ast.Name):
                kind = "list" if isinstance(val.value, ast.List) else "scalar"
                self.dicts[tgt.id] = (kind, [])
                return
            if isinstance(val, ast.Dict) and not val.keys and isinstance(tgt, ast.Name):
                self.dicts[tgt.id] = ("scalar", [])
                return
            if isinstance(tgt, ast.Name) and isinstance(val, ast.Call) and src(val.func) == "next":
                self.env[tgt.id] = self.item(val, loops, facts)
                return
            if isinstance(tgt, ast.Subscript) and isinstance(tgt.value, ast.Name) and tgt.value.id in self.dicts:
                el = self.elem(loops)
                if el is None or src(tgt.slice) != el[1]:
                    raise Incomplete("dictionary store not keyed by the loop element")
                self.dicts[tgt.value.id][1].append((el[2], facts, self.item(val, loops, facts)))
                return
            lr = self.list_ref(tgt)
            if lr is not None and isinstance(val, ast.ListComp) and self.role_comp(val):
                del lr[:]
                self.emit_comp(lr, val, loops, facts)
                return
            if isinstance(tgt, ast.Name) and isinstance(val, ast.Subscript) and self.list_ref(val) is not None:
                self.vars[tgt.id] = self.list_ref(val)          # a name for one of the index lists
                return
            if isinstance(tgt, ast.Name) and isinstance(val, (ast.Subscript, ast.Name)):
                try:
                    self.env[tgt.id] = self.item(val, loops, facts)
                    return
                except Incomplete:
                    if isinstance(val, ast.Name):
                        raise
                    raise
            # formatting through a helper: x = _fmt(einsum_list_list) / a, b, c = _fmt(einsum_list_list)
            if isinstance(val, ast.Call) and len(val.args) == 1 and isinstance(val.args[0], ast.Name) and self.is_format_helper(val):
                base = self.derived.get(val.args[0].id, val.args[0].id)
                if base in self.lists:
                    if isinstance(tgt, ast.Name):
                        self.derived[tgt.id] = base
                        return
                    if isinstance(tgt, (ast.Tuple, ast.List)) and all(isinstance(e, ast.Name) for e in tgt.elts) and len(tgt.elts) == len(self.lists[base]):
                        for k, e in enumerate(tgt.elts):
                            self.env[e.id] = ("fmtidx", base, k)
                        return
            if isinstance(tgt, (ast.Tuple, ast.List)) and isinstance(val, ast.Name) and self.derived.get(val.id, val.id) in self.lists \
                    and all(isinstance(e, ast.Name) for e in tgt.elts) and len(tgt.elts) == len(self.lists[self.derived.get(val.id, val.id)]):
                for k, e in enumerate(tgt.elts):
                    self.env[e.id] = ("fmtidx", self.derived.get(val.id, val.id), k)
                return
            # formatting tail: names derived element-wise from the list of lists
            if isinstance(tgt, ast.Name) and isinstance(val, ast.ListComp) and len(val.generators) == 1 and isinstance(val.generators[0].iter, ast.Name):
                base = val.generators[0].iter.id
                base = self.derived.get(base, base)
                if base in self.lists and self._is_formatting(val):
                    self.derived[tgt.id] = base
                    return
            if isinstance(tgt, ast.Name) and isinstance(val, ast.JoinedStr):
                self.env[tgt.id] = ("fstr", val)
                return
            if isinstance(tgt, ast.Name) and isinstance(val, ast.Call) and isinstance(val.func, ast.Attribute) and val.func.attr in ("join", "format") and isinstance(val.func.value, ast.Constant):
                self.env[tgt.id] = ("strval", self.strval(val))
                return
            raise Incomplete("assignment " + src(s)[:50])
        if isinstance(s, ast.Expr) and isinstance(s.value, ast.Call) and isinstance(s.value.func, ast.Attribute) and s.value.func.attr == "append" and len(s.value.args) == 1:
            recv, arg = s.value.func.value, s.value.args[0]
            lr = self.list_ref(recv)
            if lr is not None:
                self.emit(lr, self.item(arg, loops, facts), loops, facts)
                return
            if isinstance(recv, ast.Subscript) and isinstance(recv.value, ast.Name) and recv.value.id in self.dicts:
                el = self.elem(loops)
                if el is None or src(recv.slice) != el[1]:
                    raise Incomplete("dictionary append not keyed by the loop element")
                self.dicts[recv.value.id][1].append((el[2], facts, self.item(arg, loops, facts)))
                return
            raise Incomplete("append " + src(s)[:50])
        if isinstance(s, ast.Expr) and isinstance(s.value, ast.Call) and isinstance(s.value.func, ast.Attribute) and s.value.func.attr == "extend" and len(s.value.args) == 1 \
                and not isinstance(s.value.args[0], (ast.List, ast.Tuple)) and self.list_ref(s.value.func.value) is not None:
            if self.extend_with(self.list_ref(s.value.func.value), s.value.args[0], loops, facts):
                return
            raise Incomplete("extend " + src(s)[:50])
        if isinstance(s, ast.AugAssign) and isinstance(s.op, ast.Add) and not isinstance(s.value, (ast.List, ast.Tuple)) and self.list_ref(s.target) is not None:
            if self.extend_with(self.list_ref(s.target), s.value, loops, facts):
                return
            raise Incomplete("augmented assignment " + src(s)[:50])
        if isinstance(s, ast.Expr) and isinstance(s.value, ast.Call) and isinstance(s.value.func, ast.Attribute) and s.value.func.attr == "extend" and len(s.value.args) == 1 \
                and isinstance(s.value.args[0], (ast.List, ast.Tuple)):
            # x.extend([a, b]) == x.append(a); x.append(b)
            for e in s.value.args[0].elts:
                one = ast.Expr(value=ast.Call(func=ast.Attribute(value=s.value.func.value, attr="append", ctx=ast.Load()), args=[e], keywords=[]))
                self.stmt(ast.copy_location(one, s), loops, facts)
            return
        if isinstance(s, ast.AugAssign) and isinstance(s.op, ast.Add) and isinstance(s.value, (ast.List, ast.Tuple)):
            # x += [a, b]
            for e in s.value.elts:
                one = ast.Expr(value=ast.Call(func=ast.Attribute(value=s.target, attr="append", ctx=ast.Load()), args=[e], keywords=[]))
                self.stmt(ast.copy_location(one, s), loops, facts)
            return
        if isinstance(s, ast.For):
            it = s.iter
            if isinstance(it, ast.Call) and src(it.func) == "range" and len(it.args) == 1 and self.const_int(it.args[0]) is not None:
                for k in range(self.const_int(it.args[0])):
                    if isinstance(s.target, ast.Name) and s.target.id != "_":
                        self.env[s.target.id] = k
                    self.block(s.body, loops + [("pass", src(s.target), k)], facts)
                return
            if isinstance(it, ast.Name) and it.id in self.role and isinstance(s.target, ast.Name):
                self.block(s.body, loops + [("elem", s.target.id, self.role[it.id], (id(s), self.passes(loops)))], frozenset())
                return
            # for s, c in zip(xs, counter): one fresh index per member, drawn as the loop advances
            if isinstance(it, ast.Call) and src(it.func) == "zip" and len(it.args) == 2 and isinstance(it.args[0], ast.Name) and it.args[0].id in self.role \
                    and src(it.args[1]) in self.counters and isinstance(s.target, ast.Tuple) and len(s.target.elts) == 2 and all(isinstance(e, ast.Name) for e in s.target.elts):
                lp = loops + [("elem", s.target.elts[0].id, self.role[it.args[0].id], (id(s), self.passes(loops)))]
                self.env[s.target.elts[1].id] = self.fresh(s, lp)
                self.block(s.body, lp, frozenset())
                return
            # for k, lst in enumerate(<sequence of index lists>): unrolled, `lst` names the k-th list
            if isinstance(it, ast.Call) and src(it.func) == "enumerate" and len(it.args) == 1 and self.lol_ref(it.args[0]) is not None \
                    and isinstance(s.target, ast.Tuple) and len(s.target.elts) == 2 and all(isinstance(e, ast.Name) for e in s.target.elts):
                for k, lst in enumerate(self.lol_ref(it.args[0])):
                    self.env[s.target.elts[0].id] = k
                    self.vars[s.target.elts[1].id] = lst
                    self.block(s.body, loops + [("pass", s.target.elts[0].id, k)], facts)
                return
            if self.lol_ref(it) is not None and isinstance(s.target, ast.Name):
                for k, lst in enumerate(self.lol_ref(it)):
                    self.vars[s.target.id] = lst
                    self.block(s.body, loops + [("pass", s.target.id, k)], facts)
                return
            raise Incomplete("loop over " + src(it)[:40])
        if isinstance(s, ast.If):
            t = s.test
            neg = False
            if isinstance(t, ast.UnaryOp) and isinstance(t.op, ast.Not):
                t, neg = t.operand, True
            el = self.elem(loops)
            if isinstance(t, ast.Compare) and len(t.ops) == 1 and isinstance(t.ops[0], (ast.In, ast.NotIn)) and isinstance(t.comparators[0], ast.Name) \
                    and t.comparators[0].id in self.role and el is not None and src(t.left) == el[1]:
                pos = isinstance(t.ops[0], ast.In) != neg
                l = self.role[t.comparators[0].id]
                if l == el[2]:
                    # x in <the list being iterated> is always true
                    self.block(s.body if pos else s.orelse, loops, facts)
                    return
                f_b, f_o = ("in" if pos else "notin", l), ("notin" if pos else "in", l)
                env0 = dict(self.env)
                self.block(s.body, loops, facts | {f_b})
                env_b = self.env
                self.env = dict(env0)
                self.block(s.orelse, loops, facts | {f_o})
                env_o = self.env
                merged = dict(env0)
                for nm in set(env_b) | set(env_o):
                    vb, vo = env_b.get(nm, env0.get(nm)), env_o.get(nm, env0.get(nm))
                    if vb == vo:
                        merged[nm] = vb
                    elif vb is not None and vo is not None and _is_index(vb) and _is_index(vo):
                        merged[nm] = ("cond", (f_b, vb), (f_o, vo))
                    else:
                        merged[nm] = vb if vb is not None else vo
                self.env = merged
                return
            raise Incomplete("condition " + src(s.test)[:40])
        if isinstance(s, ast.Return):
            v = s.value
            if isinstance(v, ast.Name) and isinstance(self.env.get(v.id), tuple) and self.env[v.id][0] == "fstr":
                v = self.env[v.id][1]
            pieces = self.strval(v)
            # pieces: a flat list of literal text and ("S", index list) / ("J", [index lists]) values
            txt = ""
            order: List[List[Seg]] = []
            for pc in pieces:
                if isinstance(pc, str):
                    txt += pc
                elif pc[0] == "S":
                    order.append(pc[1])
                    txt += "{}"
                else:
                    order += list(pc[1])
                    txt += ",".join("{}" for _ in pc[1])
            if "->" not in txt:
                raise Incomplete("returned string has no `->`")
            lhs, rhs = txt.split("->")
            if rhs != "{}" or lhs.replace("{}", "").strip(",") != "" or lhs.count("{}") != lhs.count(",") + 1:
                raise Incomplete(f"returned string shape `{txt}`")
            self.result = (order[:-1], order[-1])
            return
        raise Incomplete("statement " + src(s)[:50])

    @staticmethod
    def _is_formatting(comp: ast.ListComp) -> bool:
        """element-wise, injective formatting: chr(97 + i) per index, joined"""
        t = src(comp.elt)
        return "chr(" in t or ".join(" in t


def _is_index(v) -> bool:
    return isinstance(v, tuple) and bool(v) and v[0] in ("fam", "sym", "cond")


def canonical(operands: List[List[Seg]], output: List[Seg]):
    """rename families/symbols by first occurrence; normalise complementary guarded emissions"""
    names: Dict[object, str] = {}

    def nm(e: Expr) -> str:
        if e not in names:
            names[e] = f"{'f' if e[0] == 'fam' else 'k'}{len(names)}"
        return names[e]

    def split(sg: Seg):
        """a per-member family restricted to members inside / outside the operand list are independent
        index sets: guard every emission by its membership fact and name the family per domain"""
        if sg.kind != "map":
            return list(sg.items)
        out = []
        for f, e in sg.items:
            if e[0] != "fam":
                out.append((f, e))
            elif sg.over == "T":
                out.append((f, ("fam", (e[1], "in"))))
            elif ("in", "T") in f:
                out.append((f, ("fam", (e[1], "in"))))
            elif ("notin", "T") in f:
                out.append((f, ("fam", (e[1], "notin"))))
            else:
                out.append((f | {("in", "T")}, ("fam", (e[1], "in"))))
                out.append((f | {("notin", "T")}, ("fam", (e[1], "notin"))))
        return out

    def seq(lst: List[Seg]):
        out = []
        for sg in lst:
            items = split(sg)
            # emissions of one member are kept in order; a run of mutually exclusive guarded emissions is sorted
            norm, run = [], []
            for it in items:
                if run and _exclusive([run[-1], it]):
                    run.append(it)
                else:
                    norm += sorted(run, key=lambda t: tuple(sorted(t[0])))
                    run = [it]
            norm += sorted(run, key=lambda t: tuple(sorted(t[0])))
            out.append((sg.kind, sg.over, tuple((tuple(sorted(f)), nm(e)) for f, e in norm)))
        return tuple(out)

    return tuple(seq(o) for o in operands), seq(output)


def _exclusive(items) -> bool:
    if len(items) != 2:
        return False
    (f1, _), (f2, _) = items
    return any((k, l) in f1 and (("notin" if k == "in" else "in"), l) in f2 for k, l in f1)


def show(term) -> str:
    def seq(s):
        parts = []
        for kind, over, items in s:
            if kind == "one":
                parts.append("[" + items[0][1] + "]")
            else:
                body = ", ".join((e + (" if " + " & ".join(f"x {k} {l}" for k, l in f) if f else "")) for f, e in items)
                parts.append(f"[{body} | x∈{over}]")
        return " ++ ".join(parts) or "[]"
    ops, out = term
    return "; ".join(seq(o) for o in ops) + "  ->  " + seq(out)


# ------------------------------------------------------------------------------------ specification
def _m(over, *items):
    return Seg("map", over, [(frozenset(f), e) for f, e in items], object())


def _o(e):
    return Seg("one", None, [(frozenset(), e)])


I, O, P2, R, C, K = ("fam", "i"), ("fam", "o"), ("fam", "p"), ("fam", "r"), ("fam", "c"), ("sym", "k")
IN_T, NOT_T = {("in", "T")}, {("notin", "T")}


def spec(name: str):
    if name == "apply_operator_vector":
        return canonical([[_m("T", ((), O)), _m("T", ((), I))], [_m("S", ((), I)), _o(K)]],
                         [_m("S", (IN_T, O), (NOT_T, I)), _o(K)])
    if name == "apply_operator_matrix":
        return canonical([[_m("T", ((), O)), _m("T", ((), R))], [_m("S", ((), R)), _m("S", ((), C))], [_m("T", ((), P2)), _m("T", ((), C))]],
                         [_m("S", (IN_T, O), (NOT_T, R)), _m("S", (IN_T, P2), (NOT_T, C))])
    if name == "reorder_vector":
        return canonical([[_m("S", ((), I)), _o(K)]], [_m("T", ((), I)), _o(K)])
    if name == "reorder_matrix":
        return canonical([[_m("S", ((), R)), _m("S", ((), C))]], [_m("T", ((), R)), _m("T", ((), C))])
    if name in ("trace_out_vector", "measure_vector"):
        # marginalising string: the indices of the other members are summed – meaningful for a tensor of
        # probabilities |amplitude|^2 only; the consumer is checked at the call site (ESCCALL / SAMP-e)
        return canonical([[_m("S", ((), I)), _o(K)]], [_m("S", (IN_T, I)), _o(K)])
    if name in ("trace_out_matrix", "measure_matrix"):
        # partial trace: a dropped member's column index *is* its row index; kept members keep (r, c) in storage order
        return canonical([[_m("S", ((), R)), _m("S", (IN_T, C), (NOT_T, R))]],
                         [_m("S", (IN_T, R)), _m("S", (IN_T, C))])
    return None


def _drops_amplitude_index(term) -> bool:
    """vector generators: for some member an input index is absent from the output (einsum then
    *sums amplitudes* over it)"""
    ops, out = term
    out_items = [(over, set(f), e) for kind, over, items in out for f, e in items]
    for o in ops:
        for kind, over, items in o:
            for f, e in items:
                covered = any(e2 == e and (f2 <= set(f)) and (over2 == over or kind == "one") for over2, f2, e2 in out_items)
                if not covered:
                    return True
    return False


def summarise(fi: FuncInfo, repo: Optional[Repo] = None):
    def is_fmt(call: ast.Call) -> bool:
        if repo is None or not isinstance(call.func, ast.Name):
            return False
        h = repo.funcs.get(f"{fi.module.name.split('.')[-1]}:{call.func.id}")
        if h is None:
            return False
        t = ast.unparse(h.orig or h.node)
        return "chr(" in t and "next(" not in t and len(h.params) == 1
    # the body with new private helpers spliced in first (index-drawing helpers), the function as written second (formatting helpers)
    bodies = [fi.node] + ([fi.orig] if getattr(fi, "orig", None) is not None and fi.orig is not fi.node else [])
    last: Optional[Incomplete] = None
    for b in bodies:
        try:
            operands, output = Summ(b, is_fmt).run()
            return canonical(operands, output)
        except Incomplete as ex:
            last = last or ex
    raise last


@rule("ESCGEN")
def escgen(repo: Repo) -> List[Ob]:
    obs: List[Ob] = []
    analysed = 0
    for name in GENERATORS:
        fi = repo.func(f"einsum_constructor:{name}")
        props = ESC_PROPS[name]
        try:
            got = summarise(fi, repo)
        except Incomplete as ex:
            obs.append(skip("ESCGEN", fi, "summary", props, fi.node, f"generator uses a construct outside the summariser's vocabulary ({ex})"))
            continue
        analysed += 1
        want = spec(name)
        if want is not None:
            if got == want:
                obs.append(ok("ESCGEN", fi, "summary", props, fi.node, f"summary equals the specification for all list lengths/orders: {show(got)}"))
            else:
                obs.append(bad("ESCGEN", fi, "summary", props, fi.node,
                               f"generated einsum indices differ from the specification. got: {show(got)}  |  expected: {show(want)}"))
    if analysed < 6:
        raise AnalysisError(f"ESCGEN: only {analysed} of {len(GENERATORS)} generators could be summarised (floor 6)")
    return obs


# ------------------------------------------------------------------------------------ ESCCALL
def _tracks_state_objs(e: ast.AST, fi: FuncInfo, depth=0) -> bool:
    """expression denotes the product space's member list in storage order"""
    if src(e) == "self.state_objs":
        return True
    if isinstance(e, ast.Name) and depth < 2:
        defs = assignments_to(fi.node, e.id)
        if not defs:
            return False
        for d in defs:
            v = getattr(d, "value", None)
            if isinstance(v, ast.ListComp) and len(v.generators) == 1 and not v.generators[0].ifs and src(v.elt) == src(v.generators[0].target):
                v = v.generators[0].iter
            elif isinstance(v, ast.Call) and isinstance(v.func, ast.Name) and v.func.id == "list" and v.args:
                v = v.args[0]
            if v is None or not _tracks_state_objs(v, fi, depth + 1):
                return False
        return True
    return False


def _operand_list(e: ast.AST, fi: FuncInfo) -> Optional[str]:
    """'varargs' if e is list(<vararg>) (order preserving), 'single' if [<loop var over vararg>]"""
    va = fi.node.args.vararg.arg if fi.node.args.vararg else None
    if isinstance(e, ast.Name) and e.id != va:
        from ..model import single_defs
        d = single_defs(fi.node).get(e.id)           # `targets = list(states)` … generator(storage, targets)
        if d is not None and not any(method_call(c) and src(method_call(c)[0]) == e.id and method_call(c)[1] in ("sort", "reverse", "append", "extend", "insert", "remove", "pop", "clear")
                                     for c in walk_no_nested(fi.node)):
            e = d
    if isinstance(e, ast.Call) and isinstance(e.func, ast.Name) and e.func.id in ("list", "tuple") and e.args and src(e.args[0]) == va:
        return "varargs"
    if isinstance(e, ast.Name) and e.id == va:
        return "varargs"
    if isinstance(e, ast.List) and len(e.elts) == 1 and isinstance(e.elts[0], ast.Name):
        for n in walk_no_nested(fi.node):
            if isinstance(n, ast.For) and any(isinstance(t, ast.Name) and t.id == e.elts[0].id for t in ast.walk(n.target)):
                if va and va in src(n.iter):
                    return "single"
    if isinstance(e, ast.ListComp) and len(e.generators) == 1 and src(e.generators[0].iter) == va and not e.generators[0].ifs and src(e.elt) == src(e.generators[0].target):
        return "varargs"
    return None


def order_established(repo: Repo, fi: FuncInfo, node, cfg: CFG):
    """is the requested member order established when `node` of the product-space method `fi` executes?  (local, callers, missing):
    local – a self.reorder(...) dominates the node in the method itself; otherwise every call site of the method on a product space
    must be dominated by `self.reorder(<the subsystems it passes on>)` in its own function; `missing` names those that are not"""
    from ..types import Typer as _Typer
    fn = fi.node
    ro = {n for n in cfg.nodes for y in walk_node(n) if method_call(y) and method_call(y)[1] == "reorder" and src(method_call(y)[0]) == "self"}
    local = bool(ro) and node is not None and cfg.must_pass_through(node, ro)
    missing: List[str] = []
    n_callers = 0
    if local:
        return True, 0, missing
    for g in repo.scan_functions():
        if not g.module.name.startswith("photon_weave") or g.node is fn:
            continue
        calls = [y for y in walk_no_nested(g.node) if method_call(y) and method_call(y)[1] == fn.name and src(method_call(y)[0]) != "self"]
        if not calls:
            continue
        ty = _Typer(repo, g)
        calls = [y for y in calls if "ProductState" in (ty.classes(method_call(y)[0]) or {"ProductState"})]
        if not calls:
            continue
        gcfg = CFG(g.node)
        for y in calls:
            n_callers += 1
            gn = gcfg.node_containing(y)
            passed = {src(a_) for a_ in y.args}
            gro = {n for n in gcfg.nodes for z in walk_node(n) if method_call(z) and method_call(z)[1] == "reorder" and src(method_call(z)[0]) == "self"
                   and z.args and {src(a_) for a_ in z.args} <= passed}
            if gn is None or not gro or not gcfg.must_pass_through(gn, gro):
                missing.append(f"{g.qualname}:{y.lineno}")
    return False, n_callers, missing


@rule("ESCCALL")
def esccall(repo: Repo) -> List[Ob]:
    obs: List[Ob] = []
    sites = 0
    for fi in repo.scan_functions():
        if fi.cls is None or fi.cls.name not in ("ProductState", "CompositeEnvelope", "CompositeEnvelopeContainer"):
            continue
        calls = []
        for n in walk_no_nested(fi.node):
            if isinstance(n, ast.Call):
                d = dotted(n.func) or ""
                if "." in d and (resolve_alias(d, fi).startswith("photon_weave.extra.einsum_") or (d.split(".")[0] == "ESC" and d.split(".")[-1] in GENERATORS)):
                    calls.append((n, d.split(".")[-1]))
        if not calls:
            continue
        cfg, lv = self_levels(fi)
        calls.sort(key=lambda c: (c[0].lineno, c[0].col_offset))
        for i, (c, gen) in enumerate(calls, 1):
            sites += 1
            props = ESC_PROPS.get(gen, ("C01",))
            key = f"{gen}#{i}"
            problems = []
            if len(c.args) != 2:
                problems.append("generator is not called with (storage list, operand list)")
            else:
                if not _tracks_state_objs(c.args[0], fi):
                    problems.append(f"first argument `{src(c.args[0])}` is not the product space's member list in storage order")
                if _operand_list(c.args[1], fi) is None:
                    if _tracks_state_objs(c.args[1], fi):
                        problems.append("second argument is the storage list: operator factors would bind in storage order instead of the order given by the caller")
                    else:
                        problems.append(f"second argument `{src(c.args[1])}` is not derived order-preservingly from the requested subsystems")
            node = cfg.node_containing(c)
            levels = set(lv.get(node, frozenset())) - {0} if node is not None else set()
            if gen.endswith("_vector") and levels and levels != {1}:
                problems.append(f"a *_vector generator is used where the product space may be at level {sorted(levels)}")
            if gen.endswith("_matrix") and levels and levels != {2}:
                problems.append(f"a *_matrix generator is used where the product space may be at level {sorted(levels)}")
            # the einsum that consumes the string: operand count
            tgt = None
            for n in walk_no_nested(fi.node):
                if isinstance(n, ast.Assign) and n.value is c and isinstance(n.targets[0], ast.Name):
                    tgt = n.targets[0].id
            if tgt:
                uses = [n for n in walk_no_nested(fi.node) if isinstance(n, ast.Call) and call_np(n) == "einsum" and n.args and src(n.args[0]) == tgt and n.lineno >= c.lineno]
                # only the uses this definition reaches
                uses = [u for u in uses if cfg.node_containing(u) is not None and any(d.ast is not None and any(x is c for x in ast.walk(d.ast)) for d in cfg.reaching_defs(cfg.node_containing(u), tgt))]
                want_ops = {"apply_operator_vector": 2, "apply_operator_matrix": 3}.get(gen, 1)
                for u in uses:
                    if gen in ("trace_out_vector", "measure_vector") and len(u.args) == 2:
                        from ..domains import is_abs2
                        from ..cfg import resolve_at as _ra
                        un = cfg.node_containing(u)
                        operand = _ra(cfg, un, u.args[1], depth=3) if un is not None else u.args[1]     # `populations = square(abs(ps))` read through
                        if is_abs2(u.args[1]) is None and is_abs2(operand) is None:
                            problems.append(f"the marginalising string of ESC.{gen} is applied to the *amplitude* tensor `{src(u.args[1])[:30]}`: the amplitudes of the other members are summed "
                                            "(a ket has no partial trace; |amplitude|^2 must be taken first or the state promoted to a density matrix)")
                    if len(u.args) - 1 != want_ops:
                        problems.append(f"the einsum using this string has {len(u.args) - 1} operands, the generator produces a string for {want_ops}")
                    elif gen == "apply_operator_matrix":
                        cj = is_conj(u.args[3])
                        if cj is None or src(cj) != src(u.args[1]):
                            problems.append("third einsum operand is not the conjugate of the first")
                if not uses:
                    problems.append("generated string is never used by an einsum")
            (obs.append(bad("ESCCALL", fi, key, props, c, "; ".join(problems))) if problems else
             obs.append(ok("ESCCALL", fi, key, props, c, "storage list and operand list in the right slots, level and operand count agree")))
        # reshape pairing: operator reshaped over the operand list, state over the storage list
        for n in walk_no_nested(fi.node):
            mc = method_call(n)
            if mc and mc[1] == "reshape" and n.args:
                a = n.args[0]
                if isinstance(a, ast.Name):
                    ds = [d for d in assignments_to(fi.node, a.id) if getattr(d, "lineno", 0) <= n.lineno]
                    if ds and getattr(ds[-1], "value", None) is not None:
                        # nearest preceding definition (shape = [...]; shape.append(1))
                        a = ds[-1].value
                # `targets = list(states)` / `tuple(states)`: a plain copy of the operand tuple is the operand tuple
                va_ = fi.node.args.vararg.arg if fi.node.args.vararg else None
                if va_:
                    from ..model import single_defs as _sd2
                    copies = {k_ for k_, v_ in _sd2(fi.node).items() if (isinstance(v_, ast.Call) and isinstance(v_.func, ast.Name) and v_.func.id in ("list", "tuple") and len(v_.args) == 1
                                                                          and src(v_.args[0]) == va_) or src(v_) == va_}
                    copies = {k_ for k_ in copies if not any(method_call(c_) and src(method_call(c_)[0]) == k_ and method_call(c_)[1] in ("sort", "reverse", "append", "extend", "insert", "remove", "pop", "clear")
                                                             for c_ in walk_no_nested(fi.node))}
                    if copies:
                        import copy as _cp

                        class _V(ast.NodeTransformer):
                            def visit_Name(self, nn):
                                return ast.copy_location(ast.Name(id=va_, ctx=nn.ctx), nn) if nn.id in copies and isinstance(nn.ctx, ast.Load) else nn
                        a = _V().visit(_cp.deepcopy(a))
                t = src(a)
                recv = src(mc[0])
                if ".dimensions for" in t:
                    over_storage = "in self.state_objs" in t
                    va = fi.node.args.vararg.arg if fi.node.args.vararg else "?"
                    over_operands = f"in {va}]" in t or f"in {va})" in t
                    is_op = "operator" in recv or recv == "op"
                    is_state = recv in ("self.state",)
                    if is_op:
                        sites += 0
                        (obs.append(ok("ESCCALL", fi, f"reshape:{recv}", ("C01", "C03", "C06", "C09"), n, "operator reshaped over the operand list")) if over_operands and not over_storage else
                         obs.append(bad("ESCCALL", fi, f"reshape:{recv}", ("C01", "C03", "C06", "C09"), n, f"the operator is reshaped with `{t[:60]}` – not the dimensions of the requested subsystems in the order given")))
                    elif is_state:
                        (obs.append(ok("ESCCALL", fi, f"reshape:{recv}", ("C01", "C02", "C03"), n, "state reshaped over the storage list")) if over_storage else
                         obs.append(bad("ESCCALL", fi, f"reshape:{recv}", ("C01", "C02", "C03"), n, f"the stored state is reshaped with `{t[:60]}` – not the member dimensions in storage order")))
    # a reduced tensor built with a storage-order-preserving string (trace_out_* / measure_*) has its factors in *storage* order;
    # an operator supplied by the caller is laid out over the operands in the order *given*.  Multiplying the two is only
    # meaningful after the product space itself was reordered to the operand order in the same function.
    for fi in [f for f in repo.cls("ProductState").methods.values() if any(p_ in ("operators", "operator", "operation") for p_ in f.params)]:
        fn = fi.node
        gen_strings = {}
        for a in walk_no_nested(fn):
            if isinstance(a, ast.Assign) and len(a.targets) == 1 and isinstance(a.targets[0], ast.Name) and isinstance(a.value, ast.Call):
                d = (dotted(a.value.func) or "").split(".")[-1]
                if d in ("trace_out_matrix", "trace_out_vector", "measure_matrix", "measure_vector"):
                    gen_strings[a.targets[0].id] = d
        if not gen_strings:
            continue
        storage = {}       # local name -> generator it came from
        for _ in range(3):
            for a in walk_no_nested(fn):
                if isinstance(a, ast.Assign) and len(a.targets) == 1 and isinstance(a.targets[0], ast.Name):
                    v = a.value
                    base = v
                    while method_call(base) and method_call(base)[1] in ("reshape", "astype", "copy"):
                        base = method_call(base)[0]
                    if isinstance(base, ast.Call) and call_np(base) == "einsum" and len(base.args) == 2 and isinstance(base.args[0], ast.Name) and base.args[0].id in gen_strings:
                        storage[a.targets[0].id] = gen_strings[base.args[0].id]
                    elif isinstance(base, ast.Name) and base.id in storage and base is not v:
                        storage[a.targets[0].id] = storage[base.id]
        if not storage:
            continue
        ops_names = {"operators", "operator"} | {src(l.target) for l in walk_no_nested(fn) if isinstance(l, (ast.For, ast.comprehension)) and "operators" in src(l.iter)}
        for _ in range(2):
            for a in walk_no_nested(fn):
                if isinstance(a, ast.Assign) and len(a.targets) == 1 and isinstance(a.targets[0], ast.Name) and any(isinstance(x, ast.Name) and x.id in ops_names for x in ast.walk(a.value)) \
                        and a.targets[0].id not in storage:
                    ops_names.add(a.targets[0].id)
        cfg = CFG(fn)
        ro = {n for n in cfg.nodes for x in walk_node(n) if method_call(x) and method_call(x)[1] == "reorder" and src(method_call(x)[0]) == "self"}
        k = 0
        for n in cfg.nodes:
            for x in walk_node(n):
                operands = None
                if isinstance(x, ast.BinOp) and isinstance(x.op, ast.MatMult):
                    operands = [x.left, x.right]
                elif isinstance(x, ast.Call) and call_np(x) in ("matmul", "dot", "tensordot"):
                    operands = list(x.args[:2])
                elif isinstance(x, ast.Call) and call_np(x) == "einsum" and len(x.args) >= 3:
                    operands = list(x.args[1:])
                if not operands:
                    continue
                names = [{y.id for y in ast.walk(o) if isinstance(y, ast.Name)} for o in operands]
                has_storage = any(nm & set(storage) for nm in names)
                has_op = any((nm & ops_names) and not (nm & set(storage)) for nm in names)
                if has_storage and has_op:
                    k += 1
                    good = bool(ro) and cfg.must_pass_through(n, ro)
                    st_name = sorted(set().union(*names) & set(storage))[0]
                    (obs.append(ok("ESCCALL", fi, f"storage-order-meets-operand-order#{k}", ("C09", "C06", "C01", "C03"), x, "the product space was reordered to the operand order first")) if good else
                     obs.append(bad("ESCCALL", fi, f"storage-order-meets-operand-order#{k}", ("C09", "C06", "C01", "C03"), x,
                                    f"`{st_name}` comes from ESC.{storage[st_name]} and keeps the members in *storage* order, but it is multiplied with a caller-supplied operator whose factors follow the order "
                                    "the operands were *given* in: unless the product space was reordered to that order, the operator factors act on the wrong subsystems")))
    # a contraction of the stored tensor with a caller-supplied operator whose subscripts are a *literal* fixes in the source which axes
    # the operator meets, while which member sits on which axis is decided at run time by state_objs: it is only meaningful when the
    # requested order has been established first – by self.reorder(*states) in the same method, or by every caller before it delegates
    from ..types import Typer as _Typer
    for fi in [f for f in repo.cls("ProductState").methods.values() if f.qualname not in getattr(repo, "absorbed", ())]:
        fn = fi.node
        cfg = None
        k = 0
        state_names = set()
        for _ in range(2):
            for a in walk_no_nested(fn):
                if isinstance(a, ast.Assign) and len(a.targets) == 1 and isinstance(a.targets[0], ast.Name):
                    base = a.value
                    while method_call(base) and method_call(base)[1] in ("reshape", "astype", "copy"):
                        base = method_call(base)[0]
                    if isinstance(base, ast.Call) and call_np(base) in ("reshape", "asarray", "array") and base.args:
                        base = base.args[0]
                    if src(base) == "self.state" or (isinstance(base, ast.Name) and base.id in state_names):
                        state_names.add(a.targets[0].id)
        for x in walk_no_nested(fn):
            if not (isinstance(x, ast.Call) and call_np(x) == "einsum" and len(x.args) >= 3):
                continue
            cfg = cfg or CFG(fn)
            node = cfg.node_containing(x)
            sub = x.args[0]
            lit = None
            if isinstance(sub, ast.Constant) and isinstance(sub.value, str):
                lit = sub.value
            elif isinstance(sub, ast.Name) and node is not None:
                ds = cfg.reaching_defs(node, sub.id)
                vals = [d.ast.value for d in ds if d is not cfg.entry and d.kind == "stmt" and isinstance(d.ast, ast.Assign) and len(d.ast.targets) == 1 and src(d.ast.targets[0]) == sub.id]
                if ds and len(vals) == len(ds) and all(isinstance(v, ast.Constant) and isinstance(v.value, str) for v in vals):
                    lit = vals[0].value
            if lit is None:
                continue
            opnds = x.args[1:]
            from_state = [o for o in opnds if any((isinstance(y, ast.Name) and y.id in state_names) or src(y) == "self.state" for y in ast.walk(o))]
            params = set(fi.params) - {"self"}
            loopvars = {src(l.target) for l in ast.walk(fn) if isinstance(l, (ast.For, ast.comprehension)) and any(isinstance(y, ast.Name) and y.id in params for y in ast.walk(l.iter))}
            from_caller = [o for o in opnds if o not in from_state and any(isinstance(y, ast.Name) and (y.id in params or y.id in loopvars) for y in ast.walk(o))]
            if not from_state or not from_caller:
                continue
            k += 1
            local, n_callers, missing = order_established(repo, fi, node, cfg)
            good = local or (n_callers > 0 and not missing)
            props = ESC_PROPS.get({"apply_kraus": "apply_operator_matrix", "measure_POVM": "apply_operator_matrix"}.get(fn.name, "apply_operator_matrix"), ("C01",))
            props = {"apply_kraus": ("C06",), "measure_POVM": ("C09",), "apply_operation": ("C01", "C03")}.get(fn.name, ("C01", "C06", "C09"))
            (obs.append(ok("ESCCALL", fi, f"literal-contraction#{k}", props, x, "the requested order is established before this fixed-axis contraction")) if good else
             obs.append(bad("ESCCALL", fi, f"literal-contraction#{k}", props, x,
                            f"`{lit}` contracts the stored tensor with a caller-supplied operator on axes fixed in the source, but which member sits on which axis is decided by state_objs at run time: "
                            + ("no self.reorder(...) precedes it here" + (f" and the caller(s) {', '.join(missing)} can reach the call without `self.reorder(*<the same subsystems>)`" if missing else " and no caller establishes the order")))))
    lits = sum(1 for o in obs if o.key.startswith("literal-contraction"))
    if sites + lits < 12:
        raise AnalysisError(f"ESCCALL: {sites} generator call sites (floor 12)")
    # CompositeEnvelope.trace_out: reorder(*states) precedes ps.trace_out(*states) (the generator keeps storage order)
    ce = repo.func("CompositeEnvelope.trace_out")
    cfg = CFG(ce.node)
    from ..types import Typer
    typer = Typer(repo, ce)
    # partial traces taken from a product space (a single member outside every product space may answer for itself: one
    # subsystem has no order)
    to = [n for n in cfg.nodes for x in walk_node(n) if method_call(x) and method_call(x)[1] == "trace_out" and src(method_call(x)[0]) != "self"
          and (typer.classes(method_call(x)[0]) == {"ProductState"} or not typer.classes(method_call(x)[0])) and not (x.args == [] and isinstance(method_call(x)[0], ast.Subscript))]
    ro = {n for n in cfg.nodes for x in walk_node(n) if method_call(x) and method_call(x)[1] == "reorder" and src(method_call(x)[0]) == "self"}
    if not to:
        raise AnalysisError("ESCCALL: CompositeEnvelope.trace_out delegates nowhere")
    good = all(cfg.must_pass_through(t, ro) for t in to)
    tprops: tuple = ("C02",)
    extra = ""
    if not good:
        # without the reorder the order of the kept members is whatever each generator emits: when the ket generator and the density-matrix
        # generator follow different lists (storage order / requested order) the same request gives differently ordered reduced states
        # depending on the representation level – i.e. on the contraction setting
        dv, dm = _output_order_driver(repo.func("einsum_constructor:trace_out_vector")), _output_order_driver(repo.func("einsum_constructor:trace_out_matrix"))
        if dv and dm and dv != dm:
            tprops = ("C02", "C08")
            extra = (f"; the ket generator emits the kept members in {'/'.join(sorted(dv))} order, the density-matrix generator in {'/'.join(sorted(dm))} order: "
                     "the same request returns differently ordered reduced states depending on the representation level, i.e. on the contraction setting")
    (obs.append(ok("ESCCALL", ce, "reorder-before-trace", ("C02",), ce.node, "requested order is established before the partial trace")) if good else
     obs.append(bad("ESCCALL", ce, "reorder-before-trace", tprops, ce.node, "ps.trace_out() is reachable without self.reorder(*states): the reduced state comes back in storage order, not in the requested order" + extra)))
    return obs


def _output_order_driver(fi: FuncInfo) -> Set[str]:
    """which parameter list drives the order in which indices are put on the *output* side of a two-part generator
    (`lists = [[], []]` … `lists[1].append/extend`): {'storage'} for the first parameter, {'requested'} for the second"""
    fn = getattr(fi, "orig", None) or fi.node
    params = [a.arg for a in fn.args.args]
    if len(params) < 2:
        return set()
    lol = set()
    for a in walk_no_nested(fn):
        tg = a.targets[0] if isinstance(a, ast.Assign) and len(a.targets) == 1 else (a.target if isinstance(a, ast.AnnAssign) else None)
        v = getattr(a, "value", None)
        if isinstance(tg, ast.Name) and isinstance(v, ast.List) and len(v.elts) == 2 and all(isinstance(e, ast.List) and not e.elts for e in v.elts):
            lol.add(tg.id)
    parents = {id(c): p_ for p_ in ast.walk(fn) for c in ast.iter_child_nodes(p_)}
    out: Set[str] = set()

    def role(name: str) -> Optional[str]:
        return "storage" if name == params[0] else "requested" if name == params[1] else None
    for c in walk_no_nested(fn):
        mc = method_call(c)
        if not (mc and mc[1] in ("append", "extend") and isinstance(mc[0], ast.Subscript) and isinstance(mc[0].value, ast.Name) and mc[0].value.id in lol
                and isinstance(mc[0].slice, ast.Constant) and mc[0].slice.value == 1):
            continue
        driver = None
        # a comprehension / generator argument:  extend(x for so in <list>)
        for a in c.args:
            if isinstance(a, (ast.GeneratorExp, ast.ListComp)) and a.generators and isinstance(a.generators[0].iter, ast.Name):
                driver = role(a.generators[0].iter.id)
        if driver is None:
            # the innermost enclosing loop over one of the two parameter lists
            x = c
            while id(x) in parents:
                x = parents[id(x)]
                if isinstance(x, ast.For) and isinstance(x.iter, ast.Name) and role(x.iter.id):
                    driver = role(x.iter.id)
                    break
        if driver:
            out.add(driver)
    return out
