"""RNB – runtime name binding (DESIGN §3).

Every Name load evaluated at run time inside a function body resolves to a parameter,
a local, an enclosing-function local, a function-local import, a module-level *runtime*
binding or a builtin.  A name whose only module-level binding sits under
``if TYPE_CHECKING:`` is unbound at run time.  Function-local imports must dominate
their uses.
"""
from __future__ import annotations

import ast
from typing import List

from ..cfg import CFG, walk_node
from ..model import BUILTINS, AnalysisError, Repo, walk_no_nested
from ..report import Ob, bad, ok
from ..scope import annotation_nodes, lambda_params, local_bindings
from . import props_of, rule


def _nested_defs(fn):
    for n in ast.walk(fn):
        if isinstance(n, (ast.FunctionDef, ast.AsyncFunctionDef)) and n is not fn:
            yield n


@rule("RNB")
def rnb(repo: Repo) -> List[Ob]:
    obs: List[Ob] = []
    n_funcs = 0
    for fi in repo.all_functions():
        if fi.module.relpath.startswith("examples/"):
            continue
        n_funcs += 1
        fn = fi.orig or fi.node      # name binding is a fact about the function as written
        props = props_of(fi)
        locals_, limports, outer = local_bindings(fn)
        ann = annotation_nodes(fn)
        lam = lambda_params(fn)
        mod = fi.module
        open_module = any(isinstance(st, ast.ImportFrom) and any(a.name == "*" for a in st.names) and not (st.module or "").startswith("photon_weave") and st.level == 0
                          for st in ast.walk(mod.tree))
        class_names = set()
        if fi.cls is not None:
            # class-body names are NOT visible from method bodies; nothing to add
            pass
        bad_names = {}
        loads = 0
        for n in (x for b in fn.body for x in ast.walk(b)):
            if not isinstance(n, ast.Name) or not isinstance(n.ctx, ast.Load):
                continue
            if id(n) in ann:
                continue
            loads += 1
            name = n.id
            if name in locals_ or name in lam.get(id(n), ()):
                continue
            if name in mod.runtime_names or name in BUILTINS:
                continue
            if name in ("__class__", "__file__", "__name__", "__doc__", "__package__", "__spec__", "__loader__", "__path__"):
                continue
            if open_module and name not in mod.typecheck_names:
                continue          # `from <external> import *` may bind it
            why = "bound only under `if TYPE_CHECKING:`" if name in mod.typecheck_names else "not bound anywhere"
            bad_names.setdefault(name, (n, why))
        for name, (n, why) in sorted(bad_names.items()):
            obs.append(bad("RNB", fi, f"name={name}", props, n,
                           f"`{name}` is evaluated at run time but is {why} -> NameError on this path"))
        if not bad_names:
            obs.append(ok("RNB", fi, "all-names-bound", props, fn, f"{loads} name loads resolved"))

        # function-local imports must dominate their uses (a moved import is a NameError/UnboundLocalError)
        if limports:
            cfg = CFG(fn)
            imp_nodes = {}
            for node in cfg.nodes:
                if node.kind == "stmt" and isinstance(node.ast, (ast.Import, ast.ImportFrom)):
                    for a in node.ast.names:
                        nm = a.asname or a.name.split(".")[0]
                        imp_nodes.setdefault(nm, set()).add(node)
            for node in cfg.nodes:
                if node.kind == "stmt" and isinstance(node.ast, (ast.Import, ast.ImportFrom)):
                    continue
                for x in walk_node(node):
                    if isinstance(x, ast.Name) and isinstance(x.ctx, ast.Load) and x.id in imp_nodes and id(x) not in ann:
                        # only names with no other local binding
                        others = [s for s in walk_no_nested(fn) if isinstance(s, (ast.Assign, ast.For, ast.AnnAssign)) and x.id in {t.id for t in ast.walk(s) if isinstance(t, ast.Name) and isinstance(t.ctx, ast.Store)}]
                        if others:
                            continue
                        if not cfg.must_pass_through(node, imp_nodes[x.id]):
                            obs.append(bad("RNB", fi, f"import-after-use={x.id}", props, x,
                                           f"local import of `{x.id}` does not dominate this use"))
    if n_funcs < 150:
        raise AnalysisError(f"RNB: only {n_funcs} functions analysed (floor 150)")
    return obs
