"""PURE – operations are descriptions; INTERP – expression interpreter (DESIGN §3)."""
from __future__ import annotations

import ast
from typing import Dict, List, Optional, Set, Tuple

from ..cfg import CFG, Node, explore, walk_node
from ..model import AnalysisError, FuncInfo, Repo, call_np, dotted, method_call, np_name, src, walk_no_nested
from ..report import Ob, bad, note, ok, skip
from ..scope import full_call_name, local_bindings
from . import rule
from .struct import APPLY_BODIES

MUTATORS = {"append", "extend", "insert", "remove", "pop", "clear", "update", "sort", "reverse", "setdefault", "popitem", "add", "discard"}
ENUMS = ["FockOperationType", "PolarizationOperationType", "CustomStateOperationType", "CompositeOperationType"]


def _self_writes(fn: ast.FunctionDef) -> List[Tuple[ast.AST, str]]:
    out = []
    for n in walk_no_nested(fn):
        if isinstance(n, ast.Attribute) and isinstance(n.ctx, (ast.Store, ast.Del)) and src(n.value) == "self":
            out.append((n, f"assigns self.{n.attr}"))
        if isinstance(n, ast.Subscript) and isinstance(n.ctx, (ast.Store, ast.Del)):
            root = n.value
            while isinstance(root, (ast.Subscript, ast.Attribute)):
                if isinstance(root, ast.Attribute) and src(root.value) == "self":
                    out.append((n, f"stores into self.{root.attr}[…]"))
                    break
                root = root.value
        mc = method_call(n)
        if mc and mc[1] in MUTATORS and isinstance(mc[0], ast.Attribute) and src(mc[0].value) == "self":
            out.append((n, f"calls self.{mc[0].attr}.{mc[1]}()"))
        if isinstance(n, ast.AugAssign) and isinstance(n.target, ast.Attribute) and src(n.target.value) == "self":
            out.append((n, f"augments self.{n.target.attr}"))
    return out


@rule("PURE-a")
def pure_a(repo: Repo) -> List[Ob]:
    """no method other than __init__ of an operation-type Enum writes to the (shared) member"""
    obs: List[Ob] = []
    n = 0
    for en in ENUMS:
        ci = repo.cls(en)
        for mname, fi in ci.methods.items():
            if mname == "__init__":
                continue
            n += 1
            w = _self_writes(fi.node)
            key = "enum-member-mutation"
            if w:
                # what the shared state feeds: a member attribute that compute_dimensions (compute_operator) reads makes the automatic cutoff
                # (the operator) of one operation depend on what another operation of the same type did before
                import re as _re
                attrs = {m_.group(1) for _, d_ in w for m_ in [_re.search(r"self\.(\w+)", d_)] if m_}
                extra_p: tuple = ()
                for target, pid in (("compute_dimensions", "C10"), ("compute_operator", "C12")):
                    tf = ci.methods.get(target)
                    if tf is not None and any(isinstance(y, ast.Attribute) and isinstance(y.ctx, ast.Load) and src(y.value) == "self" and y.attr in attrs for y in ast.walk(tf.node)):
                        extra_p += (pid,)
                obs.append(bad("PURE-a", fi, key, ("C15", "C03", "C17") + extra_p, w[0][0],
                               f"{en}.{mname} {w[0][1]} on the enum member, which is a process-wide singleton shared by every Operation of that type: "
                               "constructing one operation changes what another accepts/does", code="; ".join(sorted({x[1] for x in w}))))
            else:
                obs.append(ok("PURE-a", fi, key, ("C15",), fi.node, "does not write to the enum member"))
    # update() runs at every construction on the shared member: resolving operand-type *names* to classes must leave entries that
    # are already classes alone (a fallback class for "anything else" turns every entry into the fallback the second time round)
    for en in ENUMS:
        up = repo.cls(en).methods.get("update")
        if up is None or "expected_base_state_types" not in src(up.node):
            continue
        n += 1
        problem = None
        for x in walk_no_nested(up.node):
            mc = method_call(x)
            if mc and mc[1] == "get" and len(x.args) == 2 and src(x.args[1]) != src(x.args[0]) and not (isinstance(x.args[1], ast.Constant) and x.args[1].value is None):
                problem = (x, f"`{src(x)[:60]}` maps every entry that is not a type *name* – including classes resolved by an earlier construction – to {src(x.args[1])}")
            if isinstance(x, ast.For):
                for i in [y for y in x.body if isinstance(y, ast.If)]:
                    tail = i
                    while tail.orelse and len(tail.orelse) == 1 and isinstance(tail.orelse[0], ast.If):
                        tail = tail.orelse[0]
                    for st in tail.orelse:
                        if isinstance(st, ast.Assign) and "expected_base_state_types" in src(st.targets[0]):
                            problem = (st, f"the final `else` of the name resolution overwrites entries that are already classes with {src(st.value)[:40]}")
        # (i) the operand types are taken from the keyword arguments only for the member that is defined by them (Expression)
        reads = [x for x in walk_no_nested(up.node) if isinstance(x, ast.Subscript) and src(x.value) == "kwargs" and isinstance(x.slice, ast.Constant) and x.slice.value == "state_types"]
        for k_, rd in enumerate(reads, 1):
            guards = [i_ for i_ in walk_no_nested(up.node) if isinstance(i_, ast.If) and any(y is rd for b in i_.body for y in ast.walk(b))]
            by_member = any(isinstance(c, ast.Compare) and isinstance(c.ops[0], (ast.Is, ast.Eq)) and "self" in (src(c.left), src(c.comparators[0])) and f"{en}." in src(c) for g in guards for c in ast.walk(g.test))
            (obs.append(ok("PURE-a", up, f"types-from-kwargs-only-for-expression#{k_}", ("C15", "C17", "C03"), rd, "kwargs['state_types'] is read under `self is <the expression member>`")) if by_member else
             obs.append(bad("PURE-a", up, f"types-from-kwargs-only-for-expression#{k_}", ("C15", "C17", "C03"), rd,
                            "kwargs['state_types'] replaces the operand types whenever the keyword is present, not only for the expression member: a built-in composite type constructed with a stray "
                            "`state_types` permanently changes what every operation of that type accepts")))
        # (ii) what is stored on the member is a copy: the name resolution below writes into it element by element
        for a_ in [x for x in walk_no_nested(up.node) if isinstance(x, ast.Assign) and any("expected_base_state_types" in src(t) and not isinstance(t, ast.Subscript) for t in x.targets)]:
            v = a_.value
            direct = isinstance(v, ast.Subscript) and src(v.value) == "kwargs"
            stores = any(isinstance(x, ast.Subscript) and isinstance(x.ctx, ast.Store) and "expected_base_state_types" in src(x.value) for x in walk_no_nested(up.node))
            if direct or (isinstance(v, ast.Name) and v.id in ("kwargs",)):
                (obs.append(bad("PURE-a", up, "stores-a-copy", ("C15", "C16"), a_,
                                f"`{src(a_)[:60]}` keeps the caller's own list: the element-wise name resolution that follows rewrites the caller's list, and later edits of that list change what the operation accepts")) if stores else
                 obs.append(ok("PURE-a", up, "stores-a-copy", ("C15", "C16"), a_, "no in-place store follows")))
            elif "kwargs" in src(v):
                obs.append(ok("PURE-a", up, "stores-a-copy", ("C15", "C16"), a_, "the operand-type list taken from the caller is copied"))
        (obs.append(bad("PURE-a", up, "operand-type-resolution", ("C15", "C17", "C03"), problem[0],
                        problem[1] + ": from the second construction of this operation type on, the operand-kind check accepts any subsystem")) if problem else
         obs.append(ok("PURE-a", up, "operand-type-resolution", ("C15", "C17", "C03"), up.node, "resolving operand-type names leaves already resolved entries unchanged")))
    # Operation.__init__ must validate before it calls anything that mutates shared state
    init = repo.func("Operation.__init__")
    cfg = CFG(init.node)
    upd = [nd for nd in cfg.nodes for x in walk_node(nd) if method_call(x) and method_call(x)[1] == "update" and "_operation_type" in src(method_call(x)[0])]
    mutating_update = any(_self_writes(repo.cls(e).methods["update"].node) for e in ENUMS if "update" in repo.cls(e).methods)
    raises = [nd for nd in cfg.nodes if nd.kind == "raise"]
    if upd and raises and mutating_update:
        before = any(r in cfg.reachable([u]) for u in upd for r in raises)
        (obs.append(bad("PURE-a", init, "validate-before-update", ("C15", "C17"), upd[0].ast,
                        "Operation.__init__ calls the member-mutating update() before the required-parameter check: a rejected construction still changes the shared operation type")) if before else
         obs.append(ok("PURE-a", init, "validate-before-update", ("C15", "C17"), init.node, "validation precedes update()")))
    else:
        obs.append(ok("PURE-a", init, "validate-before-update", ("C15", "C17"), init.node, "update() is side-effect free or absent"))
    # Operation methods other than __init__/setters must not mutate kwargs or the type
    op = repo.cls("Operation")
    for mname, fi in list(op.methods.items()) + [(k, v) for k, v in op.getters.items()]:
        if mname == "__init__":
            continue
        n += 1
        bad_w = [(x, d) for x, d in _self_writes(fi.node) if not d.startswith("assigns self._dimensions") and not d.startswith("assigns self._operator")]
        (obs.append(bad("PURE-a", fi, "operation-self-mutation", ("C15",), bad_w[0][0], f"Operation.{mname} {bad_w[0][1]}: applying an operation changes its description")) if bad_w else
         obs.append(ok("PURE-a", fi, "operation-self-mutation", ("C15",), fi.node, "writes at most the derived caches _dimensions/_operator")))
    if n < 15:
        raise AnalysisError(f"PURE-a: {n} methods examined (floor 15)")
    return obs


def _operation_param(fi: FuncInfo) -> Optional[str]:
    a = fi.node.args
    for arg in a.posonlyargs + a.args:
        if arg.annotation is not None and "Operation" in src(arg.annotation):
            return arg.arg
    for arg in a.posonlyargs + a.args:
        if arg.arg in ("operation",):
            return arg.arg
    return None


@rule("PURE-b")
def pure_b(repo: Repo) -> List[Ob]:
    """dimensions are recomputed for *this* target before the operator is read; the operator is rebuilt on every read"""
    obs: List[Ob] = []
    P = ("C15", "C10", "C01")
    for q in APPLY_BODIES:
        fi = repo.func(q)
        opn = _operation_param(fi)
        if opn is None:
            raise AnalysisError(f"PURE-b: no Operation parameter in {q}")
        cfg = CFG(fi.node)
        cd = {n for n in cfg.nodes for x in walk_node(n) if method_call(x) and method_call(x)[1] == "compute_dimensions" and src(method_call(x)[0]) == opn}
        reads = [(n, x) for n in cfg.nodes for x in walk_node(n)
                 if isinstance(x, ast.Attribute) and x.attr in ("operator", "_operator") and src(x.value) == opn and isinstance(x.ctx, ast.Load)]
        if not reads:
            raise AnalysisError(f"PURE-b: {q}: no read of {opn}.operator found")
        if not cd:
            obs.append(bad("PURE-b", fi, "operator-read#1", P, reads[0][1],
                           f"{q} never calls {opn}.compute_dimensions(): the operator is built with whatever dimensions the previous target left behind"))
            continue
        # the dispatch on operation._operation_type is exhaustive over the operation-type enums the
        # container accepts (foreign types are rejected by the operand validation, C17): the fall-through
        # of the *last* arm of a chain whose arms compute the dimensions is not a feasible path
        dead_edges = set()
        from ..model import expand_src as _xs

        def on_type(t: ast.AST) -> bool:          # named predicates (`is_fock_op = isinstance(op_type, …)`) are read through
            return "_operation_type" in _xs(fi.node, t, depth=4)
        chained = set()
        for st in walk_no_nested(fi.node):
            if isinstance(st, ast.If) and on_type(st.test) and id(st) not in chained:
                chain = [st]
                while len(chain[-1].orelse) == 1 and isinstance(chain[-1].orelse[0], ast.If) and on_type(chain[-1].orelse[0].test):
                    chain.append(chain[-1].orelse[0])
                    chained.add(id(chain[-1]))
                arms_ok = all(any(method_call(x) and method_call(x)[1] == "compute_dimensions" for b in c.body for x in [b] + list(walk_no_nested(b))) for c in chain)
                if arms_ok and not chain[-1].orelse:
                    for tn in cfg.nodes_of(chain[-1]):
                        if tn.kind == "test":
                            dead_edges.add(tn)
                elif not arms_ok and any(any(method_call(x) and method_call(x)[1] == "compute_dimensions" for b in c.body for x in [b] + list(walk_no_nested(b))) for c in chain):
                    obs.append(bad("PURE-b", fi, "dispatch-arm-computes-dimensions", P, st,
                                   "an arm of the dispatch on operation._operation_type does not call operation.compute_dimensions(): that operation type is applied with stale dimensions"))

        def reach_without_cd(target):
            seen_, todo = set(), [cfg.entry]
            while todo:
                a = todo.pop()
                if a in seen_ or a in cd:
                    continue
                seen_.add(a)
                for b, lab in cfg.succ[a]:
                    if a in dead_edges and lab == "F":
                        continue
                    todo.append(b)
            return target in seen_

        for i, (n, x) in enumerate(reads, 1):
            good = not reach_without_cd(n)
            (obs.append(ok("PURE-b", fi, f"operator-read#{i}", P, x, "compute_dimensions() for this target dominates the read of operation.operator")) if good else
             obs.append(bad("PURE-b", fi, f"operator-read#{i}", P, x,
                            "operation.operator is read on a path that did not call operation.compute_dimensions() for this target: the operator is built with the dimensions of the previous target")))
        # resize of a Fock target sits between compute_dimensions and the operator read
        if q in ("Fock.apply_operation", "Envelope.apply_operation", "ProductState.apply_operation"):
            rs = {n for n in cfg.nodes for x in walk_node(n) if method_call(x) and method_call(x)[1] == "resize" and x.args and opn in src(x.args[0]) and "dimensions" in src(x.args[0])}
            if not rs:
                obs.append(bad("PURE-b", fi, "resize-to-operation-dimensions", ("C10", "C01", "C15"), fi.node, "the Fock target is no longer resized to operation.dimensions before the operator is applied"))
            else:
                okk = all(not reach_without_cd(r) for r in rs)
                (obs.append(ok("PURE-b", fi, "resize-to-operation-dimensions", ("C10", "C01", "C15"), next(iter(rs)).ast, "target resized to the freshly computed dimensions")) if okk else
                 obs.append(bad("PURE-b", fi, "resize-to-operation-dimensions", ("C10", "C01", "C15"), next(iter(rs)).ast, "resize uses operation dimensions that were not recomputed for this target")))
    # composite: operation._dimensions[i] indexed by the enumerate variable over states
    ps = repo.func("ProductState.apply_operation")
    found = False
    for loop in [n for n in walk_no_nested(ps.node) if isinstance(n, ast.For)]:
        if isinstance(loop.iter, ast.Call) and src(loop.iter.func) == "enumerate" and isinstance(loop.target, ast.Tuple):
            i, s = src(loop.target.elts[0]), src(loop.target.elts[1])
            for x in ast.walk(loop):
                mc = method_call(x)
                if mc and mc[1] == "resize" and x.args:
                    found = True
                    a = x.args[0]
                    good = isinstance(a, ast.Subscript) and src(a.slice) == i and src(mc[0]) == s and "states" in src(loop.iter)
                    (obs.append(ok("PURE-b", ps, "per-operand-dimension", ("C03", "C10"), x, "k-th operand resized to the k-th computed dimension")) if good else
                     obs.append(bad("PURE-b", ps, "per-operand-dimension", ("C03", "C10"), x, f"operand `{src(mc[0])}` is resized with `{src(a)}`: dimension index and operand index disagree")))
    if not found:
        raise AnalysisError("PURE-b: per-operand resize loop of ProductState.apply_operation not found")
    # Operation.compute_dimensions itself: the dimensions are recomputed for every target; whether it recomputes may depend on the
    # operation *type* only, never on what an earlier application left in the object (cached operator / dimensions)
    from ..model import expand_src
    ocd = repo.func("Operation.compute_dimensions")
    ocfg = CFG(ocd.node)
    sets = [nd for nd in ocfg.nodes if nd.kind == "stmt" and isinstance(nd.ast, ast.Assign) and any(src(t) in ("self._dimensions", "self.dimensions") for t in nd.ast.targets)
            and any(method_call(x) and method_call(x)[1] == "compute_dimensions" for x in ast.walk(nd.ast.value))]
    if not sets:
        obs.append(bad("PURE-b", ocd, "recomputes-per-target", ("C15", "C10", "C11"), ocd.node, "Operation.compute_dimensions no longer stores the dimensions computed by the operation type"))
    else:
        stale = None
        for i_ in [x for x in walk_no_nested(ocd.node) if isinstance(x, ast.If)]:
            if any(any(y is nd.ast for b in i_.body + i_.orelse for y in ast.walk(b)) for nd in sets):
                t = expand_src(ocd.node, i_.test)
                for cached in ("self._operator", "self.operator", "self._dimensions", "self.dimensions"):
                    if cached in t:
                        stale = (i_, cached)
        (obs.append(bad("PURE-b", ocd, "recomputes-per-target", ("C15", "C10", "C11"), stale[0],
                        f"whether the dimensions are recomputed depends on `{stale[1]}`, i.e. on an earlier application of this Operation object: a reused operation keeps the cutoffs "
                        "of its previous target (a beam splitter applied to a pair with more photons acts in a truncated space)")) if stale else
         obs.append(ok("PURE-b", ocd, "recomputes-per-target", ("C15", "C10", "C11"), sets[0].ast, "dimensions are recomputed for every target; the guard depends on the operation type only")))
    # operator getter
    g = repo.func("Operation.operator")
    cfg = CFG(g.node)
    comp = {n for n in cfg.nodes for x in walk_node(n) if method_call(x) and method_call(x)[1] == "compute_operator"}
    rets = [n for n in cfg.nodes if n.kind == "return"]
    good = bool(comp) and all(cfg.must_pass_through(r, comp) for r in rets)
    args_ok = False
    for n in comp:
        for x in walk_node(n):
            mc = method_call(x)
            if mc and mc[1] == "compute_operator":
                a0 = src(x.args[0]) if x.args else ""
                kw = [k for k in x.keywords if k.arg is None]
                args_ok = a0 in ("self.dimensions", "self._dimensions") and bool(kw) and src(kw[0].value) == "self.kwargs"
    (obs.append(ok("PURE-b", g, "getter-rebuilds", ("C15", "C12", "C03"), g.node, "operator is rebuilt from self.dimensions and self.kwargs on every read")) if good and args_ok else
     obs.append(bad("PURE-b", g, "getter-rebuilds", ("C15", "C12", "C03"), g.node,
                    "Operation.operator can return without calling compute_operator(self.dimensions, **self.kwargs) (cached operator of a previous target / other arguments)")))
    return obs


CACHE_DECOS = ("lru_cache", "cache", "cached_property", "memoize")


@rule("PURE-c")
def pure_c(repo: Repo) -> List[Ob]:
    obs: List[Ob] = []
    P = ("C15",)
    n = 0
    for mod in repo.modules.values():
        if ".operation" not in mod.name and not mod.name.endswith("expression_interpreter"):
            continue
        n += 1
        hits = []
        for node in ast.walk(mod.tree):
            if isinstance(node, (ast.FunctionDef, ast.ClassDef)):
                for d in node.decorator_list:
                    if any(c in src(d) for c in CACHE_DECOS):
                        hits.append((d, f"`@{src(d)}` on {node.name}"))
        for s in mod.tree.body:
            if isinstance(s, (ast.Assign, ast.AnnAssign)) and isinstance(getattr(s, "value", None), (ast.Dict, ast.List, ast.Set, ast.DictComp, ast.ListComp)):
                t = s.targets[0] if isinstance(s, ast.Assign) else s.target
                tn = src(t)
                mutated = any((isinstance(x, ast.Subscript) and isinstance(x.ctx, (ast.Store, ast.Del)) and src(x.value) == tn)
                              or (method_call(x) and src(method_call(x)[0]) == tn and method_call(x)[1] in MUTATORS) for x in ast.walk(mod.tree))
                if not tn.startswith("__") and mutated:
                    hits.append((s, f"module-level table `{tn}` that functions store into (a cache)"))
        (obs.append(bad("PURE-c", mod.name, "no-cache", P, None, f"{mod.relpath}:{hits[0][0].lineno} {hits[0][1]}: results can outlive the parameters/dimensions they were computed for")) if hits else
         obs.append(ok("PURE-c", mod.name, "no-cache", P, None, "no memoisation decorator or module-level mutable table")))
    if n < 5:
        raise AnalysisError("PURE-c: operation modules not found")
    return obs


FRESH_FUNCS = {"zeros", "zeros_like", "ones", "ones_like", "eye", "identity", "array", "einsum", "kron", "matmul", "dot", "add", "subtract", "multiply",
               "abs", "diag", "real", "pad", "outer", "sum", "prod", "exp", "sqrt", "conj", "conjugate", "arange", "copy", "trace", "take", "where", "vstack", "hstack", "divide", "full"}


def _alias_of_caller(e: ast.AST, fi: FuncInfo, cfg: CFG, at: Node, depth: int = 0) -> Optional[str]:
    """why the value of `e` may be an array supplied by the caller (None = provably fresh / unknown-but-local)"""
    params = set(fi.params) - {"self", "cls"}
    if isinstance(e, ast.Name):
        if depth > 3:
            return None
        reasons = []
        for d in cfg.reaching_defs(at, e.id):
            if d is cfg.entry:
                if e.id in params and not _scalar_param(fi, e.id):
                    reasons.append(f"`{e.id}` is a parameter")
                continue
            if d.kind == "iter":
                it = d.stmt.iter
                r = _alias_of_caller(it, fi, cfg, d, depth + 1)
                if r or any(isinstance(x, ast.Name) and x.id in params for x in ast.walk(it)):
                    reasons.append(f"`{e.id}` iterates over caller data `{src(it)[:30]}`")
                continue
            a = d.ast
            v = getattr(a, "value", None)
            if isinstance(a, ast.AugAssign):
                continue
            if v is None:
                continue
            r = _alias_of_caller(v, fi, cfg, d, depth + 1)
            if r:
                reasons.append(r)
        return reasons[0] if reasons else None
    if isinstance(e, ast.Subscript):
        root = e.value
        if isinstance(root, ast.Name) and (root.id in params or root.id in ("kwargs", "operators", "args", "context")):
            return f"`{src(e)[:30]}` is an element of caller data"
        return _alias_of_caller(root, fi, cfg, at, depth + 1) if isinstance(root, ast.Name) else None
    if isinstance(e, ast.Attribute):
        if e.attr in ("operator", "_operator", "kwargs"):
            return f"`{src(e)[:30]}` is the operation's stored array"
        return None
    if isinstance(e, ast.Call):
        f = e.func
        if isinstance(f, ast.Name) and f.id == fi.node.name:
            return f"`{src(e)[:40]}` is a recursive call that returns leaves of the expression unchanged"
        if isinstance(f, ast.Name) and f.id == "interpreter":
            return "interpreter() returns leaves of the expression unchanged"
        if isinstance(f, ast.Subscript):
            return None
        return None
    if isinstance(e, ast.IfExp):
        return _alias_of_caller(e.body, fi, cfg, at, depth + 1) or _alias_of_caller(e.orelse, fi, cfg, at, depth + 1)
    return None


def _scalar_param(fi: FuncInfo, name: str) -> bool:
    a = fi.node.args
    for arg in a.posonlyargs + a.args + a.kwonlyargs:
        if arg.arg == name and arg.annotation is not None:
            t = src(arg.annotation)
            names = set(__import__("re").findall(r"[A-Za-z_]+", t))
            return bool(names) and names <= {"int", "float", "bool", "str", "complex", "Optional", "Union", "None"}
    return False


@rule("ALIAS-MUT")
def alias_mut(repo: Repo) -> List[Ob]:
    """no in-place update (augmented assignment, subscript store, out=) of a name that may alias a caller-supplied array"""
    obs: List[Ob] = []
    n_aug = 0
    for fi in repo.scan_functions():
        m = fi.module.name
        if not m.startswith("photon_weave"):
            continue
        props = ("C16", "C15") if m.endswith("expression_interpreter") else ("C15",)
        cfg = None
        k = 0
        for n in sorted(walk_no_nested(fi.node), key=lambda x: (getattr(x, "lineno", 0), getattr(x, "col_offset", 0))):
            target = None
            how = None
            if isinstance(n, ast.AugAssign) and isinstance(n.target, ast.Name):
                target, how = n.target, f"`{src(n.target)} {_OPS.get(type(n.op), '?')}= …`"
            elif isinstance(n, ast.Subscript) and isinstance(n.ctx, ast.Store) and isinstance(n.value, ast.Name):
                target, how = n.value, f"`{src(n)[:30]} = …`"
            elif isinstance(n, ast.AugAssign) and isinstance(n.target, ast.Subscript) and isinstance(n.target.value, ast.Name):
                target, how = n.target.value, f"`{src(n.target)[:30]} {_OPS.get(type(n.op), '?')}= …`"
            elif isinstance(n, ast.Call) and any(kw.arg == "out" for kw in n.keywords):
                o = [kw.value for kw in n.keywords if kw.arg == "out"][0]
                if isinstance(o, ast.Name):
                    target, how = o, f"`out={o.id}`"
            if target is None:
                continue
            n_aug += 1
            k += 1
            cfg = cfg or CFG(fi.node)
            at = cfg.node_containing(n)
            if at is None:
                continue
            why = _alias_of_caller(target, fi, cfg, at)
            key = f"inplace#{k}:{target.id}"
            if why:
                obs.append(bad("ALIAS-MUT", fi, key, props, n, f"{how} updates in place a value that may be the caller's own array ({why}): NumPy arrays supplied by the user are modified"))
            else:
                obs.append(ok("ALIAS-MUT", fi, key, props, n, "in-place form only on a locally created value"))
    if n_aug < 20:
        raise AnalysisError(f"ALIAS-MUT: {n_aug} in-place forms (floor 20)")
    return obs


_OPS = {ast.Add: "+", ast.Sub: "-", ast.Mult: "*", ast.Div: "/", ast.MatMult: "@", ast.Pow: "**", ast.FloorDiv: "//", ast.Mod: "%", ast.BitOr: "|", ast.BitAnd: "&"}


# ------------------------------------------------------------------------------------ INTERP
DOCUMENTED = {"add", "sub", "s_mult", "m_mult", "kron", "expm", "div"}
NARY = {"add": ("add", True), "s_mult": ("mul", True), "m_mult": ("matmul", False), "kron": ("kron", False)}
BINARY = {"sub": "sub", "div": "div"}


def _rec_arg(e: ast.AST, fname: str) -> Optional[ast.AST]:
    """interpreter(<x>, context, dimensions) -> <x>  (and checks context/dimensions pass unchanged)"""
    if isinstance(e, ast.Call) and isinstance(e.func, ast.Name) and e.func.id == fname and len(e.args) >= 1:
        return e.args[0]
    return None


def _binop_kind(e: ast.AST) -> Optional[Tuple[str, ast.AST, ast.AST]]:
    if isinstance(e, ast.BinOp):
        k = {ast.Add: "add", ast.Sub: "sub", ast.Mult: "mul", ast.MatMult: "matmul", ast.Div: "div"}.get(type(e.op))
        if k:
            return k, e.left, e.right
    n = call_np(e)
    if n and len(e.args) == 2:
        k = _FUNC_KIND.get(n)
        if k:
            return k, e.args[0], e.args[1]
    if isinstance(e, ast.Call) and len(e.args) == 2 and not e.keywords:
        k = _callable_kind(e.func)
        if k:
            return k, e.args[0], e.args[1]
    return None


_FUNC_KIND = {"add": "add", "subtract": "sub", "multiply": "mul", "matmul": "matmul", "dot": "matmul", "kron": "kron", "divide": "div", "true_divide": "div"}
_OPERATOR_KIND = {"add": "add", "sub": "sub", "mul": "mul", "matmul": "matmul", "truediv": "div"}


def _callable_kind(f: ast.AST) -> Optional[str]:
    """the binary operation a function *reference* stands for: jnp.add, operator.mul, lambda a, b: a @ b"""
    n = np_name(f)
    if n in _FUNC_KIND:
        return _FUNC_KIND[n]
    d = dotted(f) or ""
    if d.startswith("operator.") and d.split(".", 1)[1] in _OPERATOR_KIND:
        return _OPERATOR_KIND[d.split(".", 1)[1]]
    if isinstance(f, ast.Lambda) and len(f.args.args) == 2:
        b = _binop_kind(f.body)
        a0, a1 = f.args.args[0].arg, f.args.args[1].arg
        if b and src(b[1]) == a0 and src(b[2]) == a1:
            return b[0]
    return None


def _reduce_fold(body: List[ast.stmt], fname: str, argsname: str) -> Optional[Tuple[str, List[str]]]:
    """`return reduce(OP, (interpreter(a, …) for a in args[1:]), interpreter(args[0], …))` (names resolved through the arm's
    own single assignments) -> (kind of OP, problems); reduce is a left fold with the accumulator as the left operand"""
    env = {x.targets[0].id: x.value for x in body if isinstance(x, ast.Assign) and len(x.targets) == 1 and isinstance(x.targets[0], ast.Name)}

    def res(e):
        seen = 0
        while isinstance(e, ast.Name) and e.id in env and seen < 5:
            e, seen = env[e.id], seen + 1
        return e
    rets = [x for x in body if isinstance(x, ast.Return) and x.value is not None]
    if not rets:
        return None
    c = res(rets[-1].value)
    if not (isinstance(c, ast.Call) and (dotted(c.func) or "").split(".")[-1] == "reduce" and len(c.args) in (2, 3) and not c.keywords):
        return None
    kk = _callable_kind(res(c.args[0]))
    it = res(c.args[1])
    if kk is None or not isinstance(it, (ast.GeneratorExp, ast.ListComp)) or len(it.generators) != 1 or it.generators[0].ifs:
        return None
    g = it.generators[0]
    problems: List[str] = []
    ra = _rec_arg(it.elt, fname)
    if ra is None or src(ra) != src(g.target):
        problems.append("the folded operands are not interpreter(<element>, …)")
    whole = src(g.iter) == argsname
    tail = isinstance(g.iter, ast.Subscript) and src(g.iter.value) == argsname and isinstance(g.iter.slice, ast.Slice) and g.iter.slice.lower is not None \
        and src(g.iter.slice.lower) == "1" and g.iter.slice.upper is None and g.iter.slice.step is None
    if len(c.args) == 2:
        if not whole:
            problems.append(f"reduce without an initial value iterates `{src(g.iter)}` instead of {argsname}")
    else:
        first = _rec_arg(res(c.args[2]), fname)
        if first is None or src(first) != f"{argsname}[0]":
            problems.append(f"the fold starts from `{src(res(c.args[2]))[:40]}` instead of interpreter({argsname}[0], …)")
        if not tail:
            problems.append(f"the fold iterates `{src(g.iter)}` instead of {argsname}[1:]")
    return kk, problems


@rule("INTERP")
def interp(repo: Repo) -> List[Ob]:
    obs: List[Ob] = []
    P = ("C16",)
    fi = repo.func("interpreter")
    fn = fi.node
    fname = fn.name
    if len(fi.params) < 3:
        raise AnalysisError("INTERP: interpreter signature changed")
    p_expr, p_ctx, p_dims = fi.params[:3]
    # command arms: `if op == "cmd":` chains under `if isinstance(expr, tuple)`
    arms: Dict[str, ast.If] = {}
    head = None
    for n in walk_no_nested(fn):
        if isinstance(n, ast.If) and isinstance(n.test, ast.Compare) and len(n.test.ops) == 1 and isinstance(n.test.ops[0], ast.Eq) \
                and isinstance(n.test.comparators[0], ast.Constant) and isinstance(n.test.comparators[0].value, str) and isinstance(n.test.left, ast.Name):
            arms[n.test.comparators[0].value] = n
            head = n.test.left.id
    # match statement form
    for n in walk_no_nested(fn):
        if isinstance(n, ast.Match):
            for c in n.cases:
                if isinstance(c.pattern, ast.MatchValue) and isinstance(c.pattern.value, ast.Constant) and isinstance(c.pattern.value.value, str):
                    arms[c.pattern.value.value] = c
                    head = src(n.subject)
    got = set(arms)
    if not got:
        # no `if op == "<command>"` / `match` arm at all: the interpreter is organised in a way this rule does not read
        # (a command table, an inner evaluator, …) – undecided, not a violation
        obs.append(skip("INTERP", fi, "command-set", P, fn, "the interpreter does not dispatch on string comparisons of the head symbol (command table / inner evaluator): "
                                                            "its arms cannot be read by this rule"))
        return obs
    (obs.append(ok("INTERP", fi, "command-set", P, fn, f"handlers exist for exactly {sorted(got)}")) if got == DOCUMENTED else
     obs.append(bad("INTERP", fi, "command-set", P, fn, f"handled commands {sorted(got)} differ from the documented set {sorted(DOCUMENTED)} (missing {sorted(DOCUMENTED - got)}, extra {sorted(got - DOCUMENTED)})")))
    # head symbol / args come from `op, *args = expr`
    unpack_ok = any(isinstance(n, ast.Assign) and isinstance(n.targets[0], ast.Tuple) and len(n.targets[0].elts) == 2 and isinstance(n.targets[0].elts[1], ast.Starred)
                    and src(n.value) == p_expr for n in walk_no_nested(fn))
    argsname = "args"
    for n in walk_no_nested(fn):
        if isinstance(n, ast.Assign) and isinstance(n.targets[0], ast.Tuple) and len(n.targets[0].elts) == 2 and isinstance(n.targets[0].elts[1], ast.Starred) and src(n.value) == p_expr:
            argsname = src(n.targets[0].elts[1].value)
    (obs.append(ok("INTERP", fi, "head-and-args", P, fn, "head symbol and arguments are unpacked from the tuple in order")) if unpack_ok else
     obs.append(skip("INTERP", fi, "head-and-args", P, fn, "tuple unpacking idiom not recognised")))

    def arg_index(e: ast.AST) -> Optional[object]:
        """args[k] -> k ; loop variable over args[1:] -> 'rest'"""
        if isinstance(e, ast.Subscript) and src(e.value) == argsname and isinstance(e.slice, ast.Constant):
            return e.slice.value
        return None

    P0 = P
    for cmd, arm in sorted(arms.items()):
        body = arm.body
        key = f"arm:{cmd}"
        P = P0 + (("C03",) if cmd in ("kron", "m_mult") else ())       # the factor order of a user expression is the operand order (C03)
        if cmd in NARY:
            want, commutative = NARY[cmd]
            # result = interpreter(args[0]); for arg in args[1:]: result = f(result, interpreter(arg))
            init = [s for s in body if isinstance(s, ast.Assign) and _rec_arg(s.value, fname) is not None]
            loops = [s for s in body if isinstance(s, ast.For)]
            red = _reduce_fold(body, fname, argsname) if not loops else None
            if red is not None:
                kk, problems = red
                if kk != want:
                    problems = problems + [f"`{cmd}` folds with {kk} instead of {want}"]
                (obs.append(bad("INTERP", fi, key, P, arm if isinstance(arm, ast.If) else fn, "; ".join(problems))) if problems else
                 obs.append(ok("INTERP", fi, key, P, arm if isinstance(arm, ast.If) else fn, f"left fold (reduce) of {want} over the arguments in order")))
                continue
            if not init or not loops:
                # a whole-array reduction is not the documented fold: jnp.prod / jnp.sum over the stacked operands multiplies (adds) all
                # *entries* of every operand together instead of combining the operands
                red_calls = [x for s_ in body for x in ast.walk(s_) if isinstance(x, ast.Call) and call_np(x) in ("prod", "sum", "cumprod")
                             and not any(k_.arg == "axis" for k_ in x.keywords) and len(x.args) == 1]
                if red_calls:
                    obs.append(bad("INTERP", fi, key, P, red_calls[0],
                                   f"`{cmd}` is computed with `{src(red_calls[0])[:50]}`, a reduction over all entries of its operands, not the documented {want} of the operands in argument order"))
                    continue
                # other idiom
                obs.append(skip("INTERP", fi, key, P, arm if isinstance(arm, ast.If) else fn, "n-ary fold idiom not recognised"))
                continue
            acc = src(init[0].targets[0])
            first = arg_index(_rec_arg(init[0].value, fname))
            loop = loops[0]
            it_ok = isinstance(loop.iter, ast.Subscript) and src(loop.iter.value) == argsname and isinstance(loop.iter.slice, ast.Slice) \
                and loop.iter.slice.lower is not None and src(loop.iter.slice.lower) == "1" and loop.iter.slice.upper is None and loop.iter.slice.step is None
            lv = src(loop.target)
            problems = []
            if first != 0:
                problems.append(f"the fold starts from {argsname}[{first}] instead of {argsname}[0]")
            if not it_ok:
                problems.append(f"the fold iterates `{src(loop.iter)}` instead of {argsname}[1:]")
            upd = None
            unrecognised = False
            lambdas = {src(x.targets[0]): x.value for x in body if isinstance(x, ast.Assign) and isinstance(x.value, ast.Lambda)}
            for s in loop.body:
                if isinstance(s, ast.AugAssign) and src(s.target) == acc:
                    k2 = {ast.Add: "add", ast.Mult: "mul", ast.MatMult: "matmul", ast.Sub: "sub", ast.Div: "div"}.get(type(s.op))
                    upd = (k2, "ACC", s.value)
                elif isinstance(s, ast.Assign) and src(s.targets[0]) == acc:
                    v = s.value
                    # beta-reduce a call of a local two-parameter lambda: f(x, y) with f = lambda a, b: a <op> b
                    if isinstance(v, ast.Call) and isinstance(v.func, ast.Name) and v.func.id in lambdas and len(v.args) == 2:
                        lam = lambdas[v.func.id]
                        ps = [a.arg for a in lam.args.args]
                        if len(ps) == 2:
                            import copy as _copy

                            class _B(ast.NodeTransformer):
                                def visit_Name(self, n):
                                    return _copy.deepcopy(v.args[ps.index(n.id)]) if n.id in ps else n
                            v = _B().visit(_copy.deepcopy(lam.body))
                    b = _binop_kind(v)
                    if b:
                        kk, l, r = b
                        if src(l) == acc:
                            upd = (kk, "ACC", r)
                        elif src(r) == acc:
                            upd = (kk, "NEXT-LEFT", l)
            if upd is None:
                unrecognised = True
            else:
                kk, side, other = upd
                oa = _rec_arg(other, fname)
                if kk != want:
                    problems.append(f"`{cmd}` folds with {kk} instead of {want}")
                if side != "ACC" and not commutative:
                    problems.append(f"the accumulator is the *right* operand of {kk}: arguments are combined in reverse order")
                if oa is None or src(oa) != lv:
                    problems.append("the next operand is not interpreter(<loop variable>, …)")
            rets = [s for s in body if isinstance(s, ast.Return)]
            if not rets or src(rets[-1].value) != acc:
                problems.append("the arm does not return the accumulator")
            if unrecognised and not problems:
                obs.append(skip("INTERP", fi, key, P, arm if isinstance(arm, ast.If) else fn, "accumulator update idiom not recognised"))
                continue
            (obs.append(bad("INTERP", fi, key, P, arm if isinstance(arm, ast.If) else fn, "; ".join(problems))) if problems else
             obs.append(ok("INTERP", fi, key, P, arm if isinstance(arm, ast.If) else fn, f"left fold of {want} over the arguments in order")))
        elif cmd in BINARY:
            want = BINARY[cmd]
            # collect the binary expression: either in return or via result assignments
            expr = None
            env: Dict[str, ast.AST] = {}
            for s in body:
                if isinstance(s, ast.Assign) and isinstance(s.targets[0], ast.Name):
                    v = s.value
                    env[s.targets[0].id] = v
                if isinstance(s, ast.Return):
                    expr = s.value
            if isinstance(expr, ast.Name) and expr.id in env:
                expr = env[expr.id]
            b = _binop_kind(expr) if expr is not None else None
            if b is None:
                obs.append(skip("INTERP", fi, key, P, arm if isinstance(arm, ast.If) else fn, "binary idiom not recognised"))
                continue
            kk, l, r = b

            def resolve(x):
                if isinstance(x, ast.Name):
                    # `result` before being overwritten: first assignment in the arm
                    for s in body:
                        if isinstance(s, ast.Assign) and src(s.targets[0]) == x.id:
                            return s.value
                return x
            li, ri = arg_index(_rec_arg(resolve(l), fname) or l), arg_index(_rec_arg(resolve(r), fname) or r)
            problems = []
            if kk != want:
                problems.append(f"`{cmd}` computes {kk}")
            if (li, ri) != (0, 1):
                problems.append(f"operands are ({argsname}[{li}], {argsname}[{ri}]) instead of ({argsname}[0], {argsname}[1])")
            (obs.append(bad("INTERP", fi, key, P, arm if isinstance(arm, ast.If) else fn, "; ".join(problems))) if problems else
             obs.append(ok("INTERP", fi, key, P, arm if isinstance(arm, ast.If) else fn, f"{argsname}[0] {want} {argsname}[1]")))
        elif cmd == "expm":
            rets = [s for s in body if isinstance(s, ast.Return)]
            good = False
            if rets and isinstance(rets[-1].value, ast.Call):
                c = rets[-1].value
                nm = dotted(c.func) or ""
                if nm.split(".")[-1] in ("expm",) and c.args and arg_index(_rec_arg(c.args[0], fname)) == 0:
                    good = True
            (obs.append(ok("INTERP", fi, key, P, arm if isinstance(arm, ast.If) else fn, "matrix exponential of args[0]")) if good else
             obs.append(bad("INTERP", fi, key, P, arm if isinstance(arm, ast.If) else fn, "`expm` no longer returns expm(interpreter(args[0], …))")))
    # recursive calls pass context and dimensions unchanged
    badrec = [n for n in walk_no_nested(fn) if isinstance(n, ast.Call) and isinstance(n.func, ast.Name) and n.func.id == fname
              and not (len(n.args) == 3 and src(n.args[1]) == p_ctx and src(n.args[2]) == p_dims)]
    (obs.append(bad("INTERP", fi, "recursion-passes-context", P, badrec[0], "a recursive call does not pass (context, dimensions) unchanged")) if badrec else
     obs.append(ok("INTERP", fi, "recursion-passes-context", P, fn, "context and dimensions are passed unchanged to every sub-expression")))
    # (c) no implicit None / fall-through: every edge into the normal exit comes from a `return <value>`
    cfg = CFG(fn)
    implicit = [p for p, _ in cfg.pred[cfg.exit] if not (p.kind == "return" and p.ast.value is not None and not (isinstance(p.ast.value, ast.Constant) and p.ast.value.value is None))]
    (obs.append(bad("INTERP", fi, "unknown-command-raises", P, implicit[0].ast or fn, "a path through the interpreter ends without `return <value>`/`raise`: an unknown command yields None instead of an error")) if implicit else
     obs.append(ok("INTERP", fi, "unknown-command-raises", P, fn, "every path returns a value or raises")))
    has_raise = any(n.kind == "raise" for n in cfg.nodes) and cfg.exc in cfg.reachable([cfg.entry])
    (obs.append(ok("INTERP", fi, "raise-present", P, fn, "the fall-through of the tuple branch raises")) if has_raise else
     obs.append(bad("INTERP", fi, "raise-present", P, fn, "no reachable raise: unknown commands are not rejected")))
    # (d) leaves
    leaf_ok = False
    for n in walk_no_nested(fn):
        if isinstance(n, ast.Return) and isinstance(n.value, ast.Call) and isinstance(n.value.func, ast.Subscript):
            c = n.value
            if src(c.func.value) == p_ctx and src(c.func.slice) == p_expr and len(c.args) == 1 and src(c.args[0]) == p_dims:
                leaf_ok = True
    (obs.append(ok("INTERP", fi, "name-leaf", P, fn, "names resolve to context[name](dimensions)")) if leaf_ok else
     obs.append(bad("INTERP", fi, "name-leaf", P, fn, "string leaves are no longer resolved as context[expr](dimensions)")))
    lit_ok = any(isinstance(n, ast.Return) and src(n.value) == p_expr for n in walk_no_nested(fn))
    (obs.append(ok("INTERP", fi, "literal-leaf", P, fn, "other leaves are returned as they are")) if lit_ok else
     obs.append(bad("INTERP", fi, "literal-leaf", P, fn, "literal leaves are not returned unchanged")))
    stores = [n for n in walk_no_nested(fn) if (isinstance(n, ast.Subscript) and isinstance(n.ctx, ast.Store) and src(n.value) in (p_expr, p_ctx, p_dims))
              or (method_call(n) and method_call(n)[1] in MUTATORS and src(method_call(n)[0]) in (p_expr, p_ctx, p_dims))]
    (obs.append(bad("INTERP", fi, "no-store-into-arguments", P, stores[0], f"`{src(stores[0])[:40]}` modifies a caller-supplied argument")) if stores else
     obs.append(ok("INTERP", fi, "no-store-into-arguments", P, fn, "expr, context and dimensions are never stored into")))
    return obs
