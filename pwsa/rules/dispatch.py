"""DISPATCH – operator tables agree (a–d) and constructors equal their definitions (e);
BALANCE – beam-splitter generator structure (DESIGN §3, properties C12 and C11)."""
from __future__ import annotations

import ast
from fractions import Fraction
from typing import Dict, List, Optional, Set, Tuple

from ..model import AnalysisError, FuncInfo, Repo, call_np, dotted, method_call, np_name, src, walk_no_nested
from ..report import Ob, bad, note, ok, skip
from ..symalg import Diag, Expm, Folder, Mat, Poly, Unfoldable, fold_spec, g_add, identity
from . import rule

ENUMS = {
    "FockOperationType": "photon_weave.operation.fock_operation",
    "PolarizationOperationType": "photon_weave.operation.polarization_operation",
    "CustomStateOperationType": "photon_weave.operation.custom_state_operation",
    "CompositeOperationType": "photon_weave.operation.composite_operation",
}

# member -> constructor (DESIGN §3 DISPATCH-d).  'kw:operator' = returns kwargs["operator"];
# 'interpreter' = interpreter(kwargs["expr"], kwargs["context"], dimensions); 'inline' = built in the arm
CONSTRUCTOR = {
    ("PolarizationOperationType", "I"): "identity_operator", ("PolarizationOperationType", "X"): "x_operator",
    ("PolarizationOperationType", "Y"): "y_operator", ("PolarizationOperationType", "Z"): "z_operator",
    ("PolarizationOperationType", "H"): "hadamard_operator", ("PolarizationOperationType", "S"): "s_operator",
    ("PolarizationOperationType", "T"): "t_operator", ("PolarizationOperationType", "SX"): "sx_operator",
    ("PolarizationOperationType", "RX"): "rx_operator", ("PolarizationOperationType", "RY"): "ry_operator",
    ("PolarizationOperationType", "RZ"): "rz_operator", ("PolarizationOperationType", "U3"): "u3_operator",
    ("PolarizationOperationType", "Custom"): "kw:operator",
    ("FockOperationType", "Creation"): "creation_operator", ("FockOperationType", "Annihilation"): "annihilation_operator",
    ("FockOperationType", "PhaseShift"): "phase_operator", ("FockOperationType", "Displace"): "displacement_operator",
    ("FockOperationType", "Squeeze"): "squeezing_operator", ("FockOperationType", "Identity"): "identity",
    ("FockOperationType", "Expresion"): "interpreter", ("FockOperationType", "Custom"): "kw:operator",
    ("CustomStateOperationType", "Expresion"): "interpreter", ("CustomStateOperationType", "Custom"): "kw:operator",
    ("CompositeOperationType", "NonPolarizingBeamSplitter"): "inline", ("CompositeOperationType", "CXPolarization"): "controlled_not_operator",
    ("CompositeOperationType", "SwapPolarization"): "swap_operator", ("CompositeOperationType", "CSwapPolarization"): "controlled_swap_operator",
    ("CompositeOperationType", "CZPolarization"): "controlled_z_operator", ("CompositeOperationType", "Expression"): "interpreter",
}


def enum_members(ci) -> Dict[str, ast.AST]:
    """member name -> its value tuple, with module-level named literals (`_PARAM_PHI = "phi"`) read as the literals they name"""
    import copy as _copy
    counts: Dict[str, int] = {}
    for st in ast.walk(ci.module.tree):
        if isinstance(st, ast.Name) and isinstance(st.ctx, (ast.Store, ast.Del)):
            counts[st.id] = counts.get(st.id, 0) + 1
    consts: Dict[str, ast.AST] = {}
    for st in ci.module.tree.body:
        tg = st.targets[0] if isinstance(st, ast.Assign) and len(st.targets) == 1 else (st.target if isinstance(st, ast.AnnAssign) else None)
        v = getattr(st, "value", None)
        if isinstance(tg, ast.Name) and counts.get(tg.id) == 1 and isinstance(v, ast.Constant):
            consts[tg.id] = v

    class _K(ast.NodeTransformer):
        def visit_Name(self, n):
            return ast.copy_location(_copy.deepcopy(consts[n.id]), n) if isinstance(n.ctx, ast.Load) and n.id in consts else n

    def lit(t):
        return _K().visit(_copy.deepcopy(t)) if consts and any(isinstance(x, ast.Name) and x.id in consts for x in ast.walk(t)) else t
    out = {}
    for s in ci.node.body:
        if isinstance(s, ast.Assign) and len(s.targets) == 1 and isinstance(s.targets[0], ast.Name) and isinstance(s.value, ast.Tuple):
            out[s.targets[0].id] = lit(s.value)
        elif isinstance(s, ast.AnnAssign) and isinstance(s.target, ast.Name) and isinstance(s.value, ast.Tuple):
            out[s.target.id] = lit(s.value)
    return out


def match_arms(fi: FuncInfo, ename: str) -> Tuple[Dict[str, ast.match_case], Optional[ast.Match]]:
    """member name -> the statement block (anything with a `.body`) that serves it.  Understands `match self`, if/elif chains and
    guard clauses (`self is E.M`, `self == E.M`, `self in (E.A, E.B)`), a local alias of the enum class, and dispatch tables
    (module-level or local dict literals {E.M: <function or lambda>} read as `TABLE[self](args…)`)"""
    import copy as _copy
    arms, m = {}, None
    aliases = {ename}
    for n in walk_no_nested(fi.node):
        if isinstance(n, ast.Assign) and len(n.targets) == 1 and isinstance(n.targets[0], ast.Name) and isinstance(n.value, ast.Name) and n.value.id == ename:
            aliases.add(n.targets[0].id)

    def member(e: ast.AST) -> Optional[str]:
        if isinstance(e, ast.Attribute) and isinstance(e.value, ast.Name) and e.value.id in aliases:
            return e.attr
        d = dotted(e) or ""
        if d.startswith(ename + ".") and d.count(".") == 1:
            return d.split(".", 1)[1]
        return None

    for n in walk_no_nested(fi.node):
        if isinstance(n, ast.Match) and src(n.subject) == "self":
            m = n
            for c in n.cases:
                pats = c.pattern.patterns if isinstance(c.pattern, ast.MatchOr) else [c.pattern]
                for p in pats:
                    if isinstance(p, ast.MatchValue) and member(p.value):
                        arms[member(p.value)] = c
    # if/elif chains and guard clauses: `if self is Enum.Member` / `if self in (Enum.A, Enum.B)`
    for n in walk_no_nested(fi.node):
        if isinstance(n, ast.If) and isinstance(n.test, ast.Compare) and src(n.test.left) == "self" and len(n.test.ops) == 1:
            c = n.test.comparators[0]
            if isinstance(n.test.ops[0], (ast.Is, ast.Eq)):
                if member(c):
                    arms.setdefault(member(c), n)
            elif isinstance(n.test.ops[0], ast.In) and isinstance(c, (ast.Tuple, ast.List, ast.Set)):
                for e in c.elts:
                    if member(e):
                        arms.setdefault(member(e), n)
    # dispatch tables: {Enum.Member: callable} (module level or local), read as TABLE[self](args…) / TABLE[self]
    tables: Dict[str, ast.Dict] = {}
    used = {x.id for x in ast.walk(fi.node) if isinstance(x, ast.Name)}
    for st in list(fi.module.tree.body) + [x for x in walk_no_nested(fi.node) if isinstance(x, (ast.Assign, ast.AnnAssign))]:
        tgt = st.targets[0] if isinstance(st, ast.Assign) and len(st.targets) == 1 else (st.target if isinstance(st, ast.AnnAssign) else None)
        val = getattr(st, "value", None)
        if isinstance(tgt, ast.Name) and tgt.id in used and isinstance(val, ast.Dict) and val.keys and all(k is not None and member(k) for k in val.keys):
            tables[tgt.id] = val
    # the entry may be fetched into a local first:  builder = TABLE.get(self) / TABLE[self] … return builder(args…)
    fetched: Dict[str, str] = {}
    for a_ in walk_no_nested(fi.node):
        if isinstance(a_, ast.Assign) and len(a_.targets) == 1 and isinstance(a_.targets[0], ast.Name):
            v_ = a_.value
            if isinstance(v_, ast.Subscript) and isinstance(v_.value, ast.Name) and v_.value.id in tables and src(v_.slice) == "self":
                fetched[a_.targets[0].id] = v_.value.id
            if isinstance(v_, ast.Call) and method_call(v_) and method_call(v_)[1] == "get" and isinstance(method_call(v_)[0], ast.Name) and method_call(v_)[0].id in tables \
                    and len(v_.args) == 1 and src(v_.args[0]) == "self":
                fetched[a_.targets[0].id] = method_call(v_)[0].id
    for x in walk_no_nested(fi.node):
        if not isinstance(x, ast.Return) or x.value is None:
            continue
        v = x.value
        call_args = None
        sub = v
        if isinstance(v, ast.Call) and isinstance(v.func, ast.Subscript):
            sub, call_args = v.func, v
        if isinstance(v, ast.Call) and isinstance(v.func, ast.Name) and v.func.id in fetched:
            sub = ast.Subscript(value=ast.Name(id=fetched[v.func.id], ctx=ast.Load()), slice=ast.Name(id="self", ctx=ast.Load()), ctx=ast.Load())
            call_args = v
        if isinstance(v, ast.Name) and v.id in fetched:
            sub = ast.Subscript(value=ast.Name(id=fetched[v.id], ctx=ast.Load()), slice=ast.Name(id="self", ctx=ast.Load()), ctx=ast.Load())
        if isinstance(sub, ast.Subscript) and isinstance(sub.value, ast.Name) and sub.value.id in tables and src(sub.slice) == "self":
            tb = tables[sub.value.id]
            for k, fv in zip(tb.keys, tb.values):
                if call_args is not None:
                    if isinstance(fv, ast.Lambda):
                        ps = [a.arg for a in fv.args.args]
                        if len(ps) != len(call_args.args) or call_args.keywords:
                            continue
                        mp = dict(zip(ps, call_args.args))

                        class _R(ast.NodeTransformer):
                            def visit_Name(self, nn):
                                return _copy.deepcopy(mp[nn.id]) if nn.id in mp and isinstance(nn.ctx, ast.Load) else nn
                        body = _R().visit(_copy.deepcopy(fv.body))
                    else:
                        body = ast.Call(func=_copy.deepcopy(fv), args=[_copy.deepcopy(a) for a in call_args.args], keywords=[_copy.deepcopy(kw) for kw in call_args.keywords])
                else:
                    body = _copy.deepcopy(fv)
                arm = ast.If(test=ast.Constant(value=True), body=[ast.copy_location(ast.Return(value=body), fv)], orelse=[])
                ast.copy_location(arm, fv)
                ast.fix_missing_locations(arm)
                arms.setdefault(member(k), arm)
    # guarded table form:  if self in TABLE: <statements reading TABLE[self]>   – one synthetic arm per key, with TABLE[self] replaced by the
    # key's value and the names bound by `a, b = TABLE[self]` replaced by the tuple's components
    for n in walk_no_nested(fi.node):
        if not (isinstance(n, ast.If) and isinstance(n.test, ast.Compare) and src(n.test.left) == "self" and len(n.test.ops) == 1 and isinstance(n.test.ops[0], ast.In)
                and isinstance(n.test.comparators[0], ast.Name) and n.test.comparators[0].id in tables):
            continue
        tname = n.test.comparators[0].id
        tb = tables[tname]
        for k, fv in zip(tb.keys, tb.values):
            body = [_copy.deepcopy(b) for b in n.body]

            class _T(ast.NodeTransformer):
                def visit_Subscript(self, nn):
                    self.generic_visit(nn)
                    if isinstance(nn.value, ast.Name) and nn.value.id == tname and src(nn.slice) == "self":
                        return _copy.deepcopy(fv)
                    return nn
            body = [_T().visit(b) for b in body]
            # propagate `a, b = (x, y)` and `a = x` bindings of plain values through the rest of the arm
            bind: Dict[str, ast.AST] = {}
            out_body = []
            for b in body:
                class _B(ast.NodeTransformer):
                    def visit_Name(self, nn):
                        return _copy.deepcopy(bind[nn.id]) if isinstance(nn.ctx, ast.Load) and nn.id in bind else nn
                b = _B().visit(b)
                if isinstance(b, ast.Assign) and len(b.targets) == 1 and isinstance(b.targets[0], ast.Tuple) and isinstance(b.value, ast.Tuple) and len(b.targets[0].elts) == len(b.value.elts) \
                        and all(isinstance(e, ast.Name) for e in b.targets[0].elts):
                    for e, v_ in zip(b.targets[0].elts, b.value.elts):
                        bind[e.id] = v_
                    continue
                if isinstance(b, ast.Assign) and len(b.targets) == 1 and isinstance(b.targets[0], ast.Name) and isinstance(b.value, (ast.Name, ast.Attribute, ast.Constant)):
                    bind[b.targets[0].id] = b.value
                    continue
                out_body.append(b)
            # a beta-reduction for lambdas called in place
            arm = ast.If(test=ast.Constant(value=True), body=out_body or [ast.Pass()], orelse=[])
            ast.copy_location(arm, n)
            ast.fix_missing_locations(arm)
            arms.setdefault(member(k), arm)
    # legacy form: module-level {Enum.Member: lambda params: …} table whose single parameter stands for kwargs
    if not arms:
        for name, val in tables.items():
            for k, v in zip(val.keys, val.values):
                if isinstance(v, ast.Lambda) and len(v.args.args) == 1:
                    pname = v.args.args[0].arg

                    class _R2(ast.NodeTransformer):
                        def visit_Name(self, nn):
                            return ast.copy_location(ast.Name(id="kwargs", ctx=nn.ctx), nn) if nn.id == pname else nn
                    body = _R2().visit(_copy.deepcopy(v.body))
                    arm = ast.If(test=ast.Constant(value=True), body=[ast.copy_location(ast.Return(value=body), v)], orelse=[])
                    ast.copy_location(arm, v)
                    arms[member(k)] = arm
    return arms, m


@rule("DISPATCH")
def dispatch(repo: Repo) -> List[Ob]:
    obs: List[Ob] = []
    P = ("C12",)
    total = 0
    ops_funcs = {f.node.name: f for f in repo.all_functions() if f.module.name.startswith("photon_weave._math")}
    for ename in ENUMS:
        ci = repo.cls(ename)
        members = enum_members(ci)
        if not members:
            raise AnalysisError(f"DISPATCH: no members found in {ename}")
        co = ci.methods.get("compute_operator")
        cd = ci.methods.get("compute_dimensions")
        if co is None or cd is None:
            raise AnalysisError(f"DISPATCH: {ename}.compute_operator/compute_dimensions vanished")
        arms, m = match_arms(co, ename)
        total += len(members)
        missing, extra = sorted(set(members) - set(arms)), sorted(set(arms) - set(members))
        (obs.append(ok("DISPATCH", co, "arms-cover-members", P, co.node, f"{len(members)} members, one arm each")) if not missing and not extra else
         obs.append(bad("DISPATCH", co, "arms-cover-members", P, co.node, f"operator dispatch of {ename}: members without an arm {missing}, arms naming no member {extra}")))
        # the constructors receive the caller's parameters: the dispatch does not rewrite kwargs on the way
        rewrites = [x for x in walk_no_nested(co.node) if (isinstance(x, ast.Subscript) and isinstance(x.ctx, (ast.Store, ast.Del)) and src(x.value) == "kwargs")
                    or (isinstance(x, ast.Name) and x.id == "kwargs" and isinstance(x.ctx, ast.Store))
                    or (isinstance(x, ast.Call) and method_call(x) and src(method_call(x)[0]) == "kwargs" and method_call(x)[1] in ("update", "pop", "setdefault", "clear", "popitem"))]
        (obs.append(bad("DISPATCH", co, "parameters-unchanged", P + ("C15",), rewrites[0],
                        f"`{src(rewrites[0])[:50]}`: the dispatch rewrites a parameter before the constructor receives it – the operator is no longer that of the value the caller gave "
                        "(and the caller's dictionary is modified)")) if rewrites else
         obs.append(ok("DISPATCH", co, "parameters-unchanged", P + ("C15",), co.node, "kwargs are handed to the constructors as given")))
        # fall-through raises: no path leaves the function without `return <value>`, and a raise is reachable
        from ..cfg import CFG
        cfgd = CFG(co.node)
        implicit = [pn for pn, _ in cfgd.pred[cfgd.exit] if not (pn.kind == "return" and pn.ast.value is not None)]
        has_raise = cfgd.exc in cfgd.reachable([cfgd.entry]) and any(nn.kind == "raise" for nn in cfgd.nodes)
        last = co.node.body[-1]
        (obs.append(ok("DISPATCH", co, "fallthrough-raises", P, last, "an unmatched member raises")) if not implicit and has_raise else
         obs.append(bad("DISPATCH", co, "fallthrough-raises", P, last, "an unmatched operation type falls through without an error")))
        darms, dm = match_arms(cd, ename)
        if darms:
            exempt = {"Custom"} if ename == "FockOperationType" else set()
            missing = sorted(set(members) - set(darms) - exempt)
            (obs.append(ok("DISPATCH", cd, "dimension-arms-cover-members", P, cd.node, "every member has a dimension rule")) if not missing else
             obs.append(bad("DISPATCH", cd, "dimension-arms-cover-members", P, cd.node, f"members without a dimension rule: {missing}")))
        for mem, tup in sorted(members.items()):
            arm = arms.get(mem)
            if arm is None:
                continue
            req = set()
            if len(tup.elts) >= 2 and isinstance(tup.elts[1], ast.List):
                req = {e.value for e in tup.elts[1].elts if isinstance(e, ast.Constant)}
            body = arm.body
            keys = {n.slice.value for b in body for n in [b] + list(walk_no_nested(b))
                    if isinstance(n, ast.Subscript) and src(n.value) == "kwargs" and isinstance(n.slice, ast.Constant)}
            key = f"{ename}.{mem}"
            if not keys <= req:
                obs.append(bad("DISPATCH", co, f"params:{key}", P, body[0], f"arm {mem} reads kwargs {sorted(keys - req)} that the member does not declare as required parameters {sorted(req)}"))
            else:
                obs.append(ok("DISPATCH", co, f"params:{key}", P, body[0], f"reads only declared parameters {sorted(keys)}"))
            # constructor + argument binding
            want = CONSTRUCTOR.get((ename, mem))
            ret = next((b for b in body if isinstance(b, ast.Return)), None)
            if want is None or ret is None:
                obs.append(skip("DISPATCH", co, f"constructor:{key}", P, body[0], "member not in the constructor table"))
                continue
            v = ret.value
            if want == "kw:operator":
                good = isinstance(v, ast.Subscript) and src(v.value) == "kwargs" and isinstance(v.slice, ast.Constant) and v.slice.value == "operator"
                why = "returns kwargs['operator']"
            elif want == "interpreter":
                good = isinstance(v, ast.Call) and (dotted(v.func) or "").split(".")[-1] == "interpreter" and len(v.args) == 3 \
                    and src(v.args[0]) == "kwargs['expr']" and src(v.args[1]) == "kwargs['context']" and src(v.args[2]) == "dimensions"
                why = "interpreter(kwargs['expr'], kwargs['context'], dimensions)"
            elif want == "identity":
                good = isinstance(v, ast.Call) and call_np(v) in ("identity", "eye") and v.args and src(v.args[0]) == "dimensions[0]"
                why = "identity of the target dimension"
            elif want == "inline":
                good, why = True, "built inline (checked by BALANCE)"
            else:
                good = isinstance(v, ast.Call) and (dotted(v.func) or "").split(".")[-1] == want
                why = f"{want}(…)"
                if not good and isinstance(v, ast.Call):
                    # a renamed / re-exported constructor is fine when it folds to the same definition
                    other = ops_funcs.get((dotted(v.func) or "").split(".")[-1])
                    if other is not None and want in GATE_SPECS:
                        try:
                            got = fold_function(repo, other, {p: Poly.sym(p) for p in other.params})
                            if got == fold_spec_text(repo, GATE_SPECS[want]):
                                good, want = True, other.node.name
                                why = f"{want}(…) folds to the definition of {mem}"
                        except Unfoldable:
                            pass
                    elif other is None and (dotted(v.func) or "").split(".")[-1] not in ops_funcs:
                        obs.append(skip("DISPATCH", co, f"constructor:{key}", P, ret, "constructor is not a function of _math/ops.py"))
                        continue
                if good:
                    callee = ops_funcs.get(want)
                    if callee is None:
                        raise AnalysisError(f"DISPATCH: constructor {want} vanished from _math/ops.py")
                    cparams = [p for p in callee.params]
                    for i, a in enumerate(v.args):
                        pname = cparams[i] if i < len(cparams) else "?"
                        if isinstance(a, ast.Subscript) and src(a.value) == "kwargs" and isinstance(a.slice, ast.Constant):
                            if a.slice.value != pname and not (a.slice.value == "phi" and pname == "theta" and want == "phase_operator"):
                                good = False
                                why = f"kwargs['{a.slice.value}'] is passed as parameter `{pname}` of {want}"
                        elif isinstance(a, ast.Subscript) and src(a.value) == "dimensions":
                            if pname != "cutoff":
                                good = False
                                why = f"the dimension is passed as parameter `{pname}` of {want}"
                    for kw in v.keywords:
                        if isinstance(kw.value, ast.Subscript) and src(kw.value.value) == "kwargs" and isinstance(kw.value.slice, ast.Constant) and kw.value.slice.value != kw.arg:
                            good = False
                            why = f"kwargs['{kw.value.slice.value}'] is passed as `{kw.arg}`"
            # a user-supplied operator is used as supplied: one of the wrong size then clashes with the state and the request fails (C17's
            # "custom operators of the wrong size are rejected") instead of being padded / cut into something the caller never gave
            PK = P + (("C17",) if want == "kw:operator" else ())
            (obs.append(ok("DISPATCH", co, f"constructor:{key}", PK, ret, why)) if good else
             obs.append(bad("DISPATCH", co, f"constructor:{key}", PK, ret, f"{ename}.{mem} dispatches to `{src(v)[:60]}`: expected {want} ({why})"
                            + ("; an operator of the wrong size is adapted instead of failing against the state" if want == "kw:operator" else ""))))
    if total < 29:
        raise AnalysisError(f"DISPATCH: {total} enum members (floor 29)")
    return obs


# ------------------------------------------------------------------------------------ (e) definitions
GATE_SPECS = {
    "identity_operator": "array([[1,0],[0,1]])",
    "x_operator": "array([[0,1],[1,0]])",
    "y_operator": "array([[0,-1j],[1j,0]])",
    "z_operator": "array([[1,0],[0,-1]])",
    "hadamard_operator": "array([[1,1],[1,-1]])/sqrt(2)",
    "s_operator": "array([[1,0],[0,1j]])",
    "t_operator": "array([[1,0],[0,exp(1j*pi/4)]])",
    "sx_operator": "array([[1+1j,1-1j],[1-1j,1+1j]])/2",
    "controlled_not_operator": "array([[1,0,0,0],[0,1,0,0],[0,0,0,1],[0,0,1,0]])",
    "controlled_z_operator": "array([[1,0,0,0],[0,1,0,0],[0,0,1,0],[0,0,0,-1]])",
    "swap_operator": "array([[1,0,0,0],[0,0,1,0],[0,1,0,0],[0,0,0,1]])",
    "controlled_swap_operator": "array([[1,0,0,0,0,0,0,0],[0,1,0,0,0,0,0,0],[0,0,1,0,0,0,0,0],[0,0,0,1,0,0,0,0],[0,0,0,0,1,0,0,0],[0,0,0,0,0,0,1,0],[0,0,0,0,0,1,0,0],[0,0,0,0,0,0,0,1]])",
    "rx_operator": "array([[cos(theta/2), -1j*sin(theta/2)],[-1j*sin(theta/2), cos(theta/2)]])",
    "ry_operator": "array([[cos(theta/2), -sin(theta/2)],[sin(theta/2), cos(theta/2)]])",
    "rz_operator": "array([[exp(-1j*theta/2), 0],[0, exp(1j*theta/2)]])",
    "u3_operator": "array([[cos(theta/2), -exp(1j*omega)*sin(theta/2)],[exp(1j*phi)*sin(theta/2), exp(1j*(phi+omega))*cos(theta/2)]])",
    # ladder algebra: A = annihilation, Ad = creation (letters of a non-commutative polynomial)
    "annihilation_operator": "A",
    "creation_operator": "Ad",
    "number_operator": "Ad@A",
    "displacement_operator": "expm(alpha*Ad - conj(alpha)*A)",
    "squeezing_operator": "expm(0.5*(conj(zeta)*A@A - zeta*Ad@Ad))",
    "phase_operator": "diag(exp(1j*arange(cutoff)*theta))",
}
CONSTANT_GATES = ["identity_operator", "x_operator", "y_operator", "z_operator", "hadamard_operator", "s_operator", "t_operator", "sx_operator",
                  "controlled_not_operator", "controlled_z_operator", "swap_operator", "controlled_swap_operator"]


def _mode_suffix(p) -> str:
    t = repr(p)
    if t.endswith("d0"):
        return "0"
    if t.endswith("d1"):
        return "1"
    return ""


def make_hook(repo: Repo, depth: int = 0):
    ops_funcs = {f.node.name: f for f in repo.all_functions() if f.module.name.startswith("photon_weave._math")}

    def hook(folder: Folder, e: ast.Call):
        n = np_name(e.func) or (e.func.id if isinstance(e.func, ast.Name) else (dotted(e.func) or "").split(".")[-1])
        if n == "arange":
            args = [folder.fold(a) for a in e.args]
            if len(args) == 1:
                return Diag("arange", (Poly.const(0), args[0]))
            if len(args) == 2:
                return Diag("arange", (args[0], args[1]))
            raise Unfoldable("arange with step")
        if n == "diag":
            v = folder.fold(e.args[0])
            k = 0
            if len(e.args) > 1:
                kv = folder.fold(e.args[1])
                k = int(kv.t[next(iter(kv.t))][0]) if kv.t else 0
            for kw in e.keywords:
                if kw.arg == "k":
                    kv = folder.fold(kw.value)
                    k = int(kv.t[next(iter(kv.t))][0]) if kv.t else 0
            if isinstance(v, Diag) and v.kind == "sqrt-arange" and v.params[0] == Poly.const(1) and k in (1, -1):
                sfx = _mode_suffix(v.params[1])
                return Poly.word(("A" if k == 1 else "†A") + sfx)
            if isinstance(v, Diag) and v.kind == "sqrt-arange":
                return Diag(f"diag{k}-sqrt-arange", v.params)
            if isinstance(v, Diag) and k == 0:
                return Diag("diag-" + v.kind, v.params)
            raise Unfoldable("diag")
        if n in ops_funcs and depth < 4 and n not in ("compute_einsum",):
            callee = ops_funcs[n]
            params = [p for p in callee.params]
            env = {}
            for i, a in enumerate(e.args):
                env[params[i]] = folder.fold(a)
            for kw in e.keywords:
                env[kw.arg] = folder.fold(kw.value)
            return fold_function(repo, callee, env, depth + 1)
        return None
    return hook


def _const_int(v) -> Optional[int]:
    if isinstance(v, Poly):
        if not v.t:
            return 0
        if len(v.t) == 1:
            (m, c), = v.t.items()
            if m == (0, (), (), (), ()) and c[1] == 0 and c[0].denominator == 1:
                return int(c[0])
    return None


class _F(Folder):
    module_consts: Dict[str, ast.AST] = {}

    def fold(self, e):
        # module-level tables of the constructors' own module (`_SWAP = _permutation_matrix([0, 2, 1, 3])`), folded on first use
        if isinstance(e, ast.Name) and e.id not in self.env and e.id != "pi" and e.id in self.module_consts:
            f2 = _F({}, self.call_hook)
            val = f2.fold(self.module_consts[e.id])
            self.env[e.id] = val
            return val
        if isinstance(e, ast.Subscript):
            base = self.fold(e.value)
            idx = self.fold(e.slice) if isinstance(e.slice, (ast.List, ast.Tuple, ast.Name)) else None
            if isinstance(base, Mat) and isinstance(idx, list) and idx and all(_const_int(i) is not None for i in idx):
                rows = [_const_int(i) for i in idx]
                if all(0 <= r < len(base.rows) for r in rows):
                    return Mat([list(base.rows[r]) for r in rows])          # M[[i, j, …]]: the rows in that order
            raise Unfoldable("subscript")
        return super().fold(e)

    def binop(self, op, a, b):
        if op in (ast.Add, ast.Sub) and isinstance(a, Diag) and a.kind == "arange" and isinstance(b, Poly):
            sh = b if op is ast.Add else -b
            return Diag("arange", (a.params[0] + sh, a.params[1] + sh))
        if op is ast.Add and isinstance(b, Diag) and b.kind == "arange" and isinstance(a, Poly):
            return Diag("arange", (b.params[0] + a, b.params[1] + a))
        # arange * scalar -> Diag('arange-times')
        if op is ast.Mult and (isinstance(a, Diag) or isinstance(b, Diag)):
            d, p = (a, b) if isinstance(a, Diag) else (b, a)
            if isinstance(p, Poly) and d.kind in ("arange", "arange-times"):
                fac = d.params[2] * p if d.kind == "arange-times" else p
                return Diag("arange-times", (d.params[0], d.params[1], fac))
        return super().binop(op, a, b)

    def call(self, e):
        n = np_name(e.func) or (e.func.id if isinstance(e.func, ast.Name) else "")
        if n == "len" and len(e.args) == 1:
            v = self.fold(e.args[0])
            if isinstance(v, list):
                return Poly.const(len(v))
            raise Unfoldable("len")
        if n in ("eye", "identity") and e.args:
            k = _const_int(self.fold(e.args[0])) if not isinstance(e.args[0], ast.Constant) else None
            if k is not None and 0 < k <= 16:
                return identity(k)
        if n in ("array", "asarray") and e.args:
            v = self.fold(e.args[0])
            if isinstance(v, list) and v and all(isinstance(x, Poly) for x in v):
                return v                       # a 1-d array of scalars stays a list (diag(...) / indexing read it)
        if n == "diag" and e.args and not e.keywords and len(e.args) == 1:
            v = self.fold(e.args[0])
            if isinstance(v, list) and v and all(isinstance(x, Poly) for x in v):
                k = len(v)
                return Mat([[v[i] if i == j else Poly.const(0) for j in range(k)] for i in range(k)])
        if n == "exp" and e.args:
            v = self.fold(e.args[0])
            if isinstance(v, Diag) and v.kind == "arange-times":
                return Diag("exp-arange-times", v.params)
            if isinstance(v, Diag):
                raise Unfoldable("exp of diag")
            from ..symalg import exp_i
            return exp_i(v)
        return super().call(e)


def _module_consts(repo: Repo, fi: FuncInfo) -> Dict[str, ast.AST]:
    cache = getattr(fi.module, "_pwsa_fold_consts", None)
    if cache is None:
        counts: Dict[str, int] = {}
        for st in ast.walk(fi.module.tree):
            if isinstance(st, ast.Name) and isinstance(st.ctx, (ast.Store, ast.Del)):
                counts[st.id] = counts.get(st.id, 0) + 1
        cache = {}
        for st in fi.module.tree.body:
            tg = st.targets[0] if isinstance(st, ast.Assign) and len(st.targets) == 1 else (st.target if isinstance(st, ast.AnnAssign) else None)
            v = getattr(st, "value", None)
            if isinstance(tg, ast.Name) and v is not None and counts.get(tg.id) == 1:
                cache[tg.id] = v
        try:
            fi.module._pwsa_fold_consts = cache
        except Exception:
            pass
    return cache


def _is_metadata_store(s: ast.stmt) -> bool:
    # `table.flags.writeable = False`: array metadata, not a value
    return isinstance(s, ast.Assign) and len(s.targets) == 1 and isinstance(s.targets[0], ast.Attribute) and s.targets[0].attr == "writeable" \
        and isinstance(s.targets[0].value, ast.Attribute) and s.targets[0].value.attr == "flags"


def fold_function(repo: Repo, fi: FuncInfo, env: Dict[str, object], depth: int = 0):
    f = _F(env, make_hook(repo, depth))
    f.module_consts = _module_consts(repo, fi)
    for s in fi.body_wo_docstring():
        if isinstance(s, ast.Assign) and len(s.targets) == 1 and isinstance(s.targets[0], ast.Name):
            f.env[s.targets[0].id] = f.fold(s.value)
        elif isinstance(s, ast.Assign) and len(s.targets) == 1 and isinstance(s.targets[0], ast.Tuple) and all(isinstance(t_, ast.Name) for t_ in s.targets[0].elts):
            # a, b = helper(...)  – the helper returns a tuple
            v = f.fold(s.value)
            if isinstance(v, list) and len(v) == len(s.targets[0].elts):
                v = tuple(v)
            if not (isinstance(v, tuple) and len(v) == len(s.targets[0].elts)):
                raise Unfoldable("tuple unpacking of a non-tuple")
            for t_, x_ in zip(s.targets[0].elts, v):
                f.env[t_.id] = x_
        elif _is_metadata_store(s):
            continue
        elif isinstance(s, ast.Return) and isinstance(s.value, ast.Tuple):
            return tuple(f.fold(x_) for x_ in s.value.elts)
        elif isinstance(s, ast.Return):
            return f.fold(s.value)
        elif isinstance(s, ast.Expr) and isinstance(s.value, ast.Constant):
            continue
        else:
            raise Unfoldable(f"statement {type(s).__name__} in {fi.qualname}")
    raise Unfoldable("no return")


def _paths(stmts, limit: int = 8):
    """straight-line paths through a body with `if` statements: [(statements, [(test, truth)])]"""
    out = [([], [])]
    for s in stmts:
        nxt = []
        for body, conds in out:
            if body and isinstance(body[-1], (ast.Return, ast.Raise)):
                nxt.append((body, conds))
                continue
            if isinstance(s, ast.If):
                for truth, blk in ((True, s.body), (False, s.orelse)):
                    for b2, c2 in _paths(blk, limit):
                        nxt.append((body + b2, conds + [(s.test, truth)] + c2))
            else:
                nxt.append((body + [s], conds))
        out = nxt
        if len(out) > limit:
            raise Unfoldable("too many paths")
    return out


def _real_assumption(test: ast.AST, truth: bool, params) -> Optional[str]:
    """the parameter a path condition declares real (a *type* predicate: it says nothing about the value's sign or size)"""
    t = test
    while isinstance(t, ast.UnaryOp) and isinstance(t.op, ast.Not):
        t, truth = t.operand, not truth
    if isinstance(t, ast.Call) and t.args and isinstance(t.args[0], ast.Name) and t.args[0].id in params:
        n = np_name(t.func) or (t.func.id if isinstance(t.func, ast.Name) else "")
        if n in ("iscomplexobj", "iscomplex") and not truth:
            return t.args[0].id
        if n in ("isrealobj", "isreal") and truth:
            return t.args[0].id
        if n == "isinstance" and len(t.args) == 2:
            cls = src(t.args[1])
            if cls == "complex" and not truth:
                return t.args[0].id
            if cls in ("float", "int", "(int, float)", "(float, int)") and truth:
                return t.args[0].id
    return None


def _realify(v, names):
    """the value under the assumption that the parameters `names` are real: conj(p) = p"""
    from ..symalg import Expm, polar_normalise
    if isinstance(v, Poly):
        d = {}
        for (r2, sy, tr, ex, w), c in v.t.items():
            sy2: Dict[str, object] = {}
            for n, pw in sy:
                n2 = n[:-1] if n.endswith("*") and n[:-1] in names else n
                sy2[n2] = sy2.get(n2, 0) + pw
            m = (r2, tuple(sorted((k, x) for k, x in sy2.items() if x)), tr, ex, w)
            d[m] = g_add(d.get(m, (Fraction(0), Fraction(0))), c)
        return Poly({m: c for m, c in d.items() if c != (Fraction(0), Fraction(0))})
    if isinstance(v, Expm):
        return Expm(_realify(v.arg, names))
    if isinstance(v, Diag):
        return Diag(v.kind, tuple(_realify(x, names) for x in v.params))
    if isinstance(v, Mat):
        return Mat([[_realify(x, names) for x in r] for r in v.rows])
    return v


def fold_paths(repo: Repo, fi: FuncInfo, env: Dict[str, object]):
    """[(real-assumed parameters, value-dependent?, value | Unfoldable)] – one entry per path of a constructor with `if`s"""
    out = []
    for body, conds in _paths(fi.body_wo_docstring()):
        reals, dependent = set(), False
        for t, truth in conds:
            r = _real_assumption(t, truth, fi.params)
            if r is None:
                dependent = True
            else:
                reals.add(r)
        f = _F(dict(env), make_hook(repo, 0))
        f.module_consts = _module_consts(repo, fi)
        val = None
        try:
            for s in body:
                if isinstance(s, ast.Assign) and len(s.targets) == 1 and isinstance(s.targets[0], ast.Name):
                    f.env[s.targets[0].id] = f.fold(s.value)
                elif isinstance(s, ast.Return):
                    val = f.fold(s.value)
                    break
                elif isinstance(s, ast.Raise):
                    val = "raise"
                    break
                elif isinstance(s, ast.Expr) and isinstance(s.value, ast.Constant):
                    continue
                else:
                    raise Unfoldable(f"statement {type(s).__name__} in {fi.qualname}")
            if val is None:
                raise Unfoldable("no return")
        except Unfoldable as ex:
            val = ex
        out.append((reals, dependent, val, conds))
    return out


def _spec_env():
    env = {k: Poly.sym(k) for k in ("theta", "phi", "omega", "alpha", "zeta", "cutoff", "eta")}
    env.update({"A": Poly.word("A"), "Ad": Poly.word("†A"), "A0": Poly.word("A0"), "Ad0": Poly.word("†A0"), "A1": Poly.word("A1"), "Ad1": Poly.word("†A1")})
    return env


def fold_spec_text(repo: Repo, text: str):
    f = _F(_spec_env(), make_hook(repo))
    return f.fold(ast.parse(text, mode="eval").body)


@rule("DEFS")
def defs(repo: Repo) -> List[Ob]:
    """DISPATCH-e: every constructor in _math/ops.py folds to its textbook definition (exact symbolic normal form)"""
    obs: List[Ob] = []
    P = ("C12",)
    n_ok = 0
    for name, spec in GATE_SPECS.items():
        fi = repo.func(f"ops:{name}")
        env = {p: Poly.sym(p) for p in fi.params}
        props = P + (("C11",) if name in ("phase_operator", "annihilation_operator", "creation_operator") else ())
        want = fold_spec_text(repo, spec)
        if any(isinstance(s_, ast.If) for s_ in fi.body_wo_docstring()):
            # a constructor with branches: every path is folded on its own; a path taken on a *type* test of a parameter (real / complex)
            # is compared under that assumption, a path taken on a test of the parameter's value cannot be refuted by a differing form
            try:
                paths = fold_paths(repo, fi, env)
            except Unfoldable as ex:
                obs.append(skip("DEFS", fi, "definition", props, fi.node, f"constructor could not be folded ({ex}): ANALYSIS-INCOMPLETE for this operator"))
                continue
            verdicts = []
            for reals, dependent, val, conds in paths:
                cond_txt = " and ".join(("" if tr_ else "not ") + src(t_)[:40] for t_, tr_ in conds) or "always"
                if val == "raise" and isinstance(val, str):
                    verdicts.append(("ok", cond_txt, None))
                elif isinstance(val, Unfoldable):
                    verdicts.append(("undecided", cond_txt, str(val)))
                elif _realify(val, reals) == _realify(want, reals):
                    verdicts.append(("ok", cond_txt, None))
                elif dependent:
                    verdicts.append(("undecided", cond_txt, f"folds to {val!r:.120} on a path taken for particular parameter values"))
                else:
                    verdicts.append(("bad", cond_txt, f"{val!r:.160}"))
            badv = [v for v in verdicts if v[0] == "bad"]
            und = [v for v in verdicts if v[0] == "undecided"]
            if badv:
                obs.append(bad("DEFS", fi, "definition", props, fi.node, f"{name} on the path `{badv[0][1]}` folds to {badv[0][2]} which differs from its definition {spec}"
                               + (" for a real parameter" if any(r_ for r_, _, _, _ in paths) else "")))
            elif und:
                obs.append(skip("DEFS", fi, "definition", props, fi.node, f"constructor could not be folded on the path `{und[0][1]}` ({und[0][2]}): ANALYSIS-INCOMPLETE for this operator"))
            else:
                n_ok += 1
                obs.append(ok("DEFS", fi, "definition", props, fi.node, f"all {len(paths)} paths fold exactly to {spec}"))
            continue
        try:
            got = fold_function(repo, fi, env)
        except Unfoldable as ex:
            obs.append(skip("DEFS", fi, "definition", props, fi.node, f"constructor could not be folded ({ex}): ANALYSIS-INCOMPLETE for this operator"))
            continue
        if got == want:
            n_ok += 1
            obs.append(ok("DEFS", fi, "definition", props, fi.node, f"folds exactly to {spec}"))
        else:
            obs.append(bad("DEFS", fi, "definition", props, fi.node, f"{name} folds to {got!r:.200} which differs from its definition {spec}"))
        if name in CONSTANT_GATES and isinstance(got, Mat):
            uu = got.matmul(got.dagger())
            (obs.append(ok("DEFS", fi, "unitary", props, fi.node, "U U^dagger = I exactly")) if uu == identity(len(got.rows)) else
             obs.append(bad("DEFS", fi, "unitary", props, fi.node, f"{name} is not unitary: U U^dagger = {uu!r:.160}")))
    decided = n_ok + sum(1 for o in obs if o.status == "violation" and o.key == "definition")
    if decided < len(GATE_SPECS):
        # every constructor folds on the confirmed tree: one that no longer does is undecided, not fine
        und = [o.where for o in obs if o.status == "unanalysed"]
        raise AnalysisError(f"DEFS: {decided} of {len(GATE_SPECS)} constructors could be folded; undecided: {und} ({'; '.join(o.msg[:80] for o in obs if o.status == 'unanalysed')})")
    return obs


@rule("BALANCE")
def balance(repo: Repo) -> List[Ob]:
    obs: List[Ob] = []
    P = ("C11", "C12")
    ci = repo.cls("CompositeOperationType")
    co = ci.methods["compute_operator"]
    arms, _ = match_arms(co, "CompositeOperationType")
    arm = arms.get("NonPolarizingBeamSplitter")
    if arm is None:
        raise AnalysisError("BALANCE: beam-splitter arm vanished")
    env = {"dimensions": None}
    f = _F({}, make_hook(repo))

    class _K(_F):
        def fold(self, e):
            if isinstance(e, ast.Subscript) and src(e.value) == "dimensions" and isinstance(e.slice, ast.Constant):
                return Poly.sym(f"d{e.slice.value}")
            if isinstance(e, ast.Subscript) and src(e.value) == "kwargs" and isinstance(e.slice, ast.Constant):
                return Poly.sym(str(e.slice.value))
            return super().fold(e)
    f = _K({}, make_hook(repo))
    got = None
    try:
        for s in arm.body:
            if isinstance(s, ast.Assign) and isinstance(s.targets[0], ast.Name):
                f.env[s.targets[0].id] = f.fold(s.value)
            elif isinstance(s, ast.Return):
                got = f.fold(s.value)
    except Unfoldable as ex:
        obs.append(skip("BALANCE", co, "beam-splitter", P, arm.body[0], f"arm could not be folded: {ex}"))
        got = None
    if isinstance(got, Expm):
        g = got.arg
        # prefactor: i * eta * G with G an operator polynomial with real rational coefficients
        i_eta = Poly.const(0, 1) * Poly.sym("eta")
        terms_ok = True
        G = Poly()
        for (r2, sy, tr, ex, w), c in g.t.items():
            if r2 or tr or ex or dict(sy) != {"eta": 1} or c[0] != 0:
                terms_ok = False
            G = G + Poly({(0, (), (), (), w): (c[1], Fraction(0))})
        (obs.append(ok("BALANCE", co, "prefactor", P, arm.body[-1], "U = expm(i*eta*G) with a real-coefficient generator")) if terms_ok else
         obs.append(bad("BALANCE", co, "prefactor", P, arm.body[-1], f"the exponent {g!r:.120} is not i*eta*(Hermitian generator): the beam splitter is not unitary / not parametrised by eta")))
        herm = G.dagger() == G
        (obs.append(ok("BALANCE", co, "hermitian-generator", P, arm.body[-1], "G = G^dagger")) if herm else
         obs.append(bad("BALANCE", co, "hermitian-generator", P, arm.body[-1], f"generator {G!r} is not Hermitian: expm(i*eta*G) is not unitary")))
        cons = True
        two_mode = True
        for (r2, sy, tr, ex, w), c in G.t.items():
            cre = sum(1 for x in w if x.startswith("†"))
            if cre * 2 != len(w):
                cons = False
            modes = {x[-1] for x in w}
            if modes != {"0", "1"}:
                two_mode = False
        (obs.append(ok("BALANCE", co, "number-conserving", P, arm.body[-1], "every term creates as many photons as it annihilates")) if cons else
         obs.append(bad("BALANCE", co, "number-conserving", P, arm.body[-1], f"generator {G!r} has a term that does not pair one creation with one annihilation operator: total photon number is not conserved")))
        (obs.append(ok("BALANCE", co, "acts-on-both-modes", P, arm.body[-1], "every term couples mode 0 (dimensions[0]) with mode 1 (dimensions[1])")) if two_mode else
         obs.append(bad("BALANCE", co, "acts-on-both-modes", P, arm.body[-1], f"generator {G!r} has a term that does not couple the first operand's mode with the second's")))
        want = fold_spec_text(repo, "expm(1j*eta*(A0@Ad1 + Ad0@A1))")
        (obs.append(ok("BALANCE", co, "documented-form", P, arm.body[-1], "equals exp(i*eta*(a^dagger b + a b^dagger))")) if got == want else
         obs.append(note("BALANCE", co, "documented-form", P, arm.body[-1], f"generator differs from the documented form: {g!r:.120}")))
    elif got is not None:
        obs.append(bad("BALANCE", co, "beam-splitter", P, arm.body[-1], "the beam-splitter arm no longer returns a matrix exponential of a two-mode generator"))
    # cutoffs: both modes get sum(num_quanta) + k, k >= 1
    cd = ci.methods["compute_dimensions"]
    darms, _ = match_arms(cd, "CompositeOperationType")
    darm = darms.get("NonPolarizingBeamSplitter")
    if darm is None:
        raise AnalysisError("BALANCE: beam-splitter dimension arm vanished")
    ret = next((b for b in darm.body if isinstance(b, ast.Return)), None)
    good = False
    why = "dimension rule not recognised"
    if ret is not None and isinstance(ret.value, (ast.List, ast.Tuple)) and len(ret.value.elts) == 2:
        a, b = ret.value.elts
        if src(a) == src(b):
            e = a
            if isinstance(e, ast.Name):
                for s in darm.body:
                    if isinstance(s, ast.Assign) and src(s.targets[0]) == e.id:
                        e = s.value
            # int(sum(num_quanta)) + k
            if isinstance(e, ast.BinOp) and isinstance(e.op, ast.Add) and isinstance(e.right, ast.Constant) and isinstance(e.right.value, int) and e.right.value >= 1 \
                    and "sum" in src(e.left) and "num_quanta" in src(e.left):
                good, why = True, f"both modes get sum(num_quanta)+{e.right.value}"
            else:
                why = f"cutoff `{src(e)}` is not sum(num_quanta)+k with k>=1: all photons gathering in one mode would be truncated"
        else:
            why = "the two modes get different cutoffs"
    (obs.append(ok("BALANCE", cd, "cutoff", ("C11", "C10"), darm.body[0], why)) if good else
     obs.append(bad("BALANCE", cd, "cutoff", ("C11", "C10"), darm.body[0], why)))
    # PhaseShift dimension keeps every occupied level
    fcd = repo.cls("FockOperationType").methods["compute_dimensions"]
    farms, _ = match_arms(fcd, "FockOperationType")
    for mem, kmin in (("PhaseShift", 1), ("Identity", 1), ("Creation", 2), ("Annihilation", 1)):
        arm2 = farms.get(mem)
        if arm2 is None:
            continue
        r = next((b for b in arm2.body if isinstance(b, ast.Return)), None)
        good = False
        if r is not None and isinstance(r.value, ast.List) and len(r.value.elts) == 1:
            e = r.value.elts[0]
            if isinstance(e, ast.Call) and isinstance(e.func, ast.Name) and e.func.id == "int":
                e = e.args[0]
            if isinstance(e, ast.BinOp) and isinstance(e.op, ast.Add) and src(e.left) == "num_quanta" and isinstance(e.right, ast.Constant) and e.right.value >= kmin:
                good = True
        (obs.append(ok("BALANCE", fcd, f"cutoff:{mem}", ("C10", "C11") if mem == "PhaseShift" else ("C10",), arm2.body[0], f"num_quanta + k, k >= {kmin}")) if good else
         obs.append(bad("BALANCE", fcd, f"cutoff:{mem}", ("C10", "C11") if mem == "PhaseShift" else ("C10",), arm2.body[0], f"{mem}: the computed dimension is not num_quanta + k with k >= {kmin}: the result (or the state) does not fit")))
    return obs
