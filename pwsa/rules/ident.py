"""IDENT – identity, not value, decides membership (DESIGN §3)."""
from __future__ import annotations

import ast
from typing import Dict, List, Optional, Set

from ..model import AnalysisError, FuncInfo, Repo, method_call, src, walk_no_nested
from ..report import Ob, bad, ok, skip
from ..scope import assignments_to
from ..types import STATE_CLASSES, Typer
from . import rule
from .struct import STATE_MODULES


def _attrs_read(fn: ast.FunctionDef) -> Set[str]:
    return {n.attr.lstrip("_") for n in walk_no_nested(fn) if isinstance(n, ast.Attribute) and src(n.value) in ("self", "other") and isinstance(n.ctx, ast.Load)}


@rule("IDENT-contract")
def ident_contract(repo: Repo) -> List[Ob]:
    obs: List[Ob] = []
    P = ("C18",)
    n = 0
    for ci in repo.classes.values():
        if not ci.module.name.startswith("photon_weave.state"):
            continue
        eq, hs = ci.methods.get("__eq__"), ci.methods.get("__hash__")
        if eq is None:
            # inherits identity equality (object.__eq__) unless a base defines __eq__
            base_eq = None
            for b in repo.mro(ci.name)[1:]:
                if "__eq__" in b.methods:
                    base_eq = b
            if base_eq is None:
                n += 1
                obs.append(ok("IDENT-contract", f"{ci.name}.__eq__", "identity-equality", P, None, f"{ci.name} keeps identity equality"))
            continue
        n += 1
        a_eq = _attrs_read(eq.node) - {"__class__"}
        a_hs = _attrs_read(hs.node) if hs is not None else set()
        if hs is not None and a_eq == a_hs:
            obs.append(ok("IDENT-contract", eq, "eq-hash-agree", P, eq.node, "__eq__ and __hash__ read the same attributes"))
        else:
            obs.append(bad("IDENT-contract", eq, "eq-hash-agree", P, eq.node,
                           f"{ci.name}.__eq__ compares {sorted(a_eq)} while __hash__ uses {sorted(a_hs)}: two different subsystems holding equal values compare equal, so list membership/index/remove and dict lookups can pick the wrong object"))
    if n < 5:
        raise AnalysisError(f"IDENT-contract: {n} classes examined (floor 5)")
    return obs


def value_eq_classes(repo: Repo) -> Set[str]:
    """state classes whose __eq__ is value based"""
    out = set()
    for c in STATE_CLASSES:
        for k in repo.mro(c):
            if "__eq__" in k.methods:
                a_eq = _attrs_read(k.methods["__eq__"].node)
                if a_eq - {"uid"}:
                    out.add(c)
                break
    return out


class _Prov:
    """provenance classes of list/probe expressions inside one function"""

    def __init__(self, repo: Repo, fi: FuncInfo):
        self.repo, self.fi, self.typer = repo, fi, Typer(repo, fi)
        self.in_esc = fi.module.name.startswith("photon_weave.extra.einsum_")
        self.cls = fi.cls.name if fi.cls else None

    def is_member_list(self, e: ast.AST, depth: int = 0) -> bool:
        """list of product-space members (their state is None): X.state_objs with X a ProductState, or a copy"""
        if self.in_esc:
            return True
        if isinstance(e, ast.Attribute) and e.attr == "state_objs":
            cl = self.typer.classes(e.value)
            return cl == {"ProductState"}
        if isinstance(e, ast.Name) and depth < 3:
            defs = assignments_to(self.fi.node, e.id)
            if not defs:
                return False
            for d in defs:
                v = d.value if isinstance(d, (ast.Assign, ast.AnnAssign)) else None
                if v is None or not self.is_member_list(self._copy_source(v), depth + 1):
                    return False
            return True
        return False

    @staticmethod
    def _copy_source(v: ast.AST) -> ast.AST:
        if isinstance(v, ast.ListComp) and len(v.generators) == 1 and isinstance(v.elt, ast.Name) and isinstance(v.generators[0].target, ast.Name) \
                and v.elt.id == v.generators[0].target.id and not v.generators[0].ifs:
            return v.generators[0].iter
        if isinstance(v, ast.Call) and isinstance(v.func, ast.Name) and v.func.id in ("list", "tuple") and v.args:
            return v.args[0]
        return v

    def non_state_list(self, e: ast.AST) -> bool:
        ec = self.typer.elem_classes(e)
        if ec and not (ec & {"BaseState", "Fock", "Polarization", "CustomState"}):
            return True
        return False

    def probe_is_member(self, e: ast.AST) -> bool:
        """probe is the loop variable of an iteration over a member list"""
        if self.in_esc:
            return True
        if isinstance(e, ast.Name):
            for n in walk_no_nested(self.fi.node):
                if isinstance(n, (ast.For, ast.comprehension)) and isinstance(n.target, ast.Name) and n.target.id == e.id:
                    if self.is_member_list(n.iter):
                        return True
        return False

    def probe_non_state(self, e: ast.AST) -> bool:
        cl = self.typer.classes(e)
        return bool(cl) and not (cl & {"BaseState", "Fock", "Polarization", "CustomState"})


@rule("IDENT-site")
def ident_site(repo: Repo) -> List[Ob]:
    obs: List[Ob] = []
    veq = value_eq_classes(repo)
    sites = 0
    for fi in repo.scan_functions():
        m = fi.module.name
        if m not in STATE_MODULES and not m.startswith("photon_weave.extra.einsum_"):
            continue
        if fi.node.name in ("__eq__", "__repr__", "__hash__"):
            continue
        pv = _Prov(repo, fi)
        base_props = ("C18", "C17") if fi.node.name in ("combine", "resize_fock", "measure", "reorder") else ("C18",)
        # membership tests that decide whether a request is rejected (`if x not in (…): raise` / assert): also C17
        rejecting = set()
        for g in walk_no_nested(fi.node):
            if (isinstance(g, ast.If) and any(isinstance(y, ast.Raise) for b in g.body + g.orelse for y in [b] + list(walk_no_nested(b)))) or isinstance(g, ast.Assert):
                rejecting |= {id(y) for y in ast.walk(g.test)}
        for n in sorted(walk_no_nested(fi.node), key=lambda x: (getattr(x, "lineno", 0), getattr(x, "col_offset", 0))):
            props = base_props if (id(n) not in rejecting or "C17" in base_props) else base_props + ("C17",)
            probe = cont = None
            how = None
            if isinstance(n, ast.Compare) and len(n.ops) == 1 and isinstance(n.ops[0], (ast.In, ast.NotIn)):
                probe, cont, how = n.left, n.comparators[0], "in"
            elif isinstance(n, ast.Compare) and len(n.ops) == 1 and isinstance(n.ops[0], (ast.Eq, ast.NotEq)):
                # == between two subsystem expressions
                tl, tr = pv.typer.classes(n.left), pv.typer.classes(n.comparators[0])
                if tl and tr and (tl & set(STATE_CLASSES) | tl & {"BaseState"}) and (tr & set(STATE_CLASSES) | tr & {"BaseState"}):
                    probe, cont, how = n.left, n.comparators[0], "=="
            else:
                mc = method_call(n)
                if mc and mc[1] in ("index", "remove", "count") and len(n.args) == 1 and not isinstance(mc[0], ast.Constant):
                    # only list-like receivers of subsystems / product spaces
                    if pv.typer.elem_classes(mc[0]) or pv.is_member_list(mc[0]) or (isinstance(mc[0], ast.Attribute) and mc[0].attr in ("state_objs", "envelopes", "states")) \
                            or isinstance(mc[0], ast.Name):
                        if isinstance(mc[0], ast.Name) and not (pv.typer.elem_classes(mc[0]) or pv.is_member_list(mc[0])):
                            continue
                        probe, cont, how = n.args[0], mc[0], f".{mc[1]}()"
            if probe is None:
                continue
            # string/dict membership etc.: only subsystem-ish probes
            if isinstance(cont, (ast.Constant, ast.Dict)) or isinstance(probe, ast.Constant):
                continue
            if isinstance(cont, ast.Name) and any(isinstance(getattr(st, "value", None), ast.Dict) and
                                                  src(st.targets[0] if isinstance(st, ast.Assign) else st.target) == cont.id
                                                  for st in fi.module.tree.body if isinstance(st, (ast.Assign, ast.AnnAssign))):
                continue      # key lookup in a module-level table
            if how == "in" and isinstance(cont, ast.Name) and cont.id in ("kwargs", "context"):
                continue
            if isinstance(probe, ast.Attribute) and probe.attr in ("uid", "_uid", "composite_uid"):
                continue      # uuids compare by value, which *is* identity
            sites += 1
            # a loop variable is named by its role, not by the identifier the author happened to choose (a rename is not a new site)
            ptxt = src(probe)
            if isinstance(probe, ast.Name) and probe.id not in fi.params and any(
                    isinstance(l_, (ast.For, ast.comprehension)) and any(isinstance(t_, ast.Name) and t_.id == probe.id for t_ in ast.walk(l_.target)) for l_ in ast.walk(fi.node)):
                ptxt = "<loopvar>"
            # a local that is a plain copy of the operand tuple (`state_list = list(states)`) is named by that role, not by its identifier
            ctxt = src(cont)
            va_ = fi.node.args.vararg.arg if fi.node.args.vararg else None
            if isinstance(cont, ast.Name) and va_ and cont.id not in fi.params:
                from ..model import single_defs as _sd4
                dv = _sd4(fi.node).get(cont.id)
                if dv is not None and ((isinstance(dv, ast.Call) and isinstance(dv.func, ast.Name) and dv.func.id in ("list", "tuple") and len(dv.args) == 1 and src(dv.args[0]) == va_)
                                       or (isinstance(dv, ast.ListComp) and len(dv.generators) == 1 and not dv.generators[0].ifs and src(dv.generators[0].iter) == va_
                                           and src(dv.elt) == src(dv.generators[0].target))):
                    ctxt = f"<copy of *{va_}>"
            key = f"{how}:probe={ptxt}|container={ctxt}"
            if not veq:
                obs.append(ok("IDENT-site", fi, key, props, n, "no state class has value equality"))
                continue
            if how == "==":
                obs.append(bad("IDENT-site", fi, key, props, n, f"two subsystems are compared with == while {sorted(veq)} compare by value"))
                continue
            if pv.non_state_list(cont) or pv.probe_non_state(probe):
                obs.append(ok("IDENT-site", fi, key, props, n, "elements are not subsystems (identity equality)"))
            elif pv.is_member_list(cont):
                obs.append(ok("IDENT-site", fi, key, props, n, "container holds product-space members (state=None): value equality cannot match a different object"))
            elif pv.probe_is_member(probe):
                obs.append(ok("IDENT-site", fi, key, props, n, "probe is a product-space member (state=None)"))
            else:
                tcl = pv.typer.classes(probe)
                ecl = pv.typer.elem_classes(cont)
                if tcl and not (tcl & veq) and "BaseState" not in tcl:
                    obs.append(ok("IDENT-site", fi, key, props, n, f"probe is a {sorted(tcl)} (identity equality)"))
                elif not tcl and not ecl:
                    obs.append(skip("IDENT-site", fi, key, props, n, "neither probe nor container could be typed"))
                else:
                    obs.append(bad("IDENT-site", fi, key, props, n,
                                   f"`{src(n)[:70]}` tests membership by == : the probe may be a {sorted(veq)[0]} that still owns its state and the container may hold another "
                                   f"{sorted(veq)[0]} with an equal value, so a different subsystem can be matched"))
    if sites < 35:
        raise AnalysisError(f"IDENT-site: {sites} membership/index/remove sites (floor 35)")
    return obs
