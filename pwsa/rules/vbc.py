"""VBC – validate before commit (DESIGN §3): no physical write on a path that later raises
(or, in the resize family, returns False)."""
from __future__ import annotations

import ast
from typing import List, Optional, Set

from ..cfg import CFG, Node, explore, walk_node
from ..domains import LevelTracker
from ..model import AnalysisError, FuncInfo, Repo, method_call, src, walk_no_nested
from ..report import Ob, bad, ok
from . import rule
from .struct import STATE_MODULES

VBC_NAMES = {"apply_operation", "apply_kraus", "measure", "measure_POVM", "resize", "resize_fock", "trace_out"}
PHYS_CALLS = {"apply_operation", "apply_kraus", "measure", "measure_POVM", "_set_measured"}
PHYS_ATTRS = {"state", "dimensions", "_dimensions"}
RESIZE_FAMILY = {"resize", "resize_fock"}


def _param_derived(fn: ast.FunctionDef) -> Set[str]:
    a = fn.args
    names = {x.arg for x in a.posonlyargs + a.args + a.kwonlyargs} - {"self", "cls"}
    if a.vararg:
        names.add(a.vararg.arg)
    for _ in range(2):
        for n in walk_no_nested(fn):
            if isinstance(n, (ast.For, ast.comprehension)):
                if any(isinstance(x, ast.Name) and x.id in names for x in ast.walk(n.iter)):
                    names |= {t.id for t in ast.walk(n.target) if isinstance(t, ast.Name)}
    return names


def _is_narrowing(test: ast.AST) -> bool:
    """the repo's type-narrowing assert idiom: isinstance / is (not) None / hasattr, and `and`s of them"""
    if isinstance(test, ast.BoolOp):
        return all(_is_narrowing(v) for v in test.values)
    if isinstance(test, ast.Call) and isinstance(test.func, ast.Name) and test.func.id in ("isinstance", "hasattr", "callable"):
        return True
    if isinstance(test, ast.Compare) and len(test.ops) == 1 and isinstance(test.ops[0], (ast.Is, ast.IsNot)) \
            and isinstance(test.comparators[0], ast.Constant) and test.comparators[0].value is None:
        return True
    return False


def _phys_write(node: Node) -> Optional[str]:
    a = node.ast
    if node.kind == "stmt" and isinstance(a, (ast.Assign, ast.AugAssign, ast.AnnAssign)):
        targets = a.targets if isinstance(a, ast.Assign) else [a.target]
        for t in targets:
            for tt in (t.elts if isinstance(t, (ast.Tuple, ast.List)) else [t]):
                if isinstance(tt, ast.Attribute) and tt.attr in PHYS_ATTRS and getattr(a, "value", 1) is not None:
                    return f"writes {src(tt)}"
    for x in walk_node(node):
        mc = method_call(x)
        if mc and mc[1] in PHYS_CALLS and not (isinstance(mc[0], ast.Name) and mc[0].id in ("jnp", "np", "jax")):
            return f"calls {src(x.func)}()"
    return None


@rule("VBC")
def vbc(repo: Repo) -> List[Ob]:
    obs: List[Ob] = []
    n_exits = 0
    for fi in repo.scan_functions():
        if fi.module.name not in STATE_MODULES or fi.node.name not in VBC_NAMES or fi.cls is None:
            continue
        props = ("C17", "C10") if fi.node.name in RESIZE_FAMILY else ("C17",)
        cfg = CFG(fi.node)
        pd = _param_derived(fi.node)
        init_lv = {"self": frozenset({1, 2})} if fi.cls.name in ("ProductState", "Envelope") else {}
        lt = LevelTracker(["self"], init_lv)

        # boolean flag locals (`resolved = False` … `resolved = True` … `if not resolved: raise`): assigned nothing but True/False
        flag_vals: Dict[str, set] = {}
        for a_ in walk_no_nested(fi.node):
            if isinstance(a_, ast.Assign) and len(a_.targets) == 1 and isinstance(a_.targets[0], ast.Name):
                flag_vals.setdefault(a_.targets[0].id, set()).add(a_.value.value if isinstance(a_.value, ast.Constant) and isinstance(a_.value.value, bool) else "other")
        flags_ = {n_ for n_, vs in flag_vals.items() if vs <= {True, False} and n_ not in fi.params
                  and not any(isinstance(y, ast.Name) and y.id == n_ and isinstance(y.ctx, ast.Store) and not isinstance(p_, ast.Assign)
                              for p_ in ast.walk(fi.node) for y in ast.iter_child_nodes(p_))}

        def transfer(s, lab, d, st):
            w, lv, fl = st
            a_ = s.ast
            if flags_ and s.kind in ("test", "assert") and lab in ("T", "F"):
                t_ = a_
                truth = lab == "T"
                while isinstance(t_, ast.UnaryOp) and isinstance(t_.op, ast.Not):
                    t_, truth = t_.operand, not truth
                if isinstance(t_, ast.Name) and t_.id in flags_:
                    known_ = dict(fl).get(t_.id)
                    if known_ is not None and known_ != truth:
                        return []              # this branch is not taken with the flag's value on this path
                    fl = tuple(sorted({**dict(fl), t_.id: truth}.items()))
            if flags_ and s.kind == "stmt" and isinstance(a_, ast.Assign) and len(a_.targets) == 1 and isinstance(a_.targets[0], ast.Name) and a_.targets[0].id in flags_ \
                    and isinstance(a_.value, ast.Constant):
                fl = tuple(sorted({**dict(fl), a_.targets[0].id: a_.value.value}.items()))
            outs = lt.transfer(s, lab, d, lv)
            pw = _phys_write(s)
            if pw and w is None:
                w = f"{pw} (line {s.lineno})"
            return [(w, o, fl) for o in outs]

        seen = explore(cfg, (None, lt.init, tuple()), transfer)
        k = 0
        for n in cfg.nodes:
            fail = None
            if n.kind == "raise":
                fail = "raise"
            elif n.kind == "assert" and not _is_narrowing(n.ast) and any(isinstance(x, ast.Name) and x.id in pd for x in ast.walk(n.ast)):
                fail = "assert"
            elif n.kind == "return" and fi.node.name in RESIZE_FAMILY and isinstance(n.ast.value, ast.Constant) and n.ast.value.value is False:
                fail = "return False"
            if fail is None:
                continue
            k += 1
            n_exits += 1
            key = f"{fail}#{k}"
            writes = sorted({st_[0] for st_ in seen[n] if st_[0]})
            if writes:
                obs.append(bad("VBC", fi, key, props, n.ast if n.kind != "assert" else n.stmt,
                               f"this `{fail}` rejects the request after the state was already modified on the same path: {writes[0]}"))
            else:
                obs.append(ok("VBC", fi, key, props, n.ast if n.kind != "assert" else n.stmt, "no physical write precedes this rejection"))
    if n_exits < 40:
        raise AnalysisError(f"VBC: {n_exits} rejection exits (floor 40)")
    return obs
