"""Property -> rules mapping and the per-property driver."""
from __future__ import annotations

import json
import time
from typing import Dict, List

from .model import AnalysisError, Repo
from .report import Ob, known_match, load_known, write_evidence, write_replay
from .rules import RULES, TIER, load_all

# rules consulted per property; an obligation is reported against a property only when the
# rule attributes it to that property (Ob.props) – DESIGN Appendix A.
ALL = "*"   # every registered rule is consulted; an obligation counts for a property only when the rule attributes it (Ob.props)

PROPS: Dict[str, dict] = {
    "C01": {"rules": ALL,
            "explanation": "entry-point equivalence of apply_operation (27-cell ROUTE table, RNB); every Matrix-level application is a true sandwich O rho O^dagger (call form and literal einsum strings), product-state applications bind operator factors through the generated einsum strings (ESCGEN summaries compared with their specification for all list lengths, ESCCALL argument pairing); every committing level branch renormalises under operation.renormalize with the normaliser matching the level (NORM/RENORM); dimensions are recomputed and the target resized before the operator is read (PURE-b)",
            "declined": "numerical equality with an independent dense simulator; the numeric content of the operators (C12)"},
    "C02": {"rules": ALL,
            "explanation": "tensor order and bookkeeping order change together (PAIR: Envelope.combine/reorder, CompositeEnvelope.combine, ProductState.reorder); reorder/trace einsum generators equal their specification terms for all list lengths (ESCGEN); trace_out routing (ROUTE, RNB); reorder precedes the product-space partial trace (ESCCALL)",
            "declined": "numerical equality of the reconstructed joint density matrix"},
    "C03": {"rules": ALL,
            "explanation": "apply_operator_vector/matrix summaries: operator index lists are built in operand order, state/output lists in storage order, for all lengths and orders (ESCGEN); every generator call site feeds storage list and operand list in the right slots and reshapes the operator over the operand list (ESCCALL); k-th operand resized to the k-th computed dimension (PURE-b); only the blocks holding operands are gathered (BLOCK); operand types live on a shared enum member (PURE-a)",
            "declined": "numeric content of composite operators (C12) and the final arrays"},
    "C04": {"rules": ALL,
            "explanation": "every projective sampler site is enumerated; the backward slice of its p= argument must be |amplitude|^2 applied before any reduction (Vector) or the real diagonal of a validated partial trace (Matrix) (SAMP-e); measure_vector/measure_matrix generator summaries (ESCGEN); routing of measure (ROUTE, RNB)",
            "declined": "that outcome frequencies follow p (JAX's sampler is trusted); zero-probability outcomes"},
    "C05": {"rules": ALL,
            "explanation": "flags survive every delegation hop (FLAGS); evicted members get index None and a defined state for every member class (BOOK-evict); which subsystems are sampled/destroyed/retired for every flag and argument combination (MEASURE-SET decision table); survivors are conditioned on the drawn outcome and renormalised (COLLAPSE); no functional update is discarded (DISCARD); post-measurement normaliser matches the level (NORM)",
            "declined": "numerical equality of the survivors' state with the projected reference; 'later use raises' (the code relies on incidental assertion failures)"},
    "C06": {"rules": ALL,
            "explanation": "apply_kraus routing cells (ROUTE, RNB); Kraus terms are summed into a zero-initialised accumulator (KRAUS-SUM); every Kraus update is stored at Matrix level, promotion derived through the callee's level transformer (KRAUS-LEVEL); dimension and completeness checks precede every update (KRAUS-VALID); K rho K^dagger form at all sites (SANDWICH); contraction to a ket only under the purity test (PURITY); vectorised channels pair kron(K, conj K) with the row-major flattening; literal contractions of a product space only where the order is established (ESCCALL literal-contraction)",
            "declined": "trace/positivity of the numerical result"},
    "C07": {"rules": ALL,
            "explanation": "normaliser agrees with the representation level at every normalisation site (NORM), renormalisation present in every committing branch (RENORM), all-zero results rejected (ZERO), representation tag and stored data move together incl. member propagation (TAG), no discarded functional update (DISCARD)",
            "declined": "positivity, hermiticity, shape = product of dimensions as numbers"},
    "C08": {"rules": ALL,
            "explanation": "vector->matrix expansion conjugates exactly the bra factor in all five expanders (OUTER); tag/data pairing and purity-guarded contraction (TAG/PURITY); the contraction switch guards nothing but contract() calls and contract() writes only state and level (CONTRACT-ONLY); expand/contract routing branches can execute (RNB); the ket that replaces a pure density matrix is a column of eigh(rho)'s eigenvector matrix chosen by the eigenvalues, or a normalised column of rho (CONTRACT-VEC); a label is recognised by an exact entry test or against the whole basis vector (LABEL-EXACT); ket and density-matrix partial traces return the kept members in the same order (ESCCALL sibling clause)",
            "declined": "eigen-decomposition and tolerance arithmetic; equality of twin runs"},
    "C09": {"rules": ALL,
            "explanation": "POVM probabilities are the trace of the same sandwich the function uses for the post-state (SAMP-f); post-state = sandwich normalised by its trace at Matrix level (SANDWICH, SANDWICH-LIT, NORM, POVM-LEVEL); flags forwarded (FLAGS); routing (ROUTE, RNB); operand binding through generated strings (ESCGEN/ESCCALL); survivors are reduced from the post-measurement tensor and the post-state is stored on every path after the draw (COLLAPSE)",
            "declined": "numerical probabilities and post-states"},
    "C10": {"rules": ALL,
            "explanation": "every dimension commit that may shrink is dominated by a guard equivalent to num_quanta < new_dimensions (linear integer normalisation), success is reported only when dimension and array changed together, padding is zero padding (RESIZE); no write on a path to `return False` (VBC); targets resized to freshly computed operation dimensions (PURE-b); fixed cutoff rules keep every occupied level (BALANCE cutoff clauses); the shrink guard reads the occupation of the space that is resized and growth pads the axis the Fock's index names, fixed-axis forms only where every caller establishes the order (RESIZE guard-operand / pad-axis); structural clauses of the estimator: normalised input, trial operation built from the caller's parameters, phase-independent weights, tail guard over the last two levels, cutoff covers the level reached and is raised to num_quanta + 1 (DIM-NORM, EST-TAIL, DIM-FLOOR)",
            "declined": "the numerical size of expm tails, i.e. that the structural clauses of the estimator together reproduce the infinite-dimensional result up to the threshold for every operator"},
    "C11": {"rules": ALL,
            "explanation": "the beam-splitter arm folds (exact non-commutative polynomial algebra) to expm(i*eta*G) with G Hermitian, number conserving and coupling mode 0 with mode 1; both cutoffs are sum(num_quanta)+k, k>=1; the phase operator folds to diag(exp(i n theta)); ladder operators fold to their definitions (BALANCE, DEFS)",
            "declined": "the SU(2) action and the Mach-Zehnder probabilities as numbers"},
    "C12": {"rules": ALL,
            "explanation": "every member of the four operation-type enums has a dispatch arm, reads only its declared parameters and calls the constructor of its name with parameters bound by name (DISPATCH a-d); every constructor in _math/ops.py is folded symbolically (Gaussian rationals, sqrt2, exact e^{i k pi/4}, trig/exponential atoms of linear forms, ladder-operator words) and compared with its textbook definition for all parameter values; constant gates are checked unitary exactly (DEFS)",
            "declined": "floating-point accuracy of expm; identities that need analysis beyond the normal form (displaced/squeezed vacuum statistics)"},
    "C13": {"rules": ALL,
            "explanation": "per-function obligations whose conjunction is the inductive step of truthful bookkeeping: index refresh follows every removal/creation of product spaces (BOOK-order/create), evicted members are reset (BOOK-evict), a container is never appended to itself and merged handles/envelopes are re-pointed (BOOK-merge), registry and index writers are exactly the designated functions and nothing iterates over the process-wide registry (BOOK-own)",
            "declined": "absence of staleness along all histories (handles left in _instances[old_uid] are not rebound on merge: recorded by reading, no rule)"},
    "C14": {"rules": ALL,
            "explanation": "every sampler call site is enumerated; its key argument must be a fresh read of Config.random_key (def-use over the CFG, per loop iteration, exactly one draw per read); Config._key has exactly the three legal writers and the getter splits-and-stores on every path; no other entropy source and no set-iteration over state objects exists in the package",
            "declined": "equality of final *representations* across different prior activity (the contraction switch is process-global and not reset by set_seed); JAX's PRNG is trusted to be a deterministic function of the key"},
    "C15": {"rules": ALL,
            "explanation": "no method of an operation-type enum (a process-wide singleton) writes to the member, validation precedes update() (PURE-a); compute_dimensions dominates every read of operation.operator and the getter rebuilds the operator on every read (PURE-b); no memoisation in the operation modules (PURE-c); no in-place update of a value that may alias a caller-supplied array (ALIAS-MUT)",
            "declined": "nothing numerical is involved; alias analysis is intra-procedural over reaching definitions"},
    "C16": {"rules": ALL,
            "explanation": "one function, all paths: handled command set equals the documented set; n-ary commands are left folds over args[1:] starting at args[0] with the accumulator on the left; binary commands use (args[0], args[1]); names resolve to context[name](dimensions); every path returns a value or raises; no store into the arguments; no in-place update of a possibly aliased leaf (INTERP, ALIAS-MUT)",
            "declined": "numeric equality with an independent evaluator"},
    "C17": {"rules": ALL,
            "explanation": "on no CFG path of an action method does a physical write (state/dimensions assignment or a state-changing call) precede a raise, a request-validating assert or (resize family) `return False`, with infeasible level combinations pruned (VBC); Kraus validation precedes every update (KRAUS-VALID); all-zero results rejected before the commit (ZERO)",
            "declined": "that every kind of invalid request is detected at all (missing validations are review findings, not a rule)"},
    "C18": {"rules": ALL,
            "explanation": "eq/hash contract of every state class (IDENT-contract); every membership/index/remove/== site is classified by provenance of probe and container: safe if either side can only be a product-space member (state=None) or a non-subsystem object (IDENT-site)",
            "declined": "none beyond the provenance classes (DESIGN §3 IDENT)"},
    "C20": {"rules": ALL,
            "explanation": "arguments of every combine() call derive only from the addressed subsystems and the members of membership-selected product spaces; combine() consumes only selected spaces and its arguments; no loop over all product spaces writes; single-subsystem requests never reach combine() (path-sensitive on len(states)==1 / self.state is None / index kind) (BLOCK)",
            "declined": "bit-identity of bystander amplitudes as numbers (follows from the blocks not being written)"},
}

# A property whose statement quantifies over storage layouts / representation levels / composite operations presupposes
# the properties that make those layouts and representations faithful: a violation of one of *those* is also a violation of it.
DEPENDS: Dict[str, tuple] = {
    "C01": ("C02", "C08", "C10"),        # operations combine, change representation and resize the target before acting
    "C03": ("C01", "C02", "C08", "C10"),
    "C04": ("C02", "C08"),
    "C05": ("C02", "C08"),
    "C06": ("C02", "C08"),
    "C09": ("C02", "C08"),
    "C11": ("C01", "C02", "C03", "C08", "C10", "C12"),
}


def scope(pid: str) -> set:
    return {pid} | set(DEPENDS.get(pid, ()))


_CACHE: Dict[int, Dict[str, List[Ob]]] = {}


def run_rule(repo: Repo, name: str) -> List[Ob]:
    c = _CACHE.setdefault(id(repo), {})
    if name not in c:
        if name not in RULES:
            raise AnalysisError(f"rule {name} is not registered")
        try:
            c[name] = RULES[name](repo)
        except AnalysisError as e:
            from .rules import HOME
            home = HOME.get(name, None)
            c[name] = [Ob(name, "<rule>", "analysis-error", "error", tuple(home) if home else tuple(sorted(PROPS)), "", 0, str(e))]
    return c[name]


def collect(repo: Repo, pid: str, tier: str) -> List[Ob]:
    load_all()
    spec = PROPS[pid]
    obs: List[Ob] = []
    names = list(RULES) if spec["rules"] == ALL else spec["rules"]
    for rn in names:
        if TIER.get(rn, "quick") == "thorough" and tier != "thorough":
            continue
        obs += [o for o in run_rule(repo, rn) if scope(pid) & set(o.props)]
    return obs


def run_property(repo: Repo, pid: str, tier: str, seed: int, verbose: bool = False) -> int:
    t0 = time.time()
    spec = PROPS[pid]
    obs = collect(repo, pid, tier)
    known = load_known()["known"]
    from .report import partition_known
    known_hits, violations = partition_known([o for o in obs if o.status == "violation"], known, lambda o: scope(pid))
    errors = [o for o in obs if o.status == "error"]
    n_ob = sum(1 for o in obs if o.status in ("ok", "violation"))
    if n_ob == 0 and not errors:
        raise AnalysisError(f"{pid}: no obligation was generated (vacuous run)")
    rules_run = sorted({o.rule for o in obs})
    extra = {}
    if tier == "thorough":
        from .selftest import run_selftest
        extra["selftest"] = run_selftest(pid, seed)
    for o in known_hits:
        print(f"KNOWN-FINDING: property={pid} {o.rule} {o.where} {o.key}{' [' + o.code + ']' if o.code else ''} -- {o.msg}")
    for i, o in enumerate(violations):
        p = write_replay(pid, i, o)
        print(f"VIOLATION property={pid} replay={p}")
        print(f"  {o.text()}")
    if verbose:
        for o in obs:
            if o.status in ("unanalysed", "note"):
                print(f"  [{o.status}] {o.text()}")
    ev = write_evidence(pid, tier, seed, obs, violations, known_hits, rules_run, spec["explanation"],
                        repo.counts, repo.digests(), time.time() - t0, spec.get("declined", ""), extra)
    st = extra.get("selftest")
    st_fail = bool(st and st.get("failed"))
    print(f"{pid}: {n_ob} obligations, {n_ob - len(violations) - len(known_hits)} hold, {len(known_hits)} known findings, "
          f"{len(violations)} unlisted violations; rules={','.join(rules_run)}; evidence={ev}")
    for o in errors:
        print(f"ANALYSIS-ERROR rule {o.rule} cannot decide its obligations for {pid}: {o.msg}")
    # every obligation is decided on the confirmed tree: one that cannot be decided any more is reported, not passed over
    undecided = [o for o in obs if o.status == "unanalysed"]
    for o in undecided:
        print(f"ANALYSIS-INCOMPLETE property={pid} undecided obligation (the construct is outside the idioms this rule reads): {o.text()}")
    if errors or undecided:
        return 1 if violations else 2
    if st_fail:
        print(f"ANALYSIS-ERROR self-test of the rules serving {pid} failed: {st['failed']}")
        return 2 if not violations else 1
    return 1 if violations else 0


def replay(path: str) -> int:
    data = json.loads(open(path).read())
    pid = data["property"]
    repo = Repo()
    obs = collect(repo, pid, "thorough")
    hit = [o for o in obs if (o.rule, o.where, o.key) == (data["rule"], data["where"], data["key"])]
    if not hit:
        print(f"replay: obligation {data['rule']} {data['where']} {data['key']} no longer exists on this tree")
        return 0
    rc = 0
    for o in hit:
        print(f"replay: {o.status.upper()} {o.text()}")
        if o.status == "violation":
            rc = 1
    return rc
