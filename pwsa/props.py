"""Property -> rules mapping and the per-property driver."""
from __future__ import annotations

import json
import time
from typing import Dict, List

from .model import AnalysisError, Repo
from .report import Ob, known_match, load_known, write_evidence, write_replay
from .rules import RULES, TIER, load_all

# rules consulted per property; an obligation is reported against a property only when the
# rule attributes it to that property (Ob.props) – DESIGN Appendix A.
PROPS: Dict[str, dict] = {
    "C14": {
        "rules": ["SAMP-a", "SAMP-b", "SAMP-c", "RNB"],
        "explanation": "every sampler call site is enumerated; its key argument must be a fresh read of Config.random_key (def-use over the CFG, per loop iteration, exactly one draw per read); Config._key has exactly the three legal writers and the getter splits-and-stores on every path; no other entropy source and no set-iteration over state objects exists in the package",
        "declined": "equality of final *representations* across different prior activity (the contraction switch is process-global and not reset by set_seed); JAX's PRNG is trusted to be a deterministic function of the key",
    },
}

_CACHE: Dict[int, Dict[str, List[Ob]]] = {}


def run_rule(repo: Repo, name: str) -> List[Ob]:
    c = _CACHE.setdefault(id(repo), {})
    if name not in c:
        if name not in RULES:
            raise AnalysisError(f"rule {name} is not registered")
        c[name] = RULES[name](repo)
    return c[name]


def collect(repo: Repo, pid: str, tier: str) -> List[Ob]:
    load_all()
    spec = PROPS[pid]
    obs: List[Ob] = []
    for rn in spec["rules"]:
        if TIER.get(rn, "quick") == "thorough" and tier != "thorough":
            continue
        obs += [o for o in run_rule(repo, rn) if pid in o.props]
    return obs


def run_property(repo: Repo, pid: str, tier: str, seed: int, verbose: bool = False) -> int:
    t0 = time.time()
    spec = PROPS[pid]
    obs = collect(repo, pid, tier)
    known = load_known()["known"]
    violations, known_hits = [], []
    for o in obs:
        if o.status != "violation":
            continue
        if known_match(pid, o, known):
            known_hits.append(o)
        else:
            violations.append(o)
    n_ob = sum(1 for o in obs if o.status in ("ok", "violation"))
    if n_ob == 0:
        raise AnalysisError(f"{pid}: no obligation was generated (vacuous run)")
    rules_run = sorted({o.rule for o in obs})
    extra = {}
    if tier == "thorough":
        from .selftest import run_selftest
        extra["selftest"] = run_selftest(pid, seed)
    for o in known_hits:
        print(f"KNOWN-FINDING: property={pid} {o.rule} {o.where} {o.key} -- {o.msg}")
    for i, o in enumerate(violations):
        p = write_replay(pid, i, o)
        print(f"VIOLATION property={pid} replay={p}")
        print(f"  {o.text()}")
    if verbose:
        for o in obs:
            if o.status in ("unanalysed", "note"):
                print(f"  [{o.status}] {o.text()}")
    ev = write_evidence(pid, tier, seed, obs, violations, known_hits, rules_run, spec["explanation"],
                        repo.counts, repo.digests(), time.time() - t0, spec.get("declined", ""), extra)
    st = extra.get("selftest")
    st_fail = bool(st and st.get("failed"))
    print(f"{pid}: {n_ob} obligations, {n_ob - len(violations) - len(known_hits)} hold, {len(known_hits)} known findings, "
          f"{len(violations)} unlisted violations; rules={','.join(rules_run)}; evidence={ev}")
    if st_fail:
        print(f"ANALYSIS-ERROR self-test of the rules serving {pid} failed: {st['failed']}")
        return 2 if not violations else 1
    return 1 if violations else 0


def replay(path: str) -> int:
    data = json.loads(open(path).read())
    pid = data["property"]
    repo = Repo()
    obs = collect(repo, pid, "thorough")
    hit = [o for o in obs if (o.rule, o.where, o.key) == (data["rule"], data["where"], data["key"])]
    if not hit:
        print(f"replay: obligation {data['rule']} {data['where']} {data['key']} no longer exists on this tree")
        return 0
    rc = 0
    for o in hit:
        print(f"replay: {o.status.upper()} {o.text()}")
        if o.status == "violation":
            rc = 1
    return rc
