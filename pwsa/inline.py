"""See-through for private helpers introduced by refactoring.

The rules are calibrated on the function boundaries of the pinned tree.  When a maintainer extracts
part of an anchored function into a *new* private helper (``self._check_member_states(states)``,
``return self._resize_vector(n)``, ``x = _last_true_index(mask)``), the analysed body of the caller is
the body with that helper spliced back in (parameters substituted / bound, helper locals renamed).
Helpers that already exist on the pinned tree (``KNOWN_PRIVATE``) are real interfaces some rules are
written against and are never inlined.  Nothing is executed; this is an AST-to-AST rewrite.
"""
from __future__ import annotations

import ast
import copy
from typing import Dict, List, Optional, Set, Tuple

KNOWN_PRIVATE = {
    "_set_measured", "_num_quanta", "_initial_estimate", "_compute_dimensions", "_increase_dimensions", "_expm",
    "_measured", "_containers", "_instances",
}
MAX_DEPTH = 3


def _is_simple(e: ast.AST) -> bool:
    if isinstance(e, (ast.Name, ast.Constant)):
        return True
    if isinstance(e, ast.Attribute):
        return _is_simple(e.value)
    if isinstance(e, ast.Starred):
        return _is_simple(e.value)
    return False


class _Subst(ast.NodeTransformer):
    def __init__(self, mapping: Dict[str, ast.AST], rename: Dict[str, str]):
        self.mapping, self.rename = mapping, rename

    def visit_Name(self, n: ast.Name):
        if n.id in self.mapping and isinstance(n.ctx, ast.Load):
            return copy.deepcopy(self.mapping[n.id])
        if n.id in self.rename:
            return ast.copy_location(ast.Name(id=self.rename[n.id], ctx=n.ctx), n)
        return n

    def visit_Starred(self, n: ast.Starred):
        # *param where param -> *arg
        if isinstance(n.value, ast.Name) and n.value.id in self.mapping and isinstance(self.mapping[n.value.id], ast.Starred):
            return ast.copy_location(ast.Starred(value=copy.deepcopy(self.mapping[n.value.id].value), ctx=n.ctx), n)
        return self.generic_visit(n)

    def visit_FunctionDef(self, n):
        return n

    def visit_Lambda(self, n):
        return n


def _stored_names(fn: ast.FunctionDef) -> Set[str]:
    out: Set[str] = set()
    for x in ast.walk(fn):
        if isinstance(x, ast.Name) and isinstance(x.ctx, (ast.Store, ast.Del)):
            out.add(x.id)
        elif isinstance(x, (ast.Import, ast.ImportFrom)):
            pass
    return out


def _returns(fn: ast.FunctionDef) -> List[ast.Return]:
    out = []
    todo = list(fn.body)
    while todo:
        s = todo.pop()
        if isinstance(s, ast.Return):
            out.append(s)
        if isinstance(s, (ast.FunctionDef, ast.ClassDef, ast.Lambda)):
            continue
        for c in ast.iter_child_nodes(s):
            todo.append(c)
    return out


def _body_wo_doc(fn: ast.FunctionDef) -> List[ast.stmt]:
    b = fn.body
    if b and isinstance(b[0], ast.Expr) and isinstance(b[0].value, ast.Constant) and isinstance(b[0].value.value, str):
        return b[1:]
    return b


def _is_bare_return(s: ast.stmt) -> bool:
    return isinstance(s, ast.Return) and (s.value is None or (isinstance(s.value, ast.Constant) and s.value.value is None))


def _has_return(stmts: List[ast.stmt]) -> bool:
    return any(isinstance(x, ast.Return) for s in stmts for x in ast.walk(s))


def _eliminate_bare_returns(stmts: List[ast.stmt]) -> Optional[List[ast.stmt]]:
    """rewrite guard clauses into if/else so that the block has no `return`; None if a return sits inside a loop/with/try"""
    out: List[ast.stmt] = []
    for i, s in enumerate(stmts):
        if _is_bare_return(s):
            return out
        if isinstance(s, ast.If) and (_has_return(s.body) or _has_return(s.orelse)):
            rest = _eliminate_bare_returns(stmts[i + 1:])
            body = _eliminate_bare_returns(s.body)
            orelse = _eliminate_bare_returns(s.orelse)
            if rest is None or body is None or orelse is None:
                return None
            body_ret = bool(s.body) and _ends_in_return(s.body)
            else_ret = bool(s.orelse) and _ends_in_return(s.orelse)
            if body_ret and not else_ret:
                orelse = orelse + rest
            elif else_ret and not body_ret:
                body = body + rest
            elif not body_ret and not else_ret:
                return None        # return nested deeper than the branch end
            new = ast.copy_location(ast.If(test=s.test, body=body or [ast.copy_location(ast.Pass(), s)], orelse=orelse), s)
            out.append(new)
            return out
        if _has_return([s]):
            return None
        out.append(s)
    return out


def _ends_closed(stmts: List[ast.stmt]) -> bool:
    """no path falls off the end of the block: it ends in return/raise, or in an if whose two arms both do"""
    if not stmts:
        return False
    last = stmts[-1]
    if isinstance(last, (ast.Return, ast.Raise)):
        return True
    if isinstance(last, ast.If):
        return _ends_closed(last.body) and _ends_closed(last.orelse)
    return False


def _assign_returns(stmts: List[ast.stmt], mk) -> Optional[List[ast.stmt]]:
    """rewrite a helper body with several `return <v>` (at the ends of if-arms / of the body) into a block that assigns
    the result instead: statements after an arm that returns move into the other arm.  None if a return sits inside a
    loop/with/try/match or an arm returns on some paths only."""
    out: List[ast.stmt] = []
    for i, s in enumerate(stmts):
        if isinstance(s, ast.Return):
            out.append(mk(s.value if s.value is not None else ast.Constant(value=None), s))
            return out
        if isinstance(s, ast.If) and (_has_return(s.body) or _has_return(s.orelse)):
            rest = stmts[i + 1:]
            b_closed, e_closed = _ends_closed(s.body), _ends_closed(s.orelse)
            if b_closed and e_closed:
                body, orelse = _assign_returns(s.body, mk), _assign_returns(s.orelse, mk)
            elif b_closed:
                body, orelse = _assign_returns(s.body, mk), _assign_returns(list(s.orelse) + rest, mk)
            elif e_closed:
                body, orelse = _assign_returns(list(s.body) + rest, mk), _assign_returns(s.orelse, mk)
            else:
                return None
            if body is None or orelse is None:
                return None
            out.append(ast.copy_location(ast.If(test=s.test, body=body or [ast.copy_location(ast.Pass(), s)], orelse=orelse), s))
            return out
        if isinstance(s, ast.Raise):
            out.append(s)
            return out
        if isinstance(s, ast.Match) and any(_has_return(c.body) for c in s.cases):
            # `match x: case A: return a  case B: return b` – every arm assigns the result; what follows the match is the arm of "no case matched"
            rest = stmts[i + 1:]
            cases = []
            wildcard = False
            for c in s.cases:
                body = _assign_returns(list(c.body) if _ends_closed(c.body) else list(c.body) + rest, mk)
                if body is None:
                    return None
                if isinstance(c.pattern, ast.MatchAs) and c.pattern.pattern is None and c.guard is None:
                    wildcard = True
                cases.append(ast.match_case(pattern=c.pattern, guard=c.guard, body=body or [ast.copy_location(ast.Pass(), s)]))
            if not wildcard:
                tail = _assign_returns(rest, mk)
                if tail is None:
                    return None
                cases.append(ast.match_case(pattern=ast.MatchAs(pattern=None, name=None), guard=None, body=tail or [ast.copy_location(ast.Pass(), s)]))
            out.append(ast.copy_location(ast.Match(subject=s.subject, cases=cases), s))
            return out
        if _has_return([s]):
            return None
        out.append(s)
    out.append(mk(ast.Constant(value=None), stmts[-1] if stmts else None))
    return out


def _ends_in_return(stmts: List[ast.stmt]) -> bool:
    if not stmts:
        return False
    last = stmts[-1]
    if _is_bare_return(last):
        return True
    if isinstance(last, ast.If):
        return _ends_in_return(last.body) and _ends_in_return(last.orelse)
    return False


def _root(e: ast.AST) -> ast.AST:
    while isinstance(e, (ast.Attribute, ast.Subscript)):
        e = e.value
    return e


def _is_literal(v: ast.AST) -> bool:
    if isinstance(v, ast.Constant) and isinstance(v.value, (str, int, float, complex)) and not isinstance(v.value, bool):
        return True
    if isinstance(v, (ast.Tuple, ast.List)) and v.elts and all(isinstance(e, ast.Constant) and isinstance(e.value, (int, float)) and not isinstance(e.value, bool) for e in v.elts):
        return True
    if isinstance(v, (ast.Tuple, ast.List, ast.Set)) and v.elts and all(isinstance(e, ast.Attribute) and isinstance(e.value, ast.Name) and e.value.id[:1].isupper() for e in v.elts):
        return True          # a tuple of enum members / class attributes: (FockOperationType.Displace, FockOperationType.Squeeze)
    return False


def _is_pure_display(e: ast.AST) -> bool:
    """a list/tuple display or comprehension built from attribute reads only (no calls): a fresh value, evaluating it earlier changes nothing"""
    if not isinstance(e, (ast.List, ast.Tuple, ast.ListComp)):
        return False
    return not any(isinstance(x, (ast.Call, ast.NamedExpr, ast.Await, ast.Yield, ast.YieldFrom, ast.Lambda)) for x in ast.walk(e))


def _computes_only(helper: ast.FunctionDef) -> bool:
    """the helper only computes and returns a value: local assignments (also into containers it created itself), tests, asserts, returns"""
    a = helper.args
    params = {p.arg for p in a.posonlyargs + a.args + a.kwonlyargs} | ({a.vararg.arg} if a.vararg else set()) | ({a.kwarg.arg} if a.kwarg else set())
    own = {x.id for x in ast.walk(helper) if isinstance(x, ast.Name) and isinstance(x.ctx, ast.Store)} - params
    for x in ast.walk(helper):
        if isinstance(x, (ast.Attribute, ast.Subscript)) and isinstance(x.ctx, (ast.Store, ast.Del)):
            root = x
            while isinstance(root, (ast.Attribute, ast.Subscript)):
                root = root.value
            if isinstance(x, ast.Subscript) and isinstance(root, ast.Name) and root.id in own and isinstance(x.value, ast.Name):
                continue          # a slot of a list/dict the helper built itself
            return False
        if isinstance(x, ast.Expr) and isinstance(x.value, ast.Call):
            f = x.value.func
            # growing / ordering a list the helper owns or was handed (`dims.append(1)`) touches nothing the caller's statement reads elsewhere
            if isinstance(f, ast.Attribute) and isinstance(f.value, ast.Name) and f.value.id in (own | params) and f.attr in ("append", "extend", "insert", "sort", "reverse"):
                continue
            return False
        if isinstance(x, (ast.AugAssign,)) and not isinstance(x.target, ast.Name):
            return False
        if isinstance(x, (ast.With, ast.Try, ast.While)):
            return False
    return True


def _walk_header(node):
    """the expressions evaluated by a CFG node itself (not the bodies of the compound statement it heads)"""
    from .cfg import walk_node
    return walk_node(node)


class Inliner:
    def __init__(self, repo):
        self.repo = repo
        self.counter = 0
        self.inlined: List[Tuple[str, str]] = []

    def resolve(self, call: ast.Call, fi) -> Optional[ast.FunctionDef]:
        f = call.func
        name = None
        target = None
        if isinstance(f, ast.Attribute) and isinstance(f.value, ast.Name) and f.value.id in ("self", "cls") and fi.cls is not None:
            name = f.attr
            m = self.repo.resolve_method(fi.cls.name, name)
            target = m
        elif isinstance(f, ast.Attribute) and isinstance(f.value, ast.Name) and f.value.id in self.repo.classes:
            name = f.attr
            target = self.repo.resolve_method(f.value.id, name)
        elif isinstance(f, ast.Name):
            name = f.id
            t = self.repo.funcs.get(f"{fi.module.name.split('.')[-1]}:{name}")
            target = t if t is not None and t.cls is None and t.module is fi.module else None
            if target is None and name.startswith("_") and not name.startswith("__"):
                # a private helper imported from another module of the package (`from photon_weave._math.ops import _normalise_ket`),
                # at module level or inside the calling function
                origin = fi.module.import_alias.get(name)
                if origin is None:
                    own0 = getattr(fi, "orig", None) or fi.node
                    for imp in ast.walk(own0):
                        if isinstance(imp, ast.ImportFrom) and imp.module and any((a_.asname or a_.name) == name for a_ in imp.names):
                            real = next(a_.name for a_ in imp.names if (a_.asname or a_.name) == name)
                            base = imp.module if imp.level == 0 else self.repo._resolve_relative(fi.module, imp)
                            origin = f"{base}.{real}"
                if origin and origin.startswith("photon_weave.") and "." in origin:
                    modname, fname = origin.rsplit(".", 1)
                    t2 = self.repo.funcs.get(f"{modname.split('.')[-1]}:{fname}")
                    if t2 is not None and t2.cls is None and t2.module.name == modname:
                        target = t2
                        name = fname
            if target is None:
                # a parameterless closure defined inside the calling function and bound once: `def holding(): return [...]`
                own = getattr(fi, "orig", None) or fi.node
                nested = [x for x in ast.walk(own) if isinstance(x, ast.FunctionDef) and x is not own and x.name == name]
                rebound = [x for x in ast.walk(own) if isinstance(x, ast.Name) and x.id == name and isinstance(x.ctx, ast.Store)]
                if len(nested) == 1 and not rebound and not (nested[0].args.vararg or nested[0].args.kwarg) \
                        and not any(isinstance(a_, ast.Starred) for a_ in call.args) and all(k_.arg is not None for k_ in call.keywords) \
                        and not any(isinstance(x, (ast.Yield, ast.YieldFrom, ast.Await, ast.Global, ast.Nonlocal)) for x in ast.walk(nested[0])):
                    return nested[0]
        if name is None or target is None:
            return None
        if not name.startswith("_") or name.startswith("__") or name in KNOWN_PRIVATE:
            return None
        if target.kind != "method" and target.kind != "function":
            return None
        node = getattr(target, "orig", target.node)
        if node is fi.node or node is getattr(fi, "orig", None):
            return None
        if any(isinstance(x, (ast.Yield, ast.YieldFrom, ast.Await, ast.Global, ast.Nonlocal)) for x in ast.walk(node)):
            return None
        return node

    def bind(self, helper: ast.FunctionDef, call: ast.Call) -> Optional[Tuple[Dict[str, ast.AST], List[ast.stmt], Dict[str, str]]]:
        a = helper.args
        params = [p.arg for p in a.posonlyargs + a.args]
        decos = {ast.unparse(d) for d in helper.decorator_list}
        if params and params[0] in ("self", "cls") and "staticmethod" not in decos:
            params = params[1:]
        defaults = dict(zip([p.arg for p in (a.posonlyargs + a.args)][-len(a.defaults):] if a.defaults else [], a.defaults))
        mapping: Dict[str, ast.AST] = {}
        args = list(call.args)
        i = 0
        for p in params:
            if i < len(args) and not isinstance(args[i], ast.Starred):
                mapping[p] = args[i]
                i += 1
        if a.vararg is not None:
            rest = args[i:]
            if len(rest) == 1 and isinstance(rest[0], ast.Starred):
                mapping[a.vararg.arg] = rest[0].value       # the tuple itself
            elif rest:
                return None
        elif i < len(args):
            return None
        for kw in call.keywords:
            if kw.arg is None:
                # **kwargs handed through to a helper that itself takes **kwargs
                if a.kwarg is not None and isinstance(kw.value, ast.Name):
                    mapping[a.kwarg.arg] = kw.value
                    continue
                return None
            mapping[kw.arg] = kw.value
        for p in params + [k.arg for k in a.kwonlyargs]:
            if p not in mapping:
                d = defaults.get(p)
                if d is None:
                    for k, dv in zip(a.kwonlyargs, a.kw_defaults):
                        if k.arg == p and dv is not None:
                            d = dv
                if d is None:
                    return None
                mapping[p] = d
        self.counter += 1
        sfx = f"__h{self.counter}"
        stored = _stored_names(helper)
        pre: List[ast.stmt] = []
        subst: Dict[str, ast.AST] = {}
        rename: Dict[str, str] = {}
        for p, arg in mapping.items():
            if _is_simple(arg) and p not in stored:
                subst[p] = arg
            else:
                rename[p] = p + sfx
                pre.append(ast.copy_location(ast.Assign(targets=[ast.Name(id=p + sfx, ctx=ast.Store())], value=copy.deepcopy(arg)), call))
        for n in stored:
            if n not in rename and n not in mapping:
                rename[n] = n + sfx
        return subst, pre, rename

    def splice(self, helper: ast.FunctionDef, call: ast.Call, mode: str, target: Optional[ast.AST] = None) -> Optional[List[ast.stmt]]:
        b = self.bind(helper, call)
        if b is None:
            return None
        subst, pre, rename = b
        body = [copy.deepcopy(s) for s in _body_wo_doc(helper)]
        rets = _returns(helper)
        tr = _Subst(subst, rename)
        if mode == "return":
            out = [tr.visit(s) for s in body]
            # a helper that falls off its end returns None
            if not (body and isinstance(body[-1], (ast.Return, ast.Raise))):
                out.append(ast.copy_location(ast.Return(value=ast.Constant(value=None)), call))
            return pre + out
        orig_body = _body_wo_doc(helper)
        last_is_ret = bool(orig_body) and isinstance(orig_body[-1], ast.Return)
        if mode == "expr" and all(r.value is None or (isinstance(r.value, ast.Constant) and r.value.value is None) for r in rets) \
                and any(not (last_is_ret and r is orig_body[-1]) for r in rets):
            # guard clauses (`if c: …; return`) -> if/else nesting, so that no early return is left
            flat = _eliminate_bare_returns([copy.deepcopy(x) for x in orig_body])
            if flat is not None:
                return (pre + [tr.visit(x) for x in flat]) or [ast.copy_location(ast.Pass(), call)]
        if mode == "expr":
            if any(r.value is not None and not (isinstance(r.value, ast.Constant) and r.value.value is None) for r in rets):
                return None
            if any(not (last_is_ret and r is orig_body[-1]) for r in rets):
                return None          # early `return` inside the helper would become a return of the caller
            if last_is_ret:
                body = body[:-1]
            return (pre + [tr.visit(x) for x in body]) or [ast.copy_location(ast.Pass(), call)]
        if mode == "assign":
            if len(rets) != 1 or not last_is_ret or rets[0] is not orig_body[-1] or rets[0].value is None:
                # several value returns in if-arms: assign the result in each arm instead
                def mk(v, at):
                    a = ast.Assign(targets=[ast.Name(id="__pwsa_result__", ctx=ast.Store())], value=v)
                    return ast.copy_location(a, at) if at is not None else ast.copy_location(a, call)
                flat = _assign_returns([copy.deepcopy(x) for x in orig_body], mk)
                if flat is None or not rets:
                    return None
                res = [tr.visit(x) for x in flat]
                for x in res:
                    for y in ast.walk(x):
                        if isinstance(y, ast.Assign) and len(y.targets) == 1 and isinstance(y.targets[0], ast.Name) and y.targets[0].id == "__pwsa_result__":
                            y.targets = [copy.deepcopy(target)]
                return pre + res
            value = tr.visit(body[-1]).value
            out = [tr.visit(x) for x in body[:-1]]
            asg = ast.copy_location(ast.Assign(targets=[copy.deepcopy(target)], value=value), call)
            return pre + out + [asg]
        return None

    def expr_inline(self, helper: ast.FunctionDef, call: ast.Call) -> Optional[ast.AST]:
        body = _body_wo_doc(helper)
        if len(body) != 1 or not isinstance(body[0], ast.Return) or body[0].value is None:
            return None
        b = self.bind(helper, call)
        if b is None:
            return None
        subst, pre, rename = b
        if pre:
            # an argument that is a larger expression can still be substituted when the helper's expression reads its
            # parameter exactly once (nothing is duplicated, nothing is dropped)
            uses: Dict[str, int] = {}
            for x in ast.walk(body[0].value):
                if isinstance(x, ast.Name) and isinstance(x.ctx, ast.Load):
                    uses[x.id] = uses.get(x.id, 0) + 1
            inv = {v: k for k, v in rename.items()}
            for a in pre:
                pname = inv.get(a.targets[0].id)
                if pname is None or uses.get(pname, 0) != 1 or any(isinstance(y, (ast.Lambda, ast.NamedExpr)) for y in ast.walk(a.value)):
                    return None
            subst = dict(subst)
            for a in pre:
                pname = inv[a.targets[0].id]
                subst[pname] = a.value
                rename = {k: v for k, v in rename.items() if k != pname}
        return _Subst(subst, rename).visit(copy.deepcopy(body[0].value))

    def rewrite_block(self, stmts: List[ast.stmt], fi, depth: int) -> List[ast.stmt]:
        out: List[ast.stmt] = []
        for s in stmts:
            repl = None
            if depth < MAX_DEPTH:
                call = None
                if isinstance(s, ast.Return) and isinstance(s.value, ast.Call):
                    h = self.resolve(s.value, fi)
                    if h is not None:
                        repl = self.splice(h, s.value, "return")
                        call = s.value
                elif isinstance(s, ast.Expr) and isinstance(s.value, ast.Call):
                    h = self.resolve(s.value, fi)
                    if h is not None:
                        repl = self.splice(h, s.value, "expr")
                        call = s.value
                elif isinstance(s, (ast.Assign, ast.AnnAssign)) and isinstance(getattr(s, "value", None), ast.Call):
                    h = self.resolve(s.value, fi)
                    tgt = s.targets[0] if isinstance(s, ast.Assign) and len(s.targets) == 1 else (s.target if isinstance(s, ast.AnnAssign) else None)
                    if h is not None and self.expr_inline(h, s.value) is not None:
                        h = None           # a one-expression helper: substituted in place by _rewrite_exprs below (no temporaries)
                    if h is not None and tgt is not None:
                        repl = self.splice(h, s.value, "assign", tgt)
                        call = s.value
                if repl is not None:
                    self.inlined.append((fi.qualname, ast.unparse(call.func)))
                    out += self.rewrite_block(repl, fi, depth + 1)
                    continue
            # a multi-statement helper called inside a larger expression of a simple statement: hoist it into a
            # temporary first (only when it is the statement's single call, so evaluation order is untouched)
            if depth < MAX_DEPTH and isinstance(s, (ast.Return, ast.Assign, ast.AnnAssign, ast.AugAssign, ast.Expr)):
                val = getattr(s, "value", None)
                if val is not None:
                    allcalls = [x for x in ast.walk(val) if isinstance(x, ast.Call)]
                    calls = [x for x in allcalls if x is not val or not isinstance(val, ast.Call)]
                    # the only call of the expression, or the only *private-helper* call when that helper merely computes
                    # a value (no attribute/subscript stores, no call statements): evaluating it first changes nothing
                    priv = [x for x in allcalls if self.resolve(x, fi) is not None and not (x is val)]
                    if len(allcalls) > 1 and len(priv) == 1 and _computes_only(self.resolve(priv[0], fi)):
                        calls = priv
                    elif isinstance(val, ast.Call) and isinstance(s, ast.AugAssign) and self.resolve(val, fi) is not None:
                        calls = [val]          # x += helper(...): evaluate the helper into a temporary first
                    elif isinstance(val, ast.Call):
                        calls = []
                    if len(calls) == 1 and all(_is_simple(a) or _is_pure_display(a) for a in calls[0].args) and all(_is_simple(k.value) for k in calls[0].keywords):
                        h = self.resolve(calls[0], fi)
                        if h is not None and self.expr_inline(h, calls[0]) is None:
                            self.counter += 1
                            tmp = f"hoisted__h{self.counter}"
                            pre_asg = ast.copy_location(ast.Assign(targets=[ast.Name(id=tmp, ctx=ast.Store())], value=calls[0]), s)
                            repl2 = self.splice(h, calls[0], "assign", ast.Name(id=tmp, ctx=ast.Store()))
                            if repl2 is not None:
                                class _H(ast.NodeTransformer):
                                    def visit_Call(self, n):
                                        if n is calls[0]:
                                            return ast.copy_location(ast.Name(id=tmp, ctx=ast.Load()), n)
                                        return self.generic_visit(n)
                                s.value = ast.copy_location(ast.Name(id=tmp, ctx=ast.Load()), val) if calls[0] is val else _H().visit(val)
                                self.inlined.append((fi.qualname, ast.unparse(calls[0].func)))
                                out += self.rewrite_block(repl2, fi, depth + 1)
                                out.append(s)
                                continue
            # `for x in helper(...)`: the iterable is evaluated once before the loop – a multi-statement value helper is hoisted there
            if depth < MAX_DEPTH and isinstance(s, ast.For) and isinstance(s.iter, ast.Call) and all(_is_simple(a) for a in s.iter.args) and not s.iter.keywords:
                h = self.resolve(s.iter, fi)
                if h is not None and self.expr_inline(h, s.iter) is None and _computes_only(h):
                    self.counter += 1
                    tmp = f"hoisted__h{self.counter}"
                    repl2 = self.splice(h, s.iter, "assign", ast.Name(id=tmp, ctx=ast.Store()))
                    if repl2 is not None:
                        self.inlined.append((fi.qualname, ast.unparse(s.iter.func)))
                        s.iter = ast.copy_location(ast.Name(id=tmp, ctx=ast.Load()), s.iter)
                        out += self.rewrite_block(repl2, fi, depth + 1)
            # nested blocks
            for fld in ("body", "orelse", "finalbody"):
                sub = getattr(s, fld, None)
                if isinstance(sub, list) and sub and isinstance(sub[0], ast.stmt) and not isinstance(s, (ast.FunctionDef, ast.ClassDef)):
                    setattr(s, fld, self.rewrite_block(sub, fi, depth))
            if isinstance(s, ast.Match):
                for c in s.cases:
                    c.body = self.rewrite_block(c.body, fi, depth)
            if isinstance(s, ast.Try):
                for hd in s.handlers:
                    hd.body = self.rewrite_block(hd.body, fi, depth)
            # expression-level helpers (single `return <expr>`)
            s = self._rewrite_exprs(s, fi)
            out.append(s)
        return out

    def _rewrite_exprs(self, s: ast.stmt, fi) -> ast.stmt:
        inl = self

        class E(ast.NodeTransformer):
            def visit_Call(self, n: ast.Call):
                self.generic_visit(n)
                h = inl.resolve(n, fi)
                if h is not None:
                    r = inl.expr_inline(h, n)
                    if r is not None:
                        inl.inlined.append((fi.qualname, ast.unparse(n.func)))
                        return ast.copy_location(r, n)
                return n

            def visit_FunctionDef(self, n):
                return n

            def visit_Lambda(self, n):
                return n
        if isinstance(s, (ast.FunctionDef, ast.ClassDef)):
            return s
        # only the statement's own expressions, not nested statement lists (handled by rewrite_block)
        for fld, val in ast.iter_fields(s):
            if isinstance(val, ast.expr):
                setattr(s, fld, E().visit(val))
            elif isinstance(val, list) and val and isinstance(val[0], ast.expr):
                setattr(s, fld, [E().visit(v) for v in val])
            elif isinstance(val, list) and val and isinstance(val[0], ast.keyword):
                for kw in val:
                    kw.value = E().visit(kw.value)
        return s

    def run(self) -> None:
        fis = self.repo.all_functions()
        for fi in fis:
            fi.orig = fi.node
        for fi in fis:
            if fi.module.relpath.startswith("examples/"):
                continue
            src_has_private = any(isinstance(x, ast.Call) and (
                (isinstance(x.func, ast.Attribute) and x.func.attr.startswith("_") and not x.func.attr.startswith("__") and x.func.attr not in KNOWN_PRIVATE)
                or (isinstance(x.func, ast.Name) and x.func.id.startswith("_") and not x.func.id.startswith("__") and x.func.id not in KNOWN_PRIVATE)) for x in ast.walk(fi.orig))
            has_closure = any(isinstance(x, ast.FunctionDef) and x is not fi.orig for x in ast.walk(fi.orig))
            tabs = self._level_tables(fi)
            uses_table = bool(tabs) and any(isinstance(x, ast.Name) and x.id in tabs for x in ast.walk(fi.orig))
            uses_table = uses_table or any(isinstance(x, ast.Call) and ((ast.unparse(x.func).split(".")[-1] == "reduce" and len(x.args) == 3)
                                                                         or (isinstance(x.func, ast.Name) and x.func.id == "map")) for x in ast.walk(fi.orig))
            if not src_has_private and not has_closure and not uses_table:
                continue
            new = copy.deepcopy(fi.orig)
            before = len(self.inlined)
            unrolled = self._unroll_level_table(new, fi)
            unrolled = self._unfold_reduce(new) or unrolled
            new.body = self.rewrite_block(new.body, fi, 0)
            if len(self.inlined) > before or unrolled:
                ast.fix_missing_locations(new)
                fi.node = new
        self.repo.absorbed = self._absorbed(fis)
        for fi in fis:
            if not fi.module.relpath.startswith("examples/"):
                self._records(fi)
                self._assertion_raises(fi)
                self._private_properties(fi)
                self._match_to_if(fi)
                self._unwalrus(fi)
                self._unroll_small_loops(fi)
                self._object_aliases(fi)
                self._registry_paths(fi)
                self._module_constants(fi)
                self._specialise_levels(fi)
                self._level_aliases(fi)

    def _level_tables(self, fi):
        tables = getattr(fi.module, "_pwsa_level_tables", None)
        if tables is None:
            def lvl(e):
                return e.attr if isinstance(e, ast.Attribute) and ast.unparse(e.value).split(".")[-1] == "ExpansionLevel" and e.attr in self.LEVEL_ORDER else None
            counts: Dict[str, int] = {}
            for st in ast.walk(fi.module.tree):
                if isinstance(st, ast.Name) and isinstance(st.ctx, (ast.Store, ast.Del)):
                    counts[st.id] = counts.get(st.id, 0) + 1
            tables = {}
            for st in fi.module.tree.body:
                tgt = st.targets[0] if isinstance(st, ast.Assign) and len(st.targets) == 1 else (st.target if isinstance(st, ast.AnnAssign) else None)
                v = getattr(st, "value", None)
                if isinstance(tgt, ast.Name) and counts.get(tgt.id) == 1 and isinstance(v, ast.Dict) and v.keys and all(k is not None and lvl(k) for k in v.keys):
                    tables[tgt.id] = {lvl(k): val for k, val in zip(v.keys, v.values)}
            try:
                fi.module._pwsa_level_tables = tables
            except Exception:
                pass
        return tables

    def _unroll_level_table(self, fn: ast.FunctionDef, fi) -> bool:
        """`recipe = TABLE.get(X.expansion_level)` followed by `if recipe is not None: BODY [else: ELSE]`, TABLE being a module-level dict
        keyed by ExpansionLevel members, is read as the chain `if X.expansion_level == <key1>: BODY[recipe := value1] elif … else: ELSE` it stands
        for; a tuple of functions unpacked from the entry (`f, g = recipe`) names those functions in that arm.  Works on the copy `fn` in place."""
        tables = self._level_tables(fi)
        if not tables:
            return False
        changed = [False]
        params = {a.arg for a in fn.args.posonlyargs + fn.args.args + fn.args.kwonlyargs}
        stores: Dict[str, int] = {}
        for x in ast.walk(fn):
            if isinstance(x, ast.Name) and isinstance(x.ctx, (ast.Store, ast.Del)):
                stores[x.id] = stores.get(x.id, 0) + 1

        def entry_of(st):
            """(local, table, subject, strict) for `local = TABLE.get(subject)` / `local = TABLE[subject]`"""
            if not (isinstance(st, ast.Assign) and len(st.targets) == 1 and isinstance(st.targets[0], ast.Name)):
                return None
            name, v = st.targets[0].id, st.value
            if stores.get(name) != 1 or name in params:
                return None
            if isinstance(v, ast.Call) and isinstance(v.func, ast.Attribute) and v.func.attr == "get" and isinstance(v.func.value, ast.Name) and v.func.value.id in tables \
                    and len(v.args) == 1 and not v.keywords:
                sub, strict, t = v.args[0], False, v.func.value.id
            elif isinstance(v, ast.Subscript) and isinstance(v.value, ast.Name) and v.value.id in tables:
                sub, strict, t = v.slice, True, v.value.id
            else:
                return None
            if not (isinstance(sub, ast.Attribute) and sub.attr == "expansion_level" and _is_simple(sub)) or t in params:
                return None
            return name, t, sub, strict

        def specialise(body, name, value):
            body = [_Subst({name: value}, {}).visit(copy.deepcopy(b)) for b in body]
            # `f, g = (fa, ga)` with plain names on the right: the arm calls fa / ga
            out = []
            alias: Dict[str, ast.AST] = {}
            for b in body:
                if isinstance(b, ast.Assign) and len(b.targets) == 1 and isinstance(b.targets[0], ast.Tuple) and isinstance(b.value, ast.Tuple) \
                        and len(b.targets[0].elts) == len(b.value.elts) and all(isinstance(t_, ast.Name) for t_ in b.targets[0].elts) and all(isinstance(v_, ast.Name) for v_ in b.value.elts):
                    names = [t_.id for t_ in b.targets[0].elts]
                    rest_stores = sum(1 for bb in body if bb is not b for y in ast.walk(bb) if isinstance(y, ast.Name) and isinstance(y.ctx, ast.Store) and y.id in names)
                    if rest_stores == 0:
                        alias.update({t_.id: v_ for t_, v_ in zip(b.targets[0].elts, b.value.elts)})
                        continue
                if isinstance(b, ast.Assign) and len(b.targets) == 1 and isinstance(b.targets[0], ast.Name) and isinstance(b.value, ast.Name) \
                        and sum(1 for bb in body for y in ast.walk(bb) if isinstance(y, ast.Name) and isinstance(y.ctx, ast.Store) and y.id == b.targets[0].id) == 1 \
                        and b.value.id not in stores:
                    alias[b.targets[0].id] = b.value
                    continue
                out.append(b)
            if alias:
                out = [_Subst(alias, {}).visit(b) for b in out]
            return out or [ast.Pass()]

        def block(stmts):
            out = []
            i = 0
            while i < len(stmts):
                st = stmts[i]
                for fld in ("body", "orelse", "finalbody"):
                    sub = getattr(st, fld, None)
                    if isinstance(sub, list) and sub and isinstance(sub[0], ast.stmt) and not isinstance(st, (ast.FunctionDef, ast.ClassDef)):
                        setattr(st, fld, block(sub))
                ent = entry_of(st)
                nxt = stmts[i + 1] if i + 1 < len(stmts) else None
                if ent is not None:
                    name, t, subj, strict = ent
                    used_later = any(isinstance(y, ast.Name) and y.id == name for later in stmts[i + 2:] for y in ast.walk(later))
                    guard = None
                    if isinstance(nxt, ast.If) and isinstance(nxt.test, ast.Compare) and len(nxt.test.ops) == 1 and isinstance(nxt.test.left, ast.Name) and nxt.test.left.id == name \
                            and isinstance(nxt.test.comparators[0], ast.Constant) and nxt.test.comparators[0].value is None and isinstance(nxt.test.ops[0], (ast.IsNot, ast.Is)):
                        guard = "isnot" if isinstance(nxt.test.ops[0], ast.IsNot) else "is"
                    if guard and not used_later:
                        body, other = (nxt.body, nxt.orelse) if guard == "isnot" else (nxt.orelse, nxt.body)
                        body = block(body)
                        chain = list(other) if not strict else [ast.copy_location(ast.Raise(exc=ast.Call(func=ast.Name(id="KeyError", ctx=ast.Load()), args=[], keywords=[]), cause=None), st)]
                        for key in reversed(list(tables[t])):
                            test = ast.Compare(left=copy.deepcopy(subj), ops=[ast.Eq()],
                                               comparators=[ast.Attribute(value=ast.Name(id="ExpansionLevel", ctx=ast.Load()), attr=key, ctx=ast.Load())])
                            node = ast.If(test=test, body=specialise(body, name, tables[t][key]), orelse=chain)
                            chain = [ast.copy_location(node, nxt)]
                        out += chain
                        changed[0] = True
                        i += 2
                        continue
                    if strict and nxt is not None:
                        rest = block(stmts[i + 1:])
                        chain = [ast.copy_location(ast.Raise(exc=ast.Call(func=ast.Name(id="KeyError", ctx=ast.Load()), args=[], keywords=[]), cause=None), st)]
                        for key in reversed(list(tables[t])):
                            test = ast.Compare(left=copy.deepcopy(subj), ops=[ast.Eq()],
                                               comparators=[ast.Attribute(value=ast.Name(id="ExpansionLevel", ctx=ast.Load()), attr=key, ctx=ast.Load())])
                            node = ast.If(test=test, body=specialise(rest, name, tables[t][key]), orelse=chain)
                            chain = [ast.copy_location(node, st)]
                        out += chain
                        changed[0] = True
                        return out
                out.append(st)
                i += 1
            return out
        fn.body = block(fn.body)
        return changed[0]

    def _record_classes(self, fi) -> Dict[str, List[str]]:
        rc = getattr(fi.module, "_pwsa_records", None)
        if rc is None:
            rc = {}
            for st in fi.module.tree.body:
                if isinstance(st, ast.ClassDef) and any((ast.unparse(b).split(".")[-1] == "NamedTuple") for b in st.bases):
                    fields = [x.target.id for x in st.body if isinstance(x, ast.AnnAssign) and isinstance(x.target, ast.Name)]
                    if fields and not any(isinstance(x, ast.FunctionDef) for x in st.body):
                        rc[st.name] = fields
            try:
                fi.module._pwsa_records = rc
            except Exception:
                pass
        return rc

    def _records(self, fi) -> None:
        """a local that only ever holds a module-level NamedTuple built in the function (`r = _Assembly(tensor, order)`) and is only read field by
        field (`r.tensor`), unpacked (`t, o = r`) or copied is read as one plain local per field (`r__f0`, `r__f1`): the record is immutable, so the
        snapshot taken at construction is what every later read sees"""
        rc = self._record_classes(fi)
        if not rc:
            return
        fn = fi.node
        if not any(isinstance(x, ast.Call) and isinstance(x.func, ast.Name) and x.func.id in rc for x in ast.walk(fn)):
            return
        params = {a.arg for a in fn.args.posonlyargs + fn.args.args + fn.args.kwonlyargs}
        parents: Dict[int, ast.AST] = {}
        for n in ast.walk(fn):
            for c in ast.iter_child_nodes(n):
                parents[id(c)] = n

        def ctor(v):
            if isinstance(v, ast.Call) and isinstance(v.func, ast.Name) and v.func.id in rc and not any(isinstance(a, ast.Starred) for a in v.args):
                fields = rc[v.func.id]
                vals = dict(zip(fields, v.args))
                for k in v.keywords:
                    if k.arg is None or k.arg not in fields:
                        return None
                    vals[k.arg] = k.value
                if len(v.args) <= len(fields) and set(vals) == set(fields):
                    return v.func.id, [vals[f] for f in fields]
            return None
        cls_of: Dict[str, str] = {}
        bad = set()
        stores = [x for x in ast.walk(fn) if isinstance(x, ast.Name) and isinstance(x.ctx, (ast.Store, ast.Del))]
        for _ in range(3):
            for x in stores:
                if x.id in bad or x.id in params:
                    bad.add(x.id)
                    continue
                par = parents.get(id(x))
                if isinstance(par, ast.Assign) and len(par.targets) == 1 and par.targets[0] is x:
                    c = ctor(par.value)
                    if c is not None:
                        if cls_of.setdefault(x.id, c[0]) != c[0]:
                            bad.add(x.id)
                        continue
                    if isinstance(par.value, ast.Name) and par.value.id in cls_of and par.value.id not in bad:
                        if cls_of.setdefault(x.id, cls_of[par.value.id]) != cls_of[par.value.id]:
                            bad.add(x.id)
                        continue
                    if isinstance(par.value, ast.Name):
                        continue         # decided in a later round (or never: then it is not a record)
                bad.add(x.id)
        cands = {n for n in cls_of if n not in bad}
        # every store classified?
        for x in stores:
            if x.id in cands:
                par = parents.get(id(x))
                if not (isinstance(par, ast.Assign) and (ctor(par.value) is not None or (isinstance(par.value, ast.Name) and par.value.id in cands))):
                    cands.discard(x.id)
        for x in ast.walk(fn):
            if isinstance(x, ast.Name) and isinstance(x.ctx, ast.Load) and x.id in cands:
                par = parents.get(id(x))
                ok_use = False
                if isinstance(par, ast.Attribute) and par.value is x and isinstance(par.ctx, ast.Load) and par.attr in rc[cls_of[x.id]]:
                    ok_use = True
                elif isinstance(par, ast.Assign) and par.value is x and len(par.targets) == 1:
                    t = par.targets[0]
                    if isinstance(t, ast.Name) and t.id in cands:
                        ok_use = True
                    elif isinstance(t, (ast.Tuple, ast.List)) and len(t.elts) == len(rc[cls_of[x.id]]) and all(isinstance(e, ast.Name) for e in t.elts):
                        ok_use = True
                if not ok_use:
                    cands.discard(x.id)
        # copies between candidates must stay inside the set
        for _ in range(3):
            for x in ast.walk(fn):
                if isinstance(x, ast.Assign) and len(x.targets) == 1 and isinstance(x.targets[0], ast.Name) and isinstance(x.value, ast.Name):
                    a_, b_ = x.targets[0].id, x.value.id
                    if (a_ in cands) != (b_ in cands) and (a_ in cls_of or b_ in cls_of):
                        cands.discard(a_)
                        cands.discard(b_)
        if not cands:
            return
        new = copy.deepcopy(fn) if fn is getattr(fi, "orig", None) else fn

        def fname(r, i):
            return f"{r}__f{i}"

        class _F(ast.NodeTransformer):
            def visit_Attribute(self, n):
                self.generic_visit(n)
                if isinstance(n.ctx, ast.Load) and isinstance(n.value, ast.Name) and n.value.id in cands and n.attr in rc[cls_of[n.value.id]]:
                    return ast.copy_location(ast.Name(id=fname(n.value.id, rc[cls_of[n.value.id]].index(n.attr)), ctx=ast.Load()), n)
                return n

        def block(stmts):
            out = []
            for st in stmts:
                for fld in ("body", "orelse", "finalbody"):
                    sub = getattr(st, fld, None)
                    if isinstance(sub, list) and sub and isinstance(sub[0], ast.stmt) and not isinstance(st, (ast.FunctionDef, ast.ClassDef)):
                        setattr(st, fld, block(sub))
                if isinstance(st, ast.Try):
                    for h in st.handlers:
                        h.body = block(h.body)
                if isinstance(st, ast.Match):
                    for c in st.cases:
                        c.body = block(c.body)
                if isinstance(st, ast.Assign) and len(st.targets) == 1:
                    t, v = st.targets[0], st.value
                    if isinstance(t, ast.Name) and t.id in cands:
                        c = ctor(v)
                        if c is not None:
                            # all field values are evaluated before any field local is written (they may read the previous record)
                            tmp = [ast.copy_location(ast.Assign(targets=[ast.Name(id=fname(t.id, i) + "n", ctx=ast.Store())], value=_F().visit(a)), st) for i, a in enumerate(c[1])]
                            fin = [ast.copy_location(ast.Assign(targets=[ast.Name(id=fname(t.id, i), ctx=ast.Store())], value=ast.Name(id=fname(t.id, i) + "n", ctx=ast.Load())), st)
                                   for i in range(len(c[1]))]
                            simple = all(isinstance(a, ast.Name) and not a.id.startswith(t.id + "__f") for a in c[1])
                            out += ([ast.copy_location(ast.Assign(targets=[ast.Name(id=fname(t.id, i), ctx=ast.Store())], value=a), st) for i, a in enumerate(c[1])] if simple else tmp + fin)
                            continue
                        if isinstance(v, ast.Name) and v.id in cands:
                            out += [ast.copy_location(ast.Assign(targets=[ast.Name(id=fname(t.id, i), ctx=ast.Store())], value=ast.Name(id=fname(v.id, i), ctx=ast.Load())), st)
                                    for i in range(len(rc[cls_of[v.id]]))]
                            continue
                    if isinstance(t, (ast.Tuple, ast.List)) and isinstance(v, ast.Name) and v.id in cands:
                        out += [ast.copy_location(ast.Assign(targets=[e], value=ast.Name(id=fname(v.id, i), ctx=ast.Load())), st) for i, e in enumerate(t.elts)]
                        continue
                out.append(_F().visit(st))
            return out
        new.body = block(new.body)
        ast.fix_missing_locations(new)
        fi.node = new

    def _private_properties(self, fi) -> None:
        """a private read-only property that only returns an expression over self (`_in_envelope`: `return isinstance(self.index, int)`) is read
        as that expression where a method of the class (or a subclass) reads it on self"""
        if fi.cls is None:
            return
        fn = fi.node
        reads = [x for x in ast.walk(fn) if isinstance(x, ast.Attribute) and isinstance(x.ctx, ast.Load) and isinstance(x.value, ast.Name) and x.value.id == "self"
                 and x.attr.startswith("_") and not x.attr.startswith("__")]
        if not reads:
            return
        table: Dict[str, ast.AST] = {}
        for x in reads:
            if x.attr in table:
                continue
            g = self.repo.resolve_property(fi.cls.name, x.attr)
            if g is None or self.repo.resolve_property(fi.cls.name, x.attr, setter=True) is not None:
                continue
            gnode = getattr(g, "orig", None) or g.node
            body = _body_wo_doc(gnode)
            if len(body) == 1 and isinstance(body[0], ast.Return) and body[0].value is not None and gnode is not fn \
                    and not any(isinstance(y, (ast.Call,)) and not (isinstance(y.func, ast.Name) and y.func.id in ("isinstance", "len", "bool", "int")) for y in ast.walk(body[0].value)) \
                    and all(y.id in ("self", "isinstance", "len", "bool", "int", "tuple", "list", "None") or y.id[:1].isupper() for y in ast.walk(body[0].value) if isinstance(y, ast.Name)):
                table[x.attr] = body[0].value
        if not table:
            return
        new = copy.deepcopy(fn) if fn is getattr(fi, "orig", None) else fn

        class _PP(ast.NodeTransformer):
            def visit_Attribute(self, n):
                self.generic_visit(n)
                if isinstance(n.ctx, ast.Load) and isinstance(n.value, ast.Name) and n.value.id == "self" and n.attr in table:
                    return ast.copy_location(copy.deepcopy(table[n.attr]), n)
                return n

            def visit_FunctionDef(self, n):
                if n is new:
                    self.generic_visit(n)
                return n
        _PP().visit(new)
        ast.fix_missing_locations(new)
        fi.node = new

    def _assertion_raises(self, fi) -> None:
        """`if not <test>: raise AssertionError[(msg)]` (no else, nothing else in the body) is the statement `assert <test>[, msg]` written out"""
        fn = fi.node

        def form(st):
            if not (isinstance(st, ast.If) and not st.orelse and len(st.body) == 1 and isinstance(st.body[0], ast.Raise) and st.body[0].cause is None):
                return None
            exc = st.body[0].exc
            msg = None
            if isinstance(exc, ast.Call) and isinstance(exc.func, ast.Name) and exc.func.id == "AssertionError" and len(exc.args) <= 1 and not exc.keywords:
                msg = exc.args[0] if exc.args else None
            elif not (isinstance(exc, ast.Name) and exc.id == "AssertionError"):
                return None
            test = st.test.operand if isinstance(st.test, ast.UnaryOp) and isinstance(st.test.op, ast.Not) else ast.UnaryOp(op=ast.Not(), operand=st.test)
            return test, msg
        if not any(form(x) for x in ast.walk(fn)):
            return
        new = copy.deepcopy(fn) if fn is getattr(fi, "orig", None) else fn

        def block(stmts):
            out = []
            for st in stmts:
                for fld in ("body", "orelse", "finalbody"):
                    sub = getattr(st, fld, None)
                    if isinstance(sub, list) and sub and isinstance(sub[0], ast.stmt) and not isinstance(st, (ast.FunctionDef, ast.ClassDef)):
                        setattr(st, fld, block(sub))
                if isinstance(st, ast.Match):
                    for c in st.cases:
                        c.body = block(c.body)
                if isinstance(st, ast.Try):
                    for h in st.handlers:
                        h.body = block(h.body)
                f = form(st)
                if f is not None:
                    out.append(ast.copy_location(ast.Assert(test=f[0], msg=f[1]), st))
                else:
                    out.append(st)
            return out
        new.body = block(new.body)
        ast.fix_missing_locations(new)
        fi.node = new

    def _unroll_small_loops(self, fi) -> None:
        """`for axis in [row, col]: indices[axis] = v` over a display of at most four plain names / attribute reads / `.index()` look-ups (also through
        the temporary a hoisted helper result was put in) is read as its body once per element; only loops whose body does nothing but fill slots
        `<list>[axis] = <value>`, without else, whose variable is not read outside such loops"""
        fn = fi.node
        cands = [l for l in ast.walk(fn) if isinstance(l, ast.For) and isinstance(l.target, ast.Name)]
        if not cands:
            return
        stores: Dict[str, int] = {}
        for x in ast.walk(fn):
            if isinstance(x, ast.Name) and isinstance(x.ctx, (ast.Store, ast.Del)):
                stores[x.id] = stores.get(x.id, 0) + 1
        once = {x.targets[0].id: x.value for x in ast.walk(fn) if isinstance(x, ast.Assign) and len(x.targets) == 1 and isinstance(x.targets[0], ast.Name) and stores.get(x.targets[0].id) == 1}

        def display(e):
            if isinstance(e, ast.Name) and e.id in once and e.id.startswith("hoisted__h"):
                e = once[e.id]
            if isinstance(e, (ast.List, ast.Tuple)) and 1 <= len(e.elts) <= 4 and all(_is_simple(x) or (isinstance(x, ast.Call) and isinstance(x.func, ast.Attribute) and x.func.attr == "index"
                                                                                                         and _is_simple(x.func.value) and all(_is_simple(a) for a in x.args)) for x in e.elts):
                return e.elts
            return None

        def eligible(l):
            elts = display(l.iter)
            same = [l2 for l2 in ast.walk(fn) if isinstance(l2, ast.For) and isinstance(l2.target, ast.Name) and l2.target.id == l.target.id]
            if elts is None or l.orelse or stores.get(l.target.id) != len(same):
                return None
            # only the slot-filling idiom `<list>[var] = <value>`: other small loops (`for s in [self.fock, self.polarization]: …`) are read as written
            if not all(isinstance(b, ast.Assign) and len(b.targets) == 1 and isinstance(b.targets[0], ast.Subscript) and isinstance(b.targets[0].slice, ast.Name)
                       and b.targets[0].slice.id == l.target.id and isinstance(b.targets[0].value, ast.Name) for b in l.body):
                return None
            inside = {id(y) for l2 in same for b in l2.body for y in ast.walk(b)}
            if any(isinstance(y, ast.Name) and y.id == l.target.id and isinstance(y.ctx, ast.Load) and id(y) not in inside for y in ast.walk(fn)):
                return None
            # a call element is evaluated once per use: only when the body reads the variable exactly once
            uses = sum(1 for b in l.body for y in ast.walk(b) if isinstance(y, ast.Name) and y.id == l.target.id)
            if any(isinstance(x, ast.Call) for x in elts) and uses != 1:
                return None
            # the body must not change what the later elements read
            body_stores = {y.id for b in l.body for y in ast.walk(b) if isinstance(y, ast.Name) and isinstance(y.ctx, ast.Store)}
            if any(isinstance(y, ast.Name) and y.id in body_stores for x in elts for y in ast.walk(x)):
                return None
            return elts
        if not any(eligible(l) for l in cands):
            return
        new = copy.deepcopy(fn) if fn is getattr(fi, "orig", None) else fn
        changed = [False]

        def block(stmts):
            out = []
            for st in stmts:
                for fld in ("body", "orelse", "finalbody"):
                    sub = getattr(st, fld, None)
                    if isinstance(sub, list) and sub and isinstance(sub[0], ast.stmt) and not isinstance(st, (ast.FunctionDef, ast.ClassDef)):
                        setattr(st, fld, block(sub))
                if isinstance(st, ast.For) and isinstance(st.target, ast.Name):
                    elts = verdict.get(id(st))
                    if elts is not None:
                        for e in elts:
                            out += [_Subst({st.target.id: e}, {}).visit(copy.deepcopy(b)) for b in st.body]
                        changed[0] = True
                        continue
                out.append(st)
            return out
        # (eligibility is judged on the tree that is rewritten)
        fn = new
        stores = {}
        for x in ast.walk(fn):
            if isinstance(x, ast.Name) and isinstance(x.ctx, (ast.Store, ast.Del)):
                stores[x.id] = stores.get(x.id, 0) + 1
        once = {x.targets[0].id: x.value for x in ast.walk(fn) if isinstance(x, ast.Assign) and len(x.targets) == 1 and isinstance(x.targets[0], ast.Name) and stores.get(x.targets[0].id) == 1}
        verdict = {id(l): eligible(l) for l in ast.walk(new) if isinstance(l, ast.For) and isinstance(l.target, ast.Name)}
        new.body = block(new.body)
        if changed[0]:
            ast.fix_missing_locations(new)
            fi.node = new

    def _unfold_reduce(self, fn: ast.FunctionDef) -> bool:
        """`acc = reduce(f, xs, init)` with f a lambda or a closure of the function is the left fold it abbreviates:
        `acc = init` followed by `for x in xs: acc = f(acc, x)` (a lambda is applied in place).  Only with an initialiser, only for a plain
        name / generator `xs`, and not for library callables such as jnp.kron (those forms are read by the rules as they are)."""
        closures = {x.name for x in ast.walk(fn) if isinstance(x, ast.FunctionDef) and x is not fn}
        changed = [False]

        def block(stmts):
            out = []
            for st in stmts:
                for fld in ("body", "orelse", "finalbody"):
                    sub = getattr(st, fld, None)
                    if isinstance(sub, list) and sub and isinstance(sub[0], ast.stmt) and not isinstance(st, (ast.FunctionDef, ast.ClassDef)):
                        setattr(st, fld, block(sub))
                if isinstance(st, ast.Assign) and len(st.targets) == 1 and isinstance(st.targets[0], (ast.Name, ast.Attribute)) and isinstance(st.value, ast.Call) \
                        and ast.unparse(st.value.func).split(".")[-1] == "reduce" and len(st.value.args) == 3 and not st.value.keywords:
                    f, xs, init = st.value.args
                    store_to = None
                    if isinstance(st.targets[0], ast.Name):
                        acc = st.targets[0].id
                    else:
                        # `self.state = reduce(…)`: folded in a temporary, stored once at the end (the attribute is written exactly once, as before)
                        self.counter += 1
                        acc = f"folded__h{self.counter}"
                        store_to = st.targets[0]
                    ok_f = (isinstance(f, ast.Lambda) and len(f.args.args) == 2 and not f.args.vararg and not f.args.kwarg and not f.args.defaults) or (isinstance(f, ast.Name) and f.id in closures)
                    ok_xs = isinstance(xs, (ast.Name, ast.Attribute)) or (isinstance(xs, ast.GeneratorExp) and len(xs.generators) == 1 and not xs.generators[0].ifs)
                    if ok_f and ok_xs and not any(isinstance(y, ast.Name) and y.id == acc for y in ast.walk(init)):
                        self.counter += 1
                        item = f"item__h{self.counter}"
                        if isinstance(xs, ast.GeneratorExp):
                            it, tgt, elt = xs.generators[0].iter, xs.generators[0].target, xs.elt
                        else:
                            it, tgt, elt = xs, ast.Name(id=item, ctx=ast.Store()), ast.Name(id=item, ctx=ast.Load())
                        if isinstance(f, ast.Lambda):
                            bind = {f.args.args[0].arg: ast.Name(id=acc, ctx=ast.Load()), f.args.args[1].arg: elt}
                            step = _Subst(bind, {}).visit(copy.deepcopy(f.body))
                        else:
                            step = ast.Call(func=f, args=[ast.Name(id=acc, ctx=ast.Load()), elt], keywords=[])
                        out.append(ast.copy_location(ast.Assign(targets=[ast.Name(id=acc, ctx=ast.Store())], value=init), st))
                        loop = ast.For(target=tgt, iter=it, body=[ast.copy_location(ast.Assign(targets=[ast.Name(id=acc, ctx=ast.Store())], value=step), st)], orelse=[])
                        out.append(ast.copy_location(loop, st))
                        if store_to is not None:
                            out.append(ast.copy_location(ast.Assign(targets=[store_to], value=ast.Name(id=acc, ctx=ast.Load())), st))
                        changed[0] = True
                        continue
                # probs = list(map(f, xs)) with f a closure:  probs = []; for x in xs: probs.append(f(x))
                tgt_ = st.targets[0] if isinstance(st, ast.Assign) and len(st.targets) == 1 else (st.target if isinstance(st, ast.AnnAssign) else None)
                v_ = getattr(st, "value", None)
                if isinstance(tgt_, ast.Name) and isinstance(v_, ast.Call) and isinstance(v_.func, ast.Name) and v_.func.id == "list" and len(v_.args) == 1 and not v_.keywords \
                        and isinstance(v_.args[0], ast.Call) and isinstance(v_.args[0].func, ast.Name) and v_.args[0].func.id == "map" and len(v_.args[0].args) == 2 \
                        and isinstance(v_.args[0].args[0], ast.Name) and v_.args[0].args[0].id in closures and isinstance(v_.args[0].args[1], (ast.Name, ast.Attribute)):
                    f, xs = v_.args[0].args
                    self.counter += 1
                    item = f"item__h{self.counter}"
                    out.append(ast.copy_location(ast.Assign(targets=[ast.Name(id=tgt_.id, ctx=ast.Store())], value=ast.List(elts=[], ctx=ast.Load())), st))
                    call = ast.Call(func=ast.Attribute(value=ast.Name(id=tgt_.id, ctx=ast.Load()), attr="append", ctx=ast.Load()),
                                    args=[ast.Call(func=f, args=[ast.Name(id=item, ctx=ast.Load())], keywords=[])], keywords=[])
                    loop = ast.For(target=ast.Name(id=item, ctx=ast.Store()), iter=xs, body=[ast.copy_location(ast.Expr(value=call), st)], orelse=[])
                    out.append(ast.copy_location(loop, st))
                    changed[0] = True
                    continue
                out.append(st)
            return out
        fn.body = block(fn.body)
        if changed[0]:
            ast.fix_missing_locations(fn)
        return changed[0]

    def _registry_paths(self, fi) -> None:
        """CompositeEnvelope's read-only properties `envelopes`, `state_objs`, `states`, `product_states` return an attribute of the container
        that the property `container` returns: inside the class `self.container.<attr>` is read as the property that returns it"""
        if fi.cls is None or fi.cls.name != "CompositeEnvelope":
            return
        table = getattr(self, "_reg_table", None)
        if table is None:
            table = {}
            cont = None
            props = {}
            for name, m in fi.cls.getters.items():
                node = getattr(m, "orig", None) or m.node
                body = _body_wo_doc(node)
                if len(body) == 1 and isinstance(body[0], ast.Return) and body[0].value is not None:
                    props[name] = body[0].value
            for name, v in props.items():
                if ast.unparse(v) in ("CompositeEnvelope._containers[self.uid]", "self._containers[self.uid]"):
                    cont = name
            if cont is not None:
                for name, v in sorted(props.items()):
                    if isinstance(v, ast.Attribute) and ast.unparse(v.value) in ("CompositeEnvelope._containers[self.uid]", "self._containers[self.uid]", f"self.{cont}"):
                        table.setdefault((cont, v.attr), name)
            # when two properties return the same attribute (`states`, `product_states`) the one named like the attribute is preferred
            for (c_, attr), name in list(table.items()):
                if attr in props and isinstance(props[attr], ast.Attribute) and props[attr].attr == attr:
                    table[(c_, attr)] = attr
            self._reg_table = table
        if not table or fi.node.name in {n_ for (_c, _a), n_ in table.items()} or any(fi.node.name == c_ for (c_, _a) in table):
            return
        fn = fi.node
        hit = [x for x in ast.walk(fn) if isinstance(x, ast.Attribute) and isinstance(x.ctx, ast.Load) and isinstance(x.value, ast.Attribute)
               and ast.unparse(x.value.value) == "self" and (x.value.attr, x.attr) in table]
        if not hit:
            return
        new = copy.deepcopy(fn) if fn is getattr(fi, "orig", None) else fn

        class _P(ast.NodeTransformer):
            def visit_Attribute(self, n):
                self.generic_visit(n)
                if isinstance(n.ctx, ast.Load) and isinstance(n.value, ast.Attribute) and ast.unparse(n.value.value) == "self" and (n.value.attr, n.attr) in table:
                    return ast.copy_location(ast.Attribute(value=n.value.value, attr=table[(n.value.attr, n.attr)], ctx=ast.Load()), n)
                return n
        _P().visit(new)
        ast.fix_missing_locations(new)
        fi.node = new

    OBJECT_ATTRS = {"fock", "polarization", "envelope", "composite_envelope", "container", "states", "product_states", "envelopes", "state_objs", "_operation_type"}

    def _object_aliases(self, fi) -> None:
        """`fock = self.fock` / `target = states[0]` name an *object* that the function never rebinds: the local is read as the
        expression it abbreviates (value snapshots such as `dims = self.dimensions` are not touched – they may go stale)"""
        fn = fi.node
        a = fn.args
        params = {p.arg for p in a.posonlyargs + a.args + a.kwonlyargs}
        vararg = a.vararg.arg if a.vararg else None
        stores: Dict[str, int] = {}
        for x in ast.walk(fn):
            if isinstance(x, ast.Name) and isinstance(x.ctx, (ast.Store, ast.Del)):
                stores[x.id] = stores.get(x.id, 0) + 1
        attr_stores = {x.attr for x in ast.walk(fn) if isinstance(x, ast.Attribute) and isinstance(x.ctx, ast.Store)}
        cands: Dict[str, ast.AST] = {}
        # loop variables bound by exactly one `for <name> in …`: an alias of `<name>.<object attr>` made inside that loop's body is good for
        # the reads that follow it in the same body
        all_loops = [l for l in ast.walk(fn) if isinstance(l, ast.For) and isinstance(l.target, ast.Name)]
        plain_stores: Dict[str, int] = {}
        for l in all_loops:
            plain_stores[l.target.id] = plain_stores.get(l.target.id, 0) + 1
        # names bound by `for` headers only (one or several loops in sequence)
        loop_only = {n_ for n_, c_ in plain_stores.items() if stores.get(n_) == c_ and n_ not in params}
        assigns = [x for x in ast.walk(fn) if isinstance(x, ast.Assign) and len(x.targets) == 1 and isinstance(x.targets[0], ast.Name)
                   and stores.get(x.targets[0].id) == 1 and x.targets[0].id not in params]
        for _ in range(3):
            for x in assigns:
                t = x.targets[0].id
                if t in cands:
                    continue
                v = x.value
                if isinstance(v, ast.Attribute) and v.attr in self.OBJECT_ATTRS and _is_simple(v) and v.attr not in attr_stores and isinstance(_root(v), ast.Name):
                    r = _root(v).id
                    if r in params or r == "self":
                        cands[t] = v
                    elif r in cands:
                        cands[t] = _Subst({r: cands[r]}, {}).visit(copy.deepcopy(v))
                    elif r in loop_only:
                        encl = [l for l in all_loops if l.target.id == r and any(y is x for b in l.body for y in ast.walk(b))]
                        if len(encl) != 1:
                            continue
                        loop = encl[0]
                        inside = {id(y) for b in loop.body for y in ast.walk(b)}
                        loads = [y for y in ast.walk(fn) if isinstance(y, ast.Name) and y.id == t and isinstance(y.ctx, ast.Load)]
                        if id(x) in inside and all(id(y) in inside and (y.lineno, y.col_offset) > (x.lineno, x.col_offset) for y in loads):
                            cands[t] = v
                elif vararg and isinstance(v, ast.Subscript) and isinstance(v.value, ast.Name) and v.value.id == vararg and isinstance(v.slice, ast.Constant) and isinstance(v.slice.value, int):
                    cands[t] = v
        if not cands:
            return
        new = copy.deepcopy(fn) if fn is getattr(fi, "orig", None) else fn

        class _A(ast.NodeTransformer):
            def visit_Name(self, n):
                if isinstance(n.ctx, ast.Load) and n.id in cands:
                    return ast.copy_location(copy.deepcopy(cands[n.id]), n)
                return n

            def visit_FunctionDef(self, n):
                if n is new:
                    self.generic_visit(n)
                return n
        _A().visit(new)
        ast.fix_missing_locations(new)
        fi.node = new

    def _match_to_if(self, fi) -> None:
        """`match len(xs): case 0: … case 1: … case _: …` over a count or a plain local is read as the if/elif/else chain it abbreviates
        (only literal int/str patterns and a final wildcard; the subject is a name, an attribute chain or len(<name>), so evaluating it
        per test changes nothing).  `match self` / `match self.expansion_level` dispatches are left alone: the rules read them as they are."""
        fn = fi.node

        def eligible(m: ast.Match) -> bool:
            sub = m.subject
            simple = _is_simple(sub) or (isinstance(sub, ast.Call) and isinstance(sub.func, ast.Name) and sub.func.id == "len" and len(sub.args) == 1 and _is_simple(sub.args[0]))
            if not simple or ast.unparse(sub) in ("self", "self.expansion_level") or ast.unparse(sub).endswith(".expansion_level"):
                return False
            for i, c in enumerate(m.cases):
                if c.guard is not None:
                    return False
                pt = c.pattern
                if isinstance(pt, ast.MatchValue) and isinstance(pt.value, ast.Constant) and isinstance(pt.value.value, (int, str)):
                    continue
                if isinstance(pt, ast.MatchAs) and pt.pattern is None and pt.name is None and i == len(m.cases) - 1:
                    continue
                # `case SomeClass():` – a class pattern without sub-patterns is isinstance(subject, SomeClass)
                if isinstance(pt, ast.MatchClass) and not pt.patterns and not pt.kwd_patterns and _is_simple(pt.cls):
                    continue
                return False
            return True
        if not any(isinstance(x, ast.Match) and eligible(x) for x in ast.walk(fn)):
            return
        new = copy.deepcopy(fn) if fn is getattr(fi, "orig", None) else fn

        def block(stmts):
            out = []
            for st in stmts:
                for fld in ("body", "orelse", "finalbody"):
                    sub = getattr(st, fld, None)
                    if isinstance(sub, list) and sub and isinstance(sub[0], ast.stmt) and not isinstance(st, (ast.FunctionDef, ast.ClassDef)):
                        setattr(st, fld, block(sub))
                if isinstance(st, ast.Match):
                    for c in st.cases:
                        c.body = block(c.body)
                if isinstance(st, ast.Try):
                    for h in st.handlers:
                        h.body = block(h.body)
                if isinstance(st, ast.Match) and eligible(st):
                    chain = None
                    for c in reversed(st.cases):
                        if isinstance(c.pattern, ast.MatchAs):
                            chain = list(c.body)
                        else:
                            if isinstance(c.pattern, ast.MatchClass):
                                test = ast.Call(func=ast.Name(id="isinstance", ctx=ast.Load()), args=[copy.deepcopy(st.subject), copy.deepcopy(c.pattern.cls)], keywords=[])
                            else:
                                test = ast.Compare(left=copy.deepcopy(st.subject), ops=[ast.Eq()], comparators=[copy.deepcopy(c.pattern.value)])
                            node = ast.If(test=test, body=list(c.body), orelse=chain if isinstance(chain, list) else ([] if chain is None else [chain]))
                            chain = ast.copy_location(node, c.body[0] if c.body else st)
                    if isinstance(chain, list):
                        out += chain
                    elif chain is not None:
                        out.append(chain)
                    continue
                out.append(st)
            return out
        new.body = block(new.body)
        ast.fix_missing_locations(new)
        fi.node = new

    def _unwalrus(self, fi) -> None:
        """`if (n := len(states)) == 2:` is read as `n = len(states)` followed by `if n == 2:` – only for assignment expressions that
        are evaluated unconditionally by their statement (not on the right of and/or, not inside a conditional expression,
        comprehension or lambda, not in a loop header); any other use leaves the function as written"""
        fn = fi.node
        if not any(isinstance(x, ast.NamedExpr) for x in ast.walk(fn)):
            return
        new = copy.deepcopy(fn) if fn is getattr(fi, "orig", None) else fn

        def unconditional(stmt_exprs, target) -> bool:
            # walk down from the statement's own expressions; stop at constructs that evaluate their children conditionally
            def visit(e, cond):
                if e is target:
                    return not cond
                if isinstance(e, ast.BoolOp):
                    return any(visit(v, cond or i > 0) for i, v in enumerate(e.values))
                if isinstance(e, ast.IfExp):
                    return visit(e.test, cond) or visit(e.body, True) or visit(e.orelse, True)
                if isinstance(e, (ast.Lambda, ast.ListComp, ast.SetComp, ast.DictComp, ast.GeneratorExp)):
                    return any(visit(c, True) for c in ast.iter_child_nodes(e))
                if isinstance(e, ast.Compare) and len(e.ops) > 1:
                    return visit(e.left, cond) or any(visit(c, cond or i > 0) for i, c in enumerate(e.comparators))
                return any(visit(c, cond) for c in ast.iter_child_nodes(e) if isinstance(c, (ast.expr, ast.keyword, ast.Starred)))
            return any(visit(e, False) for e in stmt_exprs)

        def own_exprs(st):
            if isinstance(st, ast.If):
                return [st.test]
            if isinstance(st, (ast.Assign, ast.AugAssign, ast.AnnAssign, ast.Return, ast.Expr)) and getattr(st, "value", None) is not None:
                return [st.value]
            if isinstance(st, ast.Assert):
                return [st.test]
            return []

        changed = [False]

        def block(stmts):
            out = []
            for st in stmts:
                exprs = own_exprs(st)
                ws = [w for e in exprs for w in ast.walk(e) if isinstance(w, ast.NamedExpr)]
                if ws and all(isinstance(w.target, ast.Name) and unconditional(exprs, w) for w in ws):
                    # innermost first = evaluation order for nested assignment expressions
                    for w in sorted(ws, key=lambda w: (-sum(1 for _ in ast.walk(w)),), reverse=True):
                        out.append(ast.copy_location(ast.Assign(targets=[ast.Name(id=w.target.id, ctx=ast.Store())], value=w.value), st))

                    class _W(ast.NodeTransformer):
                        def visit_NamedExpr(self, n):
                            self.generic_visit(n)
                            return ast.copy_location(ast.Name(id=n.target.id, ctx=ast.Load()), n)
                    for fld in ("test", "value"):
                        if getattr(st, fld, None) is not None and isinstance(getattr(st, fld), ast.expr):
                            setattr(st, fld, _W().visit(getattr(st, fld)))
                    changed[0] = True
                for fld in ("body", "orelse", "finalbody"):
                    sub = getattr(st, fld, None)
                    if isinstance(sub, list) and sub and isinstance(sub[0], ast.stmt) and not isinstance(st, (ast.FunctionDef, ast.ClassDef)):
                        setattr(st, fld, block(sub))
                if isinstance(st, ast.Match):
                    for c in st.cases:
                        c.body = block(c.body)
                if isinstance(st, ast.Try):
                    for h in st.handlers:
                        h.body = block(h.body)
                out.append(st)
            return out
        new.body = block(new.body)
        if changed[0]:
            ast.fix_missing_locations(new)
            fi.node = new

    def _module_constants(self, fi) -> None:
        """a literal that was given a module-level name (`_EINSUM_OP_FIRST = "ea,abcd,fb->efcd"`, `_PAIR_AXES = (0, 2, 1, 3)`) is read as
        that literal: names bound exactly once at module level to a string / number / tuple or list of numbers, never rebound in the function"""
        consts = getattr(fi.module, "_pwsa_consts", None)
        if consts is None:
            counts: Dict[str, int] = {}
            vals: Dict[str, ast.AST] = {}
            for st in ast.walk(fi.module.tree):
                if isinstance(st, ast.Name) and isinstance(st.ctx, (ast.Store, ast.Del)):
                    counts[st.id] = counts.get(st.id, 0) + 1
            for st in fi.module.tree.body:
                tgt = st.targets[0] if isinstance(st, ast.Assign) and len(st.targets) == 1 else (st.target if isinstance(st, ast.AnnAssign) else None)
                v = getattr(st, "value", None)
                if isinstance(tgt, ast.Name) and v is not None and _is_literal(v):
                    vals[tgt.id] = v
            consts = {k: v for k, v in vals.items() if counts.get(k) == 1}
            try:
                fi.module._pwsa_consts = consts
            except Exception:
                pass
        if not consts:
            return
        fn = fi.node
        used = {x.id for x in ast.walk(fn) if isinstance(x, ast.Name) and isinstance(x.ctx, ast.Load) and x.id in consts}
        if not used:
            return
        params = {a.arg for a in fn.args.posonlyargs + fn.args.args + fn.args.kwonlyargs}
        new = copy.deepcopy(fn) if fn is getattr(fi, "orig", None) else fn

        class _C(ast.NodeTransformer):
            def visit_Name(self, n):
                if isinstance(n.ctx, ast.Load) and n.id in consts and n.id not in params:
                    return ast.copy_location(copy.deepcopy(consts[n.id]), n)
                return n
        _C().visit(new)
        ast.fix_missing_locations(new)
        fi.node = new

    LEVEL_ORDER = {"Label": 0, "Vector": 1, "Matrix": 2}

    def _specialise_levels(self, fi) -> None:
        """a helper that takes the representation level as a parameter and was spliced in with a constant level (`level = ExpansionLevel.Vector`)
        is read as the level-specific code it stands for: comparisons between two ExpansionLevel members are evaluated, a module-level table
        keyed by ExpansionLevel members is read at a constant key (a lambda value applied in place is beta-reduced), once-bound locals holding
        the resulting booleans are propagated, and `if <constant>` / `<a> if <constant> else <b>` keep the arm that is taken"""
        fn = fi.node

        def lvl(e):
            return e.attr if isinstance(e, ast.Attribute) and ast.unparse(e.value).split(".")[-1] == "ExpansionLevel" and e.attr in self.LEVEL_ORDER else None
        tables = getattr(fi.module, "_pwsa_level_tables", None)
        if tables is None:
            counts: Dict[str, int] = {}
            for st in ast.walk(fi.module.tree):
                if isinstance(st, ast.Name) and isinstance(st.ctx, (ast.Store, ast.Del)):
                    counts[st.id] = counts.get(st.id, 0) + 1
            tables = {}
            for st in fi.module.tree.body:
                tgt = st.targets[0] if isinstance(st, ast.Assign) and len(st.targets) == 1 else (st.target if isinstance(st, ast.AnnAssign) else None)
                v = getattr(st, "value", None)
                if isinstance(tgt, ast.Name) and counts.get(tgt.id) == 1 and isinstance(v, ast.Dict) and v.keys and all(k is not None and lvl(k) for k in v.keys):
                    tables[tgt.id] = {lvl(k): val for k, val in zip(v.keys, v.values)}
            try:
                fi.module._pwsa_level_tables = tables
            except Exception:
                pass

        def candidate(x) -> bool:
            if isinstance(x, ast.Compare) and len(x.ops) == 1 and lvl(x.left) and lvl(x.comparators[0]):
                return True
            if isinstance(x, ast.Subscript) and isinstance(x.value, ast.Name) and x.value.id in tables and lvl(x.slice):
                return True
            return False
        if not any(candidate(x) for x in ast.walk(fn)):
            return
        new = copy.deepcopy(fn) if fn is getattr(fi, "orig", None) else fn
        params = {a.arg for a in new.args.posonlyargs + new.args.args + new.args.kwonlyargs}
        order = self.LEVEL_ORDER

        class _Fold(ast.NodeTransformer):
            def visit_FunctionDef(self, n):
                if n is new:
                    self.generic_visit(n)
                return n

            def visit_Lambda(self, n):
                return n

            def visit_Compare(self, n):
                self.generic_visit(n)
                if len(n.ops) == 1 and lvl(n.left) and lvl(n.comparators[0]):
                    a, b, op = order[lvl(n.left)], order[lvl(n.comparators[0])], n.ops[0]
                    val = {ast.Eq: a == b, ast.Is: a == b, ast.NotEq: a != b, ast.IsNot: a != b, ast.Lt: a < b, ast.LtE: a <= b, ast.Gt: a > b, ast.GtE: a >= b}.get(type(op))
                    if val is not None:
                        return ast.copy_location(ast.Constant(value=val), n)
                return n

            def visit_UnaryOp(self, n):
                self.generic_visit(n)
                if isinstance(n.op, ast.Not) and isinstance(n.operand, ast.Constant) and isinstance(n.operand.value, bool):
                    return ast.copy_location(ast.Constant(value=not n.operand.value), n)
                return n

            def visit_Subscript(self, n):
                self.generic_visit(n)
                if isinstance(n.ctx, ast.Load) and isinstance(n.value, ast.Name) and n.value.id in tables and n.value.id not in params and lvl(n.slice) in tables[n.value.id]:
                    return ast.copy_location(copy.deepcopy(tables[n.value.id][lvl(n.slice)]), n)
                return n

            def visit_Call(self, n):
                self.generic_visit(n)
                f = n.func
                if isinstance(f, ast.Lambda) and not n.keywords and not f.args.vararg and not f.args.kwarg and not f.args.kwonlyargs and not f.args.defaults \
                        and len(f.args.args) == len(n.args) and all(_is_simple(a) for a in n.args) and not any(isinstance(a, ast.Starred) for a in n.args):
                    bind = {p.arg: a for p, a in zip(f.args.args, n.args)}
                    return ast.copy_location(_Subst(bind, {}).visit(copy.deepcopy(f.body)), n)
                return n

            def visit_IfExp(self, n):
                self.generic_visit(n)
                if isinstance(n.test, ast.Constant) and isinstance(n.test.value, bool):
                    return n.body if n.test.value else n.orelse
                return n

        def prune(stmts):
            out = []
            for st in stmts:
                if isinstance(st, (ast.FunctionDef, ast.ClassDef)):
                    out.append(st)
                    continue
                for fld in ("body", "orelse", "finalbody"):
                    sub = getattr(st, fld, None)
                    if isinstance(sub, list) and sub and isinstance(sub[0], ast.stmt):
                        setattr(st, fld, prune(sub))
                if isinstance(st, ast.Try):
                    for h in st.handlers:
                        h.body = prune(h.body)
                if isinstance(st, ast.Match):
                    for c in st.cases:
                        c.body = prune(c.body)
                if isinstance(st, ast.If) and isinstance(st.test, ast.Constant) and isinstance(st.test.value, bool):
                    out += st.body if st.test.value else st.orelse
                    continue
                out.append(st)
            return out or [ast.Pass()]

        for _ in range(3):
            _Fold().visit(new)
            stores: Dict[str, int] = {}
            for x in ast.walk(new):
                if isinstance(x, ast.Name) and isinstance(x.ctx, (ast.Store, ast.Del)):
                    stores[x.id] = stores.get(x.id, 0) + 1
            flags = {x.targets[0].id: x.value for x in ast.walk(new) if isinstance(x, ast.Assign) and len(x.targets) == 1 and isinstance(x.targets[0], ast.Name)
                     and isinstance(x.value, ast.Constant) and isinstance(x.value.value, bool) and stores.get(x.targets[0].id) == 1 and x.targets[0].id not in params}
            if flags:
                class _Prop(ast.NodeTransformer):
                    def visit_Name(self, n):
                        if isinstance(n.ctx, ast.Load) and n.id in flags:
                            return ast.copy_location(ast.Constant(value=flags[n.id].value), n)
                        return n
                _Prop().visit(new)
                _Fold().visit(new)
            new.body = prune(new.body)
        ast.fix_missing_locations(new)
        fi.node = new

    LEVEL_KILLERS = {"expand", "contract", "_set_measured", "measure", "measure_POVM", "apply_kraus", "apply_operation", "combine", "extract"}

    def _level_aliases(self, fi) -> None:
        """`level = X.expansion_level` … `if level == ExpansionLevel.Vector:` is read as a test of X.expansion_level when
        nothing that can change a level (a store to an expansion_level attribute, expand/contract/measure/apply… calls)
        lies on any path between the alias and its use; otherwise the function is left exactly as written"""
        from .cfg import CFG
        fn = fi.node
        cands = {}
        stores: Dict[str, int] = {}
        for x in ast.walk(fn):
            if isinstance(x, ast.Name) and isinstance(x.ctx, (ast.Store, ast.Del)):
                stores[x.id] = stores.get(x.id, 0) + 1
            if isinstance(x, ast.Assign) and len(x.targets) == 1 and isinstance(x.targets[0], ast.Name) and isinstance(x.value, ast.Attribute) \
                    and x.value.attr == "expansion_level" and _is_simple(x.value):
                cands[x.targets[0].id] = x
        params = {a.arg for a in fn.args.posonlyargs + fn.args.args + fn.args.kwonlyargs}
        cands = {k: v for k, v in cands.items() if stores.get(k) == 1 and k not in params}
        if not cands:
            return
        new = copy.deepcopy(fn) if fn is getattr(fi, "orig", None) else fn
        # (re-locate the candidate statements in the copy by position)
        pos = {(v.lineno, v.col_offset): k for k, v in cands.items()}
        cfg = CFG(new)
        changed = False
        for nd in list(cfg.nodes):
            a = nd.ast
            if nd.kind == "stmt" and isinstance(a, ast.Assign) and (a.lineno, a.col_offset) in pos and len(a.targets) == 1 \
                    and isinstance(a.targets[0], ast.Name) and a.targets[0].id == pos[(a.lineno, a.col_offset)]:
                name, value = a.targets[0].id, a.value
                after = cfg.reachable([m for m, _ in cfg.succ[nd]])
                killers = [k for k in after if k.ast is not None and any(
                    (isinstance(y, ast.Attribute) and y.attr in ("expansion_level", "_expansion_level") and isinstance(y.ctx, ast.Store))
                    or (isinstance(y, ast.Call) and isinstance(y.func, ast.Attribute) and y.func.attr in self.LEVEL_KILLERS)
                    for y in _walk_header(k))]
                tainted = cfg.reachable([m for k in killers for m, _ in cfg.succ[k]]) if killers else set()
                uses = [(u, y) for u in after if u.ast is not None for y in _walk_header(u) if isinstance(y, ast.Name) and y.id == name and isinstance(y.ctx, ast.Load)]
                if not uses or any(u in tainted for u, _ in uses):
                    continue
                ids = {id(y) for _, y in uses}

                class _R(ast.NodeTransformer):
                    def visit_Name(self, n):
                        if id(n) in ids:
                            return ast.copy_location(copy.deepcopy(value), n)
                        return n
                _R().visit(new)
                changed = True
        if changed:
            ast.fix_missing_locations(new)
            fi.node = new

    def _absorbed(self, fis) -> set:
        """new private helpers whose every call site was rewritten: their bodies are analysed inside their callers,
        so whole-program scans do not look at them a second time out of context"""
        names = {q.split(".")[-1].split(":")[-1] for _, q in self.inlined}
        names = {n for n in names if n.startswith("_") and n not in KNOWN_PRIVATE}
        out = set()
        for name in names:
            left = 0
            for fi in fis:
                if fi.node.name == name:
                    continue
                for x in ast.walk(fi.node):
                    if (isinstance(x, ast.Attribute) and x.attr == name) or (isinstance(x, ast.Name) and x.id == name):
                        left += 1
            if left == 0:
                out |= {fi.qualname for fi in fis if fi.node.name == name}
        return out
