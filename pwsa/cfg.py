"""E5: statement-level control-flow graph + small-state path exploration.

Nodes are simple statements or the *header* of a compound statement (the test of an
``if``/``while``/``assert``, the iterator of a ``for``, the subject of a ``match``, one
``case`` pattern).  Edges carry a label: None (fall through), 'T'/'F' (test outcome),
'iter'/'done' (loop), 'case'/'nocase', 'exc' (to the exceptional exit).

``explore`` runs a forward analysis over the power set of a small abstract state: the
result is the set of (node, state) pairs reachable from the entry.  With finite states
this terminates and is path-sensitive for exactly the facts the state records.
"""
from __future__ import annotations

import ast
from dataclasses import dataclass, field
from typing import Callable, Dict, Hashable, Iterable, List, Optional, Set, Tuple


@dataclass(eq=False)
class Node:
    id: int
    kind: str                 # entry exit exc stmt test assert iter match case return raise
    ast: Optional[ast.AST]    # the statement, or the header expression
    stmt: Optional[ast.stmt]  # owning statement (for headers)
    loops: Tuple[ast.stmt, ...] = ()   # enclosing loop statements, innermost last

    @property
    def lineno(self) -> int:
        n = self.ast if self.ast is not None else self.stmt
        return getattr(n, "lineno", 0)

    def __repr__(self) -> str:
        t = ""
        if self.ast is not None:
            try:
                t = ast.unparse(self.ast).split("\n")[0][:60]
            except Exception:
                t = "?"
        return f"<{self.id}:{self.kind}@{self.lineno} {t}>"


class CFG:
    def __init__(self, fn: ast.FunctionDef):
        self.fn = fn
        self.nodes: List[Node] = []
        self.succ: Dict[Node, List[Tuple[Node, Optional[str]]]] = {}
        self.pred: Dict[Node, List[Tuple[Node, Optional[str]]]] = {}
        self.entry = self._new("entry", None, None, ())
        self.exit = self._new("exit", None, None, ())
        self.exc = self._new("exc", None, None, ())
        self._loop_stack: List[Tuple[Node, List[Node], ast.stmt]] = []  # (continue target, break sources, stmt)
        body = fn.body
        ends = self._block(body, [(self.entry, None)])
        for n, lab in ends:
            self._edge(n, self.exit, lab)
        self.by_stmt: Dict[int, List[Node]] = {}
        for n in self.nodes:
            if n.stmt is not None:
                self.by_stmt.setdefault(id(n.stmt), []).append(n)

    # ---------------------------------------------------------------- construction
    def _new(self, kind, a, stmt, loops) -> Node:
        n = Node(len(self.nodes), kind, a, stmt, loops)
        self.nodes.append(n)
        self.succ[n] = []
        self.pred[n] = []
        return n

    def _edge(self, a: Node, b: Node, label: Optional[str]) -> None:
        self.succ[a].append((b, label))
        self.pred[b].append((a, label))

    def _loops(self) -> Tuple[ast.stmt, ...]:
        return tuple(x[2] for x in self._loop_stack)

    def _connect(self, ins, node):
        for n, lab in ins:
            self._edge(n, node, lab)

    def _block(self, stmts: List[ast.stmt], ins: List[Tuple[Node, Optional[str]]]):
        for s in stmts:
            ins = self._stmt(s, ins)
        return ins

    def _stmt(self, s: ast.stmt, ins):
        L = self._loops()
        if isinstance(s, ast.If):
            t = self._new("test", s.test, s, L)
            self._connect(ins, t)
            a = self._block(s.body, [(t, "T")])
            b = self._block(s.orelse, [(t, "F")]) if s.orelse else [(t, "F")]
            return a + b
        if isinstance(s, ast.Assert):
            t = self._new("assert", s.test, s, L)
            self._connect(ins, t)
            self._edge(t, self.exc, "F")
            return [(t, "T")]
        if isinstance(s, (ast.For, ast.AsyncFor)):
            h = self._new("iter", s.iter, s, L)
            self._connect(ins, h)
            brk: List[Node] = []
            self._loop_stack.append((h, brk, s))
            body_out = self._block(s.body, [(h, "iter")])
            self._loop_stack.pop()
            for n, lab in body_out:
                self._edge(n, h, lab)
            outs = self._block(s.orelse, [(h, "done")]) if s.orelse else [(h, "done")]
            return outs + [(b, None) for b in brk]
        if isinstance(s, ast.While):
            t = self._new("test", s.test, s, L)
            self._connect(ins, t)
            brk = []
            self._loop_stack.append((t, brk, s))
            body_out = self._block(s.body, [(t, "T")])
            self._loop_stack.pop()
            for n, lab in body_out:
                self._edge(n, t, lab)
            outs = self._block(s.orelse, [(t, "F")]) if s.orelse else [(t, "F")]
            return outs + [(b, None) for b in brk]
        if isinstance(s, ast.Match):
            m = self._new("match", s.subject, s, L)
            self._connect(ins, m)
            outs = []
            cur = [(m, None)]
            exhaustive = False
            for c in s.cases:
                cn = self._new("case", c, s, L)
                self._connect(cur, cn)
                outs += self._block(c.body, [(cn, "case")])
                cur = [(cn, "nocase")]
                if isinstance(c.pattern, ast.MatchAs) and c.pattern.pattern is None and c.guard is None:
                    exhaustive = True
            if not exhaustive:
                outs += cur
            return outs
        if isinstance(s, ast.Return):
            n = self._new("return", s, s, L)
            self._connect(ins, n)
            self._edge(n, self.exit, None)
            return []
        if isinstance(s, ast.Raise):
            n = self._new("raise", s, s, L)
            self._connect(ins, n)
            self._edge(n, self.exc, "exc")
            return []
        if isinstance(s, ast.Break):
            n = self._new("stmt", s, s, L)
            self._connect(ins, n)
            if self._loop_stack:
                self._loop_stack[-1][1].append(n)
            return []
        if isinstance(s, ast.Continue):
            n = self._new("stmt", s, s, L)
            self._connect(ins, n)
            if self._loop_stack:
                self._edge(n, self._loop_stack[-1][0], None)
            return []
        if isinstance(s, (ast.With, ast.AsyncWith)):
            n = self._new("stmt", s, s, L)   # header: the context expressions
            self._connect(ins, n)
            return self._block(s.body, [(n, None)])
        if isinstance(s, ast.Try) or s.__class__.__name__ == "TryStar":
            n = self._new("stmt", None, s, L)
            self._connect(ins, n)
            body_out = self._block(s.body, [(n, None)])
            # handlers may be entered from the start of the body or after any statement of it:
            # approximated as: from the try header and from the end of the body
            outs = []
            h_in = [(n, "exc")] + [(x, "exc") for x, _ in body_out]
            for h in s.handlers:
                hn = self._new("stmt", None, s, L)
                self._connect(h_in, hn)
                outs += self._block(h.body, [(hn, None)])
            outs += self._block(s.orelse, body_out) if s.orelse else body_out
            if s.finalbody:
                outs = self._block(s.finalbody, outs)
            return outs
        # simple statement (Assign, AnnAssign, AugAssign, Expr, Pass, Delete, Import*, defs, Global…)
        n = self._new("stmt", s, s, L)
        self._connect(ins, n)
        return [(n, None)]

    # ---------------------------------------------------------------- queries
    def reachable(self, start: Iterable[Node], blocked: Set[Node] = frozenset(), skip_labels=()) -> Set[Node]:
        seen: Set[Node] = set()
        todo = [n for n in start]
        while todo:
            n = todo.pop()
            if n in seen or n in blocked:
                continue
            seen.add(n)
            for m, lab in self.succ[n]:
                if lab in skip_labels:
                    continue
                todo.append(m)
        return seen

    def must_pass_through(self, target: Node, through: Set[Node]) -> bool:
        """every entry→target path contains a node of `through` (true if target unreachable)"""
        return target not in self.reachable([self.entry], blocked=set(through))

    def always_followed_by(self, start: Node, through: Set[Node], exits: Optional[Set[Node]] = None) -> bool:
        """every path start→normal exit passes a node of `through`"""
        exits = exits or {self.exit}
        r = self.reachable([m for m, _ in self.succ[start]], blocked=set(through))
        return not (r & exits)

    def defined_names(self, node: Node) -> Set[str]:
        """local names (re)bound by executing this node"""
        a = node.ast
        out: Set[str] = set()
        if a is None:
            return out
        if node.kind == "iter" and isinstance(node.stmt, (ast.For, ast.AsyncFor)):
            out |= {t.id for t in ast.walk(node.stmt.target) if isinstance(t, ast.Name)}
            return out
        if node.kind == "stmt":
            if isinstance(a, ast.Assign):
                for t in a.targets:
                    out |= {x.id for x in ast.walk(t) if isinstance(x, ast.Name) and isinstance(x.ctx, ast.Store)}
                    # pseudo variable for the object's own stored state: "@self.state"
                    if isinstance(t, ast.Attribute) and isinstance(t.value, ast.Name) and t.value.id == "self":
                        out.add("@self." + t.attr)
            elif isinstance(a, (ast.AnnAssign, ast.AugAssign)):
                if getattr(a, "value", None) is not None and isinstance(a.target, ast.Name):
                    out.add(a.target.id)
                if isinstance(a.target, ast.Attribute) and isinstance(a.target.value, ast.Name) and a.target.value.id == "self":
                    out.add("@self." + a.target.attr)
            elif isinstance(a, (ast.Import, ast.ImportFrom)):
                out |= {(x.asname or x.name.split(".")[0]) for x in a.names}
            elif isinstance(a, (ast.FunctionDef, ast.ClassDef)):
                out.add(a.name)
        for e in ([a] if node.kind in ("test", "assert", "stmt", "return", "iter", "match") else []):
            for x in ast.walk(e) if not isinstance(e, (ast.FunctionDef, ast.ClassDef)) else []:
                if isinstance(x, ast.NamedExpr) and isinstance(x.target, ast.Name):
                    out.add(x.target.id)
        return out

    def reaching_defs(self, node: Node, name: str) -> List[Node]:
        """definition nodes of local `name` that reach the *entry* of `node`; the CFG entry is
        included (as self.entry) when the name may be unbound/parameter there"""
        out: List[Node] = []
        seen: Set[Node] = set()
        todo = [p for p, _ in self.pred[node]]
        while todo:
            n = todo.pop()
            if n in seen:
                continue
            seen.add(n)
            if name in self.defined_names(n) or n is self.entry:
                out.append(n)
                continue
            todo.extend(p for p, _ in self.pred[n])
        return out

    def nodes_of(self, stmt: ast.stmt) -> List[Node]:
        return self.by_stmt.get(id(stmt), [])

    def node_containing(self, expr: ast.AST) -> Optional[Node]:
        """the CFG node whose ast contains `expr` (identity)"""
        for n in self.nodes:
            if n.ast is None:
                continue
            root = n.ast
            if n.kind == "case":
                # pattern + guard only
                c = n.ast
                for sub in ast.walk(c.pattern):
                    if sub is expr:
                        return n
                if c.guard is not None:
                    for sub in ast.walk(c.guard):
                        if sub is expr:
                            return n
                continue
            if isinstance(root, (ast.FunctionDef, ast.ClassDef, ast.AsyncFunctionDef)):
                continue
            if isinstance(root, (ast.With, ast.AsyncWith)):
                for it in root.items:
                    for sub in ast.walk(it):
                        if sub is expr:
                            return n
                continue
            for sub in ast.walk(root):
                if sub is expr:
                    return n
        return None


State = Hashable


def explore(
    cfg: CFG,
    init: State,
    transfer: Callable[[Node, Optional[str], Node, State], Iterable[State]],
    limit: int = 200000,
) -> Dict[Node, Set[State]]:
    """reachable (node, state) pairs.  transfer(src, label, dst, state_at_src) yields the
    states holding at dst after executing src and taking the edge (empty = infeasible)."""
    seen: Dict[Node, Set[State]] = {n: set() for n in cfg.nodes}
    seen[cfg.entry].add(init)
    todo: List[Tuple[Node, State]] = [(cfg.entry, init)]
    steps = 0
    while todo:
        n, st = todo.pop()
        for m, lab in cfg.succ[n]:
            for st2 in transfer(n, lab, m, st):
                if st2 not in seen[m]:
                    seen[m].add(st2)
                    todo.append((m, st2))
                    steps += 1
                    if steps > limit:
                        raise RuntimeError("state explosion in explore()")
    return seen


# ------------------------------------------------------------------ boolean guard refinement
def refine(expr: ast.expr, truth: bool, state: State, atom: Callable[[ast.expr, bool, State], Iterable[State]]) -> List[State]:
    """states consistent with `expr` evaluating to `truth`; `atom` refines leaf tests
    (return [state] when the atom says nothing, [] when infeasible)."""
    if isinstance(expr, ast.BoolOp):
        vals = expr.values
        if isinstance(expr.op, ast.And):
            if truth:
                cur = [state]
                for v in vals:
                    cur = [s2 for s in cur for s2 in refine(v, True, s, atom)]
                return _dedup(cur)
            out, cur = [], [state]
            for v in vals:
                out += [s2 for s in cur for s2 in refine(v, False, s, atom)]
                cur = [s2 for s in cur for s2 in refine(v, True, s, atom)]
            return _dedup(out)
        else:
            if not truth:
                cur = [state]
                for v in vals:
                    cur = [s2 for s in cur for s2 in refine(v, False, s, atom)]
                return _dedup(cur)
            out, cur = [], [state]
            for v in vals:
                out += [s2 for s in cur for s2 in refine(v, True, s, atom)]
                cur = [s2 for s in cur for s2 in refine(v, False, s, atom)]
            return _dedup(out)
    if isinstance(expr, ast.UnaryOp) and isinstance(expr.op, ast.Not):
        return refine(expr.operand, not truth, state, atom)
    if isinstance(expr, ast.Compare) and len(expr.ops) > 1:
        # a < b < c   is   (a < b) and (b < c)
        parts, left = [], expr.left
        for op, right in zip(expr.ops, expr.comparators):
            parts.append(ast.copy_location(ast.Compare(left=left, ops=[op], comparators=[right]), expr))
            left = right
        return refine(ast.copy_location(ast.BoolOp(op=ast.And(), values=parts), expr), truth, state, atom)
    if isinstance(expr, ast.Call) and isinstance(expr.func, ast.Name) and expr.func.id == "bool" and len(expr.args) == 1 and not expr.keywords:
        return refine(expr.args[0], truth, state, atom)          # bool(x) is true exactly when x is
    return _dedup(list(atom(expr, truth, state)))


def resolve_at(cfg: "CFG", node: "Node", expr: ast.AST, depth: int = 2, keep=()) -> ast.AST:
    """a copy of `expr` in which a local name that has exactly one reaching definition at `node` (a plain `name = <expr>`)
    is replaced by that expression"""
    import copy as _copy
    cur = _copy.deepcopy(expr)
    for _ in range(depth):
        changed = False

        class _R(ast.NodeTransformer):
            def visit_Name(self, n):
                nonlocal changed
                if isinstance(n.ctx, ast.Load) and n.id not in keep:
                    ds = [d for d in cfg.reaching_defs(node, n.id)]
                    if len(ds) == 1 and ds[0] is not cfg.entry and ds[0].kind == "stmt" and isinstance(ds[0].ast, ast.Assign) and len(ds[0].ast.targets) == 1 \
                            and isinstance(ds[0].ast.targets[0], ast.Name) and ds[0].ast.targets[0].id == n.id:
                        changed = True
                        return _copy.deepcopy(ds[0].ast.value)
                return n
        cur = _R().visit(cur)
        if not changed:
            break
    return cur


def _dedup(xs):
    out, seen = [], set()
    for x in xs:
        if x not in seen:
            seen.add(x)
            out.append(x)
    return out


def header_exprs(node: Node) -> List[ast.AST]:
    """the expressions evaluated *at* this node (not in nested blocks)"""
    if node.ast is None:
        return []
    if node.kind in ("test", "assert", "iter", "match"):
        out = [node.ast]
        if node.kind == "iter" and isinstance(node.stmt, (ast.For, ast.AsyncFor)):
            pass
        return out
    if node.kind == "case":
        c = node.ast
        return [c.pattern] + ([c.guard] if c.guard is not None else [])
    if isinstance(node.ast, (ast.With, ast.AsyncWith)):
        return [it.context_expr for it in node.ast.items]
    if isinstance(node.ast, (ast.FunctionDef, ast.AsyncFunctionDef, ast.ClassDef)):
        return []
    return [node.ast]


def walk_node(node: Node):
    """all AST nodes evaluated at this CFG node (no nested lambdas/defs)"""
    from .model import walk_no_nested
    for e in header_exprs(node):
        yield e
        yield from walk_no_nested(e)
