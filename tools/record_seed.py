"""record_seed.py <ID> <k> : copies a confirmed seeded mutation into /verif/seeded/<ID>-<k>/ and records which checks catch it.
The patch is applied to /repo only for the duration of the check runs and reverted straight afterwards."""
import json, os, pathlib, shutil, subprocess, sys, tempfile
ID, k = sys.argv[1], sys.argv[2]
PROP = ID[:3]
srcd = pathlib.Path(f"/tmp/seed/{ID}.out/{k}")
dst = pathlib.Path(f"/verif/seeded/{ID}-{k}")
dst.mkdir(parents=True, exist_ok=True)
for f in ("patch.diff", "demo.py", "notes.md"):
    shutil.copy(srcd / f, dst / f)
conf = json.load(open(srcd / "confirm.json"))
assert conf["confirmed"], conf
subprocess.run(["git", "-C", "/repo", "apply", str(dst / "patch.diff")], check=True)
caught = {}
try:
    env = dict(os.environ, PWSA_EVIDENCE_DIR=tempfile.mkdtemp())
    for p in ["C01","C02","C03","C04","C05","C06","C07","C08","C09","C10","C11","C12","C13","C14","C15","C16","C17","C18","C20"]:
        r = subprocess.run(["/verif/check", p], capture_output=True, text=True, env=env)
        if r.returncode != 0:
            lines = [l.strip() for l in r.stdout.splitlines() if l.startswith("  ") or "ANALYSIS" in l]
            caught[p] = {"exit": r.returncode, "reports": [l[:220] for l in lines[:3]]}
    shutil.rmtree(env["PWSA_EVIDENCE_DIR"], ignore_errors=True)
finally:
    subprocess.run(["git", "-C", "/repo", "checkout", "--", "."], check=True)
    subprocess.run(["git", "-C", "/repo", "clean", "-fdq", "--", "photon_weave"], check=True)
notes = (srcd / "notes.md").read_text()
meta = {
    "id": f"{ID}-{k}", "property_broken": PROP, "source": "independent sub-agent given only the property text and a scratch worktree",
    "needs_to_manifest": notes.strip().split("\n")[0:12],
    "confirmed_by": "tools/confirm_seed.sh in a scratch worktree: demo exit 0 on the clean tree, non-zero on the mutated tree, 180/180 stable tests pass with the mutation",
    "confirmation": conf,
    "checks_run": "every ./check <Cnn> --tier quick with the patch applied to /repo (reverted afterwards)",
    "caught_by": caught,
    "caught_by_seeded_property": PROP in caught and caught[PROP]["exit"] == 1,
}
json.dump(meta, open(dst / "meta.json", "w"), indent=1)
print(ID, k, "caught by", {p: v["exit"] for p, v in caught.items()})
