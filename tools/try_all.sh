#!/bin/bash
# usage: try_all.sh <patch.diff> : applies to /repo, runs all rules once (one process), prints unlisted violations and rule errors, reverts
P=$1
cd /repo && git apply "$P" || { echo "patch does not apply to /repo"; exit 2; }
cd /verif
PYTHONPATH=/verif /venv/bin/python - <<'PY'
from pwsa.model import Repo, AnalysisError
from pwsa.rules import load_all, RULES
from pwsa.report import load_known, known_match, partition_known
load_all(); r = Repo(); known = load_known()["known"]
for name, f in RULES.items():
    try:
        obs = f(r)
    except AnalysisError as e:
        print("  ERROR", name, str(e)[:200]); continue
    except Exception as e:
        print("  CRASH", name, type(e).__name__, str(e)[:200]); continue
    _, unl = partition_known([o for o in obs if o.status == "violation"], known, lambda o: o.props)
    for o in unl:
        print("  VIOL ", o.text()[:260])
PY
cd /repo && git checkout -q -- . && git clean -fdq -- photon_weave
