#!/bin/bash
# usage: try_wt.sh <scratch-worktree> <patch.diff> : applies the patch in the scratch worktree (never /repo), runs all rules once on it
# (PWSA_REPO points the analyser at that tree), prints unlisted violations, rule errors and undecided obligations, reverts the worktree
WT=$1; P=$2
cd "$WT" && git checkout -q -- . && git clean -fdq -- photon_weave && git apply "$P" || { echo "patch does not apply to $WT"; exit 2; }
cd /verif
PWSA_REPO=$WT PYTHONPATH=/verif /venv/bin/python - <<'PY'
from pwsa.model import Repo, AnalysisError
from pwsa.rules import load_all, RULES
from pwsa.report import load_known, known_match, partition_known
load_all(); r = Repo(); known = load_known()["known"]
for name, f in RULES.items():
    try:
        obs = f(r)
    except AnalysisError as e:
        print("  ERROR", name, str(e)[:200]); continue
    except Exception as e:
        print("  CRASH", name, type(e).__name__, str(e)[:200]); continue
    _, unl = partition_known([o for o in obs if o.status == "violation"], known, lambda o: o.props)
    for o in unl:
        print("  VIOL ", o.props, o.text()[:260])
    for o in obs:
        if o.status == "unanalysed":
            print("  UNAN ", o.rule, o.where, o.key, o.msg[:120])
PY
cd "$WT" && git checkout -q -- . && git clean -fdq -- photon_weave
