#!/bin/bash
# usage: try_seed.sh <patch.diff>  -> applies to /repo, runs every check, reverts. Prints per-property exit codes and VIOLATION lines.
P=$1
cd /repo && git apply "$P" || { echo "patch does not apply to /repo"; exit 2; }
cd /verif
export PWSA_EVIDENCE_DIR=$(mktemp -d)
for p in C01 C02 C03 C04 C05 C06 C07 C08 C09 C10 C11 C12 C13 C14 C15 C16 C17 C18 C20; do
  out=$(./check $p 2>&1); rc=$?
  if [ $rc -ne 0 ]; then echo "== $p rc=$rc"; echo "$out" | grep -E "^  |ANALYSIS" | cut -c1-260 | head -4; fi
done
rm -rf $PWSA_EVIDENCE_DIR
cd /repo && git checkout -q -- . && git clean -fdq -- photon_weave && git status --short | head -3
