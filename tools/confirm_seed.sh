#!/bin/bash
# usage: confirm_seed.sh <worktree> <outdir-with-patch.diff+demo.py> <name>
# Confirms a seeded mutation in a scratch worktree (never /repo): demo passes on the clean tree, fails on the
# mutated tree, and the 180 stable tests still pass with the mutation. Writes <outdir>/confirm.json
WT=$1; OUT=$2; NAME=$3
cd "$WT" || exit 2
git checkout -q -- . ; git clean -fdq -e '*.out' 2>/dev/null
PYTHONPATH=$WT /venv/bin/python "$OUT/demo.py" > "$OUT/demo_clean.log" 2>&1; RC_CLEAN=$?
git apply "$OUT/patch.diff" || { echo "patch does not apply"; exit 2; }
PYTHONPATH=$WT /venv/bin/python "$OUT/demo.py" > "$OUT/demo_mut.log" 2>&1; RC_MUT=$?
T=$(mktemp -d)
/venv/bin/python -m pytest -q -p no:cacheprovider --timeout=900 --continue-on-collection-errors --junitxml=$T/j.xml > $T/log 2>&1
JUNIT=$T/j.xml OUTF="$OUT/confirm.json" RC_CLEAN=$RC_CLEAN RC_MUT=$RC_MUT NAME=$NAME /venv/bin/python - <<'PY'
import json, os, xml.etree.ElementTree as ET
b=json.load(open('/root/.vp/BASELINE.json')); stable=set(b['stable_pass'])
res={}
for tc in ET.parse(os.environ['JUNIT']).iter('testcase'):
    res[f"{tc.get('classname')}::{tc.get('name')}"]= not any(ch.tag in ('failure','error','skipped') for ch in tc)
broken=[s for s in stable if not res.get(s, False)]
out={"name":os.environ['NAME'],"demo_rc_clean":int(os.environ['RC_CLEAN']),"demo_rc_mutated":int(os.environ['RC_MUT']),"stable_total":len(stable),"stable_broken":broken,
     "confirmed": int(os.environ['RC_CLEAN'])==0 and int(os.environ['RC_MUT'])!=0 and not broken}
json.dump(out, open(os.environ['OUTF'],'w'), indent=1); print(json.dumps(out))
PY
rm -rf $T
git checkout -q -- .
