#!/bin/bash
# prints unanalysed obligations with patch applied
P=$1
cd /repo && git apply "$P" || exit 2
cd /verif
PYTHONPATH=/verif /venv/bin/python - <<'PY'
from pwsa.model import Repo, AnalysisError
from pwsa.rules import load_all, RULES
load_all(); r=Repo()
for name,f in RULES.items():
    try: obs=f(r)
    except AnalysisError as e: print("  ERROR", name, str(e)[:150]); continue
    for o in obs:
        if o.status=='unanalysed': print('  UNAN', o.rule, o.where, o.key, o.msg[:120])
PY
cd /repo && git checkout -q -- . && git clean -fdq -- photon_weave
