"""Regenerates /verif/MANIFEST.json from pwsa.props.PROPS (run by hand after changing the claim set)."""
import json, sys
sys.path.insert(0, '/verif')
from pwsa.props import PROPS

TECH = {
 "C01": "call-graph routing table + CFG path exploration over index-kind/level domains; einsum-string syntax checks; abstract sequence-term summaries of the einsum generators",
 "C02": "def-use pairing of tensor order and bookkeeping order; abstract sequence-term summaries of reorder/trace generators",
 "C03": "abstract sequence-term summaries of the apply generators compared with specification terms; call-site argument pairing",
 "C04": "backward slices of every sampler's p= argument matched against a Born-form grammar; generator summaries",
 "C05": "flag-forwarding dataflow over resolved delegation calls; typestate exploration of evictions; decision table of the measurement guards",
 "C06": "CFG must-pass-through (validation, promotion to Matrix) with derived callee level transformers; accumulator def-use",
 "C07": "level-domain path exploration: normaliser/level agreement, tag/data pairing",
 "C08": "syntax-tree rules on outer products; one-bit forward dataflow for tag writes; control dependence on the purity test",
 "C09": "contradiction rule between probability and post-state expressions; einsum literal sandwich checker; flag dataflow",
 "C10": "path exploration with linear integer guard normalisation (num_quanta < new_dimensions) over all resize bodies",
 "C11": "exact symbolic folding of the beam-splitter arm into a non-commutative polynomial normal form",
 "C12": "dispatch-table exhaustiveness + exact symbolic folding of every operator constructor against textbook definitions",
 "C13": "post-dominance / who-may-write / typestate rules over the bookkeeping functions",
 "C14": "def-use typestate of PRNG keys over the CFG at every sampler site; who-may-write Config._key; entropy-source scan",
 "C15": "effect analysis of enum-member methods; must-pass-through compute_dimensions; reaching-definition alias analysis",
 "C16": "arm-by-arm pattern normalisation of the interpreter (fold direction, operand order), CFG exit analysis",
 "C17": "path exploration: physical write before raise / return False, with level-infeasible paths pruned",
 "C18": "eq/hash contract check + provenance classification of every membership/index/remove site",
 "C20": "provenance of combine() arguments and selections; path-sensitive reachability of combine() for single-target requests",
}
checks = []
for pid in sorted(PROPS):
    spec = PROPS[pid]
    checks.append({
        "property_id": pid,
        "quick_cmd": f"./check {pid} --tier quick",
        "thorough_cmd": f"./check {pid} --tier thorough",
        "evidence_file": f"/verif/evidence/{pid}.json",
        "replay_cmd_template": "./check " + pid + " --replay {path}",
        "engine": "pwsa",
        "level_claimed": {
            "category": "other",
            "text": "static analysis: for every call site / path / table entry of the enumerated kinds in the current source the stated structural clause holds (or the deviation is a listed known finding). Universal over inputs for the clause decided; no statement about floating-point values. Decided: " + spec["explanation"] + ". Not decided: " + spec["declined"],
            "design_ref": "DESIGN.md §3, §4 (" + pid + ")",
        },
        "level_note": "trusted base: CPython ast parser, pwsa receiver typing and guard interpretation (DESIGN §2), frozen idiom tables, JAX/NumPy semantics of the named primitives; nothing of photon_weave is imported or executed",
        "technique": "static analysis: " + TECH[pid],
    })
m = {
    "version": 1,
    "setup_cmd": "/venv/bin/python -m compileall -q /verif/pwsa >/dev/null 2>&1 || true",
    "hooks": {
        "guard": "TQSD_PHOTON_WEAVE_VERIF",
        "enable": "reserved but unused: a source-level analysis needs no hooks or instrumentation; no hook commits exist in /repo",
        "baseline_off_cmd": "cd /repo && /venv/bin/python -m pytest -ra -q -p no:cacheprovider --timeout=900 --continue-on-collection-errors",
        "source_commits": [],
        "add_only": True,
    },
    "engines": [{"name": "pwsa", "path": "/verif/pwsa", "serves_properties": sorted(PROPS),
                 "kind_free_text": "repository-specific static analyser on the standard-library ast module: loader/symbol tables, receiver typing, statement-level CFG with small-state path exploration, level/index-kind/primitive domains, ~70 rules, AST see-through for refactoring helpers, abstract summaries of the einsum-string generators, exact symbolic folding of operator constructors"}],
    "checks": checks,
    "notes": "exit 0 = all obligations hold or deviate only in /verif/known_findings.json entries (printed as KNOWN-FINDING lines); exit 1 = unlisted violation (VIOLATION property=<id> replay=<path>); exit 2 = ANALYSIS-ERROR (parse failure, vanished anchor, non-vacuity floor). Repairs of genuine defects are the unguarded `fix:` commits in /repo listed under `fixed` in known_findings.json.",
    "not_applicable": [
        {"property_id": "C19", "reason": "the statement is entirely about the value returned by scipy.integrate.quad over (-inf, inf) for pulse widths from femtoseconds to seconds; no clause of it is visible in the shape of the code (any structural proxy would be a frozen source fragment) - static analysis cannot decide it"},
    ] + ([] if "C04" in PROPS else [{"property_id": "C04", "reason": "Born-form rule (SAMP-e) not armed yet in this revision"}]),
}
json.dump(m, open('/verif/MANIFEST.json', 'w'), indent=1)
print("checks:", len(checks))
