"""
Chain of composite-envelope merges followed by a merge of two handles that already
share one container (an old handle + an envelope that is already inside).

Property checked: after every construction all handles see the same container, no
product space / member envelope is listed twice, every index names the real place, the
joint state equals an independent numpy reference, and after a destructive measurement
the measured envelope is no longer a member of the composite.
"""

import numpy as np
import jax.numpy as jnp

from photon_weave.photon_weave import Config
from photon_weave.state.composite_envelope import CompositeEnvelope
from photon_weave.state.envelope import Envelope
from photon_weave.state.polarization import PolarizationLabel

C = Config()
C.set_seed(3)
C.set_contraction(True)


def check(*handles):
    cont = handles[0].container
    for h in handles:
        assert h.container is cont, "handles see different containers"
        assert h.product_states is cont.states and h.envelopes is cont.envelopes
    pss = cont.states
    assert len({id(p) for p in pss}) == len(pss), "a product space is listed twice"
    assert len({id(e) for e in cont.envelopes}) == len(
        cont.envelopes
    ), "a member envelope is listed twice"
    assert len({id(s) for s in cont.state_objs}) == len(cont.state_objs)
    for e in cont.envelopes:
        assert e.composite_envelope is not None
        assert e.composite_envelope.container is cont, "envelope back pointer"
    for i, p in enumerate(pss):
        assert len(p.state_objs) > 0, "empty product space"
        for j, s in enumerate(p.state_objs):
            assert s.index == (i, j), f"index {s.index} names the wrong place {(i, j)}"
            assert s.state is None
            assert s.composite_envelope.container is cont, "subsystem back pointer"


envs = [Envelope() for _ in range(4)]
envs[0].polarization.state = PolarizationLabel.R
envs[1].polarization.state = PolarizationLabel.L
p = [e.polarization for e in envs]

# first composite with one product space
ceA = CompositeEnvelope(envs[0], envs[1])
ceA.combine(p[0], p[1])
check(ceA)

# chain of merges, the old handles are kept by the user
ceB = CompositeEnvelope(ceA, envs[2])
check(ceA, ceB)
ceC = CompositeEnvelope(ceB, envs[3])
check(ceA, ceB, ceC)

# an unrelated composite living in the same process
o1, o2 = Envelope(), Envelope()
o1.polarization.state = PolarizationLabel.V
other = CompositeEnvelope(o1, o2)
other.combine(o1.polarization, o2.polarization)
check(other)

# merge of handles that already share a container: the oldest handle together with an
# envelope that is already a member
ceD = CompositeEnvelope(ceA, envs[3])
check(ceA, ceB, ceC, ceD)
assert len(ceD.product_states) == 1
assert sorted(id(e) for e in ceD.envelopes) == sorted(id(e) for e in envs)

# state is still what it was: R (x) L, numpy reference
R = np.array([1, 1j]) / np.sqrt(2)
A = np.array([1, -1j]) / np.sqrt(2)
ref = np.kron(R, A).reshape(-1, 1)
got = np.asarray(ceD.trace_out(p[0], p[1]))
assert abs(np.vdot(ref, got)) > 1 - 1e-6

# bring a third subsystem in through the oldest handle and check the bookkeeping again
ceA.combine(p[1], p[2])
check(ceA, ceB, ceC, ceD)
ref3 = np.kron(np.kron(R, A), np.array([1, 0])).reshape(-1, 1)
got3 = np.asarray(ceC.trace_out(p[0], p[1], p[2]))
assert abs(np.vdot(ref3, got3)) > 1 - 1e-6

# destructive measurement through yet another handle
out = ceB.measure(p[0])
assert out[p[0]] in (0, 1) and out[envs[0].fock] == 0
assert envs[0].measured
check(ceA, ceB, ceC, ceD)
assert all(e is not envs[0] for e in ceD.envelopes), "measured envelope still a member"
assert p[1].index == (0, 0) and p[2].index == (0, 1)
got2 = np.asarray(ceD.trace_out(p[1], p[2]))
ref2 = np.kron(A, np.array([1, 0])).reshape(-1, 1)
assert abs(np.vdot(ref2, got2)) > 1 - 1e-6

# the unrelated composite was never touched
check(other)
assert other.product_states[0].state_objs == [o1.polarization, o2.polarization]
D = np.array([0, 1])
refo = np.kron(D, np.array([1, 0])).reshape(-1, 1)
assert abs(np.vdot(refo, np.asarray(other.trace_out(o1.polarization, o2.polarization)))) > 1 - 1e-6
print("OK")
